"""Shared runner for every property check.

A property module (harness/cXX.py) provides

    PROP          = "C01"
    PROPS_FILES   = ["CogentModel/Props/C01.lean"]      # files whose theorems are the obligations
    LEAN_TARGETS  = ["CogentModel.Props.C01"]           # lake build targets (modules)
    DRIVER        = "drv_c01" or None
    TRUSTED       = [...]                               # extra trusted-base strings
    ASSUMPTIONS   = [...]
    def generate(ctx) -> list[str]          (optional)  translator step; returns problems
    def correspondence(ctx) -> Outcome      (optional)  model vs implementation
    def spec_check(ctx, budget) -> Outcome  (optional)  implementation vs spec (also the failing-input search)
    def match_finding(failure, finding) -> bool (optional)
    def replay(ctx, data) -> bool (optional)            True if the replayed input still fails

Outcome = dict(evaluations=int, nontrivial=set-or-int, samples=[...], failures=[Failure...],
               dist={...}, rule=str)
Failure = dict(kind="spec"|"corr", what=str, input=..., expected=..., got=..., confirmed=bool, sig=str)
"""
from __future__ import annotations

import argparse
import fcntl
import hashlib
import importlib
import json
import os
import random
import re
import shutil
import subprocess
import sys
import tempfile
import time
import traceback
from fractions import Fraction
from pathlib import Path

VERIF = Path(__file__).resolve().parent.parent
LEAN = VERIF / "lean"
REPO = Path(os.environ.get("VERIF_REPO", "/repo"))
SRC = REPO / "src" / "cogent3"
EVIDENCE = Path(os.environ.get("VERIF_EVIDENCE_DIR") or (VERIF / "evidence"))
REPLAYS = Path(os.environ.get("VERIF_REPLAY_DIR") or (VERIF / "replays"))
KNOWN = VERIF / "known_findings.json"
STD_AXIOMS = {"propext", "Classical.choice", "Quot.sound"}
FORBIDDEN = re.compile(
    r"\bsorry\b|\badmit\b|^\s*axiom\s|native_decide|bv_decide|implemented_by|\bunsafe\s|maxHeartbeats\s+0\b|@\[extern",
    re.M,
)


# --------------------------------------------------------------------------
# small utilities
# --------------------------------------------------------------------------
def log(*a):
    print(*a, file=sys.stderr, flush=True)


def rat(x) -> str:
    """exact rational string of a python float / int / Fraction (for the driver)"""
    f = Fraction(x)
    return f"{f.numerator}/{f.denominator}"


def unrat(s) -> Fraction:
    if isinstance(s, int):
        return Fraction(s)
    a, _, b = s.partition("/")
    return Fraction(int(a), int(b or 1))


class Ctx:
    def __init__(self, prop, tier, seed):
        self.prop = prop
        self.tier = tier
        self.seed = seed
        self.rng = random.Random(f"{prop}:{seed}")
        self.t0 = time.time()
        self.notes = []
        self._scratch = None
        self.thorough = tier == "thorough"

    def budget(self, quick, thorough):
        return thorough if self.thorough else quick

    @property
    def scratch(self) -> Path:
        if self._scratch is None:
            base = os.environ.get("VERIF_SCRATCH") or tempfile.gettempdir()
            self._scratch = Path(tempfile.mkdtemp(prefix=f"verif_{self.prop}_", dir=base))
        return self._scratch

    def cleanup(self):
        if self._scratch is not None:
            shutil.rmtree(self._scratch, ignore_errors=True)
            self._scratch = None

    def subrng(self, tag) -> random.Random:
        return random.Random(f"{self.prop}:{self.seed}:{tag}")


# --------------------------------------------------------------------------
# lake / lean
# --------------------------------------------------------------------------
class LakeLock:
    def __enter__(self):
        (LEAN / ".lake").mkdir(exist_ok=True)
        self.f = open(LEAN / ".lake" / "verif.lock", "w")
        fcntl.flock(self.f, fcntl.LOCK_EX)
        return self

    def __exit__(self, *a):
        fcntl.flock(self.f, fcntl.LOCK_UN)
        self.f.close()


def lake_build(targets, timeout=3000):
    """returns (ok, output)"""
    with LakeLock():
        p = subprocess.run(
            ["lake", "build", *targets],
            cwd=LEAN,
            capture_output=True,
            text=True,
            timeout=timeout,
        )
    return p.returncode == 0, p.stdout + p.stderr


_DECL = re.compile(r"^\s*(?:@\[[^\]]*\]\s*)*(?:private\s+|protected\s+)?(theorem|lemma)\s+([^\s:({\[]+)", re.M)
_NS = re.compile(r"^\s*namespace\s+(\S+)|^\s*end\s+(\S+)", re.M)


def strip_comments(src: str) -> str:
    # remove block comments (nested) and line comments
    out = []
    i, depth, n = 0, 0, len(src)
    while i < n:
        if src.startswith("/-", i):
            depth += 1
            i += 2
        elif depth and src.startswith("-/", i):
            depth -= 1
            i += 2
        elif depth:
            if src[i] == "\n":
                out.append("\n")
            i += 1
        elif src.startswith("--", i):
            while i < n and src[i] != "\n":
                i += 1
        else:
            out.append(src[i])
            i += 1
    return "".join(out)


def theorems_in(path: Path):
    """[(full_name, line_no)] for every theorem/lemma declared in the file,
    following `namespace`/`end` blocks"""
    src = strip_comments(path.read_text())
    res = []
    ns = []
    for ln, line in enumerate(src.split("\n"), 1):
        m = re.match(r"^\s*namespace\s+(\S+)", line)
        if m:
            ns.append(m.group(1))
            continue
        m = re.match(r"^\s*end\s+(\S+)\s*$", line)
        if m and ns and ns[-1] == m.group(1):
            ns.pop()
            continue
        m = _DECL.match(line)
        if m:
            name = m.group(2)
            if name.startswith("_root_."):
                full = name[len("_root_."):]
            else:
                full = ".".join(ns + [name])
            res.append((full, ln))
    return res


def failed_theorems(build_out: str, props_files):
    """map `error:` lines of the build log onto the enclosing theorem of the props files"""
    failed = set()
    other = []
    decls = {}
    for pf in props_files:
        decls[pf] = theorems_in(LEAN / pf)
    for m in re.finditer(r"^error: (\S+?\.lean):(\d+):(\d+): (.*)$", build_out, re.M):
        f, ln, msg = m.group(1), int(m.group(2)), m.group(4)
        hit = None
        for pf, ds in decls.items():
            if f.endswith(pf):
                for name, l0 in ds:
                    if l0 <= ln:
                        hit = name
        if hit:
            failed.add(hit)
        else:
            other.append(f"{f}:{ln}: {msg}")
    return failed, other


def audit_axioms(modules, theorems, scratch: Path):
    """returns {theorem: set(axioms)} ; missing theorem => key absent"""
    if not theorems:
        return {}, ""
    src = "".join(f"import {m}\n" for m in modules)
    src += "".join(f"#print axioms {t}\n" for t in theorems)
    f = scratch / "Audit.lean"
    f.write_text(src)
    p = subprocess.run(["lake", "env", "lean", str(f)], cwd=LEAN, capture_output=True, text=True, timeout=1200)
    out = p.stdout + p.stderr
    res = {}
    for m in re.finditer(r"'([^']+)' depends on axioms: \[([^\]]*)\]", out, re.S):
        res[m.group(1)] = {a.strip() for a in m.group(2).replace("\n", " ").split(",") if a.strip()}
    for m in re.finditer(r"'([^']+)' does not depend on any axioms", out):
        res[m.group(1)] = set()
    return res, out


def import_closure(modules):
    """project-local .lean files reachable through `import` from the given modules"""
    seen, todo = {}, list(modules)
    while todo:
        m = todo.pop()
        if m in seen:
            continue
        f = LEAN / (m.replace(".", "/") + ".lean")
        if not f.exists():
            continue
        seen[m] = f
        for mm in re.findall(r"^\s*(?:public\s+)?import\s+(\S+)", f.read_text(), re.M):
            if mm.split(".")[0] in ("CogentModel", "Driver"):
                todo.append(mm)
    return sorted(seen.values())


def forbidden_tokens(modules=None):
    hits = []
    files = import_closure(modules) if modules else sorted(LEAN.rglob("*.lean"))
    for p in files:
        if ".lake" in p.parts:
            continue
        src = strip_comments(p.read_text())
        for m in FORBIDDEN.finditer(src):
            ln = src.count("\n", 0, m.start()) + 1
            hits.append(f"{p.relative_to(LEAN)}:{ln}: {m.group(0).strip()}")
    return hits


class Driver:
    """batch line protocol to a native driver executable"""

    def __init__(self, name):
        self.name = name
        self.path = LEAN / ".lake" / "build" / "bin" / name

    def batch(self, reqs, timeout=3000):
        """reqs: list of (cmd, obj) -> list of decoded replies"""
        if not reqs:
            return []
        inp = "".join(f"{c} {json.dumps(o, separators=(',', ':'))}\n" for c, o in reqs)
        p = subprocess.run([str(self.path)], input=inp, capture_output=True, text=True, timeout=timeout)
        lines = p.stdout.split("\n")
        if lines and lines[-1] == "":
            lines.pop()
        if len(lines) != len(reqs):
            raise RuntimeError(
                f"driver {self.name}: {len(reqs)} requests, {len(lines)} replies; rc={p.returncode} stderr={p.stderr[:500]}"
            )
        return [json.loads(l) for l in lines]


# --------------------------------------------------------------------------
# outcomes
# --------------------------------------------------------------------------
def new_outcome(rule=""):
    return dict(evaluations=0, nontrivial=set(), samples=[], failures=[], dist={}, rule=rule)


def bump(out, key, sub=None):
    d = out["dist"]
    if sub is None:
        d[key] = d.get(key, 0) + 1
    else:
        dd = d.setdefault(key, {})
        dd[str(sub)] = dd.get(str(sub), 0) + 1


def add_failure(out, kind, what, inp, expected, got, confirmed=True, sig=None, maxkeep=200):
    if len(out["failures"]) < maxkeep:
        out["failures"].append(
            dict(kind=kind, what=what, input=inp, expected=expected, got=got, confirmed=confirmed, sig=sig or what)
        )
    else:
        out["dist"]["failures_dropped"] = out["dist"].get("failures_dropped", 0) + 1


def merge_outcomes(*outs):
    res = new_outcome()
    rules = []
    for o in outs:
        if o is None:
            continue
        res["evaluations"] += o["evaluations"]
        nt = o["nontrivial"]
        if isinstance(nt, int):
            nt = {f"{id(o)}:{i}" for i in range(nt)}
        res["nontrivial"] |= set(nt)
        res["samples"] += o["samples"][:4]
        res["failures"] += o["failures"]
        for k, v in o["dist"].items():
            res["dist"][k] = v if k not in res["dist"] else _merge_dist(res["dist"][k], v)
        if o.get("rule"):
            rules.append(o["rule"])
    res["rule"] = " || ".join(rules)
    return res


def _merge_dist(a, b):
    if isinstance(a, dict) and isinstance(b, dict):
        r = dict(a)
        for k, v in b.items():
            r[k] = _merge_dist(r[k], v) if k in r else v
        return r
    if isinstance(a, (int, float)) and isinstance(b, (int, float)):
        return a + b
    return b


def load_known(prop, status="finding"):
    """known findings = known_findings.json + known_findings.d/*.json (same format, one file per property)"""
    res = []
    files = [KNOWN] + sorted((VERIF / "known_findings.d").glob("*.json"))
    for fp in files:
        if not fp.exists():
            continue
        data = json.loads(fp.read_text())
        res += [f for f in data.get("findings", []) if f.get("property") == prop and f.get("status") == status]
    return res


def jsonable(x):
    if isinstance(x, (str, int, float, bool)) or x is None:
        return x
    if isinstance(x, Fraction):
        return f"{x.numerator}/{x.denominator}"
    if isinstance(x, dict):
        return {str(k): jsonable(v) for k, v in x.items()}
    if isinstance(x, (list, tuple, set, frozenset)):
        return [jsonable(v) for v in x]
    try:
        import numpy

        if isinstance(x, numpy.generic):
            return x.item()
        if isinstance(x, numpy.ndarray):
            return x.tolist()
    except Exception:
        pass
    return repr(x)


# --------------------------------------------------------------------------
# main flow
# --------------------------------------------------------------------------
def run_check(prop: str, tier: str, seed: int, replay_path=None) -> int:
    mod = importlib.import_module(f"harness.{prop.lower()}")
    ctx = Ctx(prop, tier, seed)
    try:
        if replay_path:
            data = json.loads(Path(replay_path).read_text())
            if not hasattr(mod, "replay"):
                print("replay not supported for this property")
                return 2
            still = mod.replay(ctx, data)
            print("REPLAY: still fails" if still else "REPLAY: passes now")
            return 1 if still else 0
        return _run(mod, ctx)
    finally:
        ctx.cleanup()


def _run(mod, ctx: Ctx) -> int:
    prop = ctx.prop
    broken = []  # things that no longer check: (kind, name, detail)
    props_files = list(getattr(mod, "PROPS_FILES", []))
    targets = list(getattr(mod, "LEAN_TARGETS", []))
    driver_name = getattr(mod, "DRIVER", None)

    # 1. regenerate translated model parts
    gen_problems = []
    if hasattr(mod, "generate"):
        try:
            gen_problems = list(mod.generate(ctx) or [])
        except Exception as e:  # translator could not handle the source
            gen_problems = [f"translator raised {type(e).__name__}: {e}"]
            log(traceback.format_exc())
    for g in gen_problems:
        broken.append(("translation", "translator", g))

    # 2. build proofs (+ driver)
    t = time.time()
    ok, out = lake_build(targets)
    build_s = time.time() - t
    theorems = []
    for pf in props_files:
        theorems += [n for n, _ in theorems_in(LEAN / pf)]
    failed = set()
    if not ok:
        failed, other = failed_theorems(out, props_files)
        for n in failed:
            broken.append(("proof", n, "does not check (lake build error)"))
        for o in other[:10]:
            broken.append(("build", "lake build", o))
        if not failed and not other:
            broken.append(("build", "lake build", out[-800:]))
        log(out[-3000:])
    drv = None
    if driver_name:
        okd, outd = lake_build([driver_name])
        if okd:
            drv = Driver(driver_name)
        else:
            broken.append(("build", driver_name, outd[-800:]))
            log(outd[-3000:])
    ctx.driver = drv

    # 3. audit
    axioms_seen = {}
    audit_ok = ok
    if ok and theorems:
        axioms_seen, aout = audit_axioms(targets_modules(targets), theorems, ctx.scratch)
        for tname in theorems:
            if tname not in axioms_seen:
                broken.append(("audit", tname, "theorem not found by #print axioms"))
                failed.add(tname)
            elif not axioms_seen[tname] <= STD_AXIOMS:
                broken.append(("audit", tname, f"non-standard axioms {sorted(axioms_seen[tname] - STD_AXIOMS)}"))
                failed.add(tname)
    # thorough tier: independent re-check of the compiled property modules
    leanchecker = None
    if ctx.thorough and ok and targets:
        mods = targets_modules(targets)
        try:
            pc = subprocess.run(["lake", "env", "leanchecker", *mods], cwd=LEAN, capture_output=True, text=True, timeout=3000)
            leanchecker = dict(modules=mods, rc=pc.returncode, tail=(pc.stdout + pc.stderr)[-300:])
            if pc.returncode != 0:
                broken.append(("audit", "leanchecker", (pc.stdout + pc.stderr)[-500:]))
        except FileNotFoundError:
            leanchecker = dict(modules=mods, rc=None, tail="leanchecker not found")
    forb = forbidden_tokens(targets_modules(targets) + (["Driver." + prop] if driver_name else []))
    for h in forb:
        broken.append(("audit", "forbidden-token", h))

    discharged = [tn for tn in theorems if tn not in failed] if ok or failed else []
    if not ok and not failed:
        discharged = []

    # 4/5. correspondence and spec-level differential
    corr = spec = None
    if hasattr(mod, "correspondence") and (drv is not None or not driver_name):
        try:
            corr = mod.correspondence(ctx)
        except Exception as e:
            log(traceback.format_exc())
            broken.append(("correspondence", "harness", f"raised {type(e).__name__}: {e}"))
    if hasattr(mod, "spec_check"):
        try:
            spec = mod.spec_check(ctx, ctx.budget(1, 10))
        except Exception as e:
            log(traceback.format_exc())
            broken.append(("spec_check", "harness", f"raised {type(e).__name__}: {e}"))

    failures = []
    for o in (corr, spec):
        if o:
            failures += o["failures"]
    corr_fail = [f for f in failures if f["kind"] == "corr"]
    spec_fail = [f for f in failures if f["kind"] == "spec"]
    for f in corr_fail[:5]:
        broken.append(("correspondence", f["what"], json.dumps(jsonable(f["input"]))[:300]))

    # 6. failing-input search when something is broken and no confirmed NEW spec failure yet
    #    (failures that a listed known finding explains do not count: they are there on the unchanged tree too)
    _known0 = load_known(prop)
    _matcher0 = getattr(mod, "match_finding", lambda f, k: f.get("sig") == k.get("sig"))

    def _is_known(f):
        for k in _known0:
            try:
                if _matcher0(f, k):
                    return True
            except Exception:
                pass
        return False

    unexplained = [f for f in spec_fail if not _is_known(f)]
    if broken and not unexplained and hasattr(mod, "spec_check"):
        log(f"[{prop}] something is broken ({len(broken)} items); running failing-input search")
        try:
            deep = mod.spec_check(ctx, ctx.budget(8, 40))
            spec_fail = list(spec_fail) + [f for f in deep["failures"] if f["kind"] == "spec"]
            spec = merge_outcomes(spec, deep)
        except Exception as e:
            log(traceback.format_exc())
            broken.append(("spec_check", "harness", f"search raised {type(e).__name__}: {e}"))

    # classify
    known = load_known(prop)
    # every listed finding carries a witness that is replayed on the real code each run, so the
    # KNOWN-FINDING line is deterministic and disappears when the defect is repaired
    if hasattr(mod, "check_witness"):
        for k in known:
            if "witness" in k:
                try:
                    wf = mod.check_witness(ctx, k["witness"])
                except Exception as e:
                    log(traceback.format_exc())
                    wf = None
                    broken.append(("witness", k["id"], f"witness replay raised {type(e).__name__}: {e}"))
                if wf:
                    spec_fail = list(spec_fail) + [wf]
    matcher = getattr(mod, "match_finding", lambda f, k: f.get("sig") == k.get("sig"))
    known_hits = {}
    new_fail = []
    for f in spec_fail:
        hit = None
        for k in known:
            try:
                if matcher(f, k):
                    hit = k
                    break
            except Exception:
                pass
        if hit:
            known_hits.setdefault(hit["id"], (hit, f))
        else:
            new_fail.append(f)

    # regression corpus: witnesses of REPAIRED defects are replayed too; a failure there is a new violation
    # (fixed entries suppress nothing)
    if hasattr(mod, "check_witness"):
        for k in load_known(prop, status="fixed"):
            if "witness" not in k:
                continue
            try:
                wf = mod.check_witness(ctx, k["witness"])
            except Exception as e:
                log(f"[{prop}] fixed-witness replay of {k['id']} raised {type(e).__name__}: {e}")
                wf = None
            if wf:
                wf = dict(wf)
                wf["sig"] = f"regression:{k['id']}"
                wf["what"] = f"repaired defect {k['id']} ({k.get('commit')}) is back: " + str(wf.get("what", ""))
                new_fail.insert(0, wf)

    for kid, (k, f) in sorted(known_hits.items()):
        print(f"KNOWN-FINDING: property={prop} {k['id']}: {k['what']}")

    violations = 0
    REPLAYS.mkdir(exist_ok=True)
    rc = 0
    if new_fail:
        f = new_fail[0]
        path = REPLAYS / f"{prop}_{ctx.tier}_{ctx.seed}.json"
        path.write_text(
            json.dumps(
                jsonable(
                    dict(
                        property=prop,
                        failing_input=f,
                        more=new_fail[1:10],
                        broken=broken,
                        seed=ctx.seed,
                        tier=ctx.tier,
                    )
                ),
                indent=1,
            )
        )
        print(f"VIOLATION property={prop} replay={path}")
        violations = len(new_fail)
        rc = 1
    elif broken:
        path = REPLAYS / f"{prop}_{ctx.tier}_{ctx.seed}.json"
        path.write_text(
            json.dumps(
                jsonable(
                    dict(
                        property=prop,
                        failing_input=None,
                        no_longer_checks=[dict(kind=k, name=n, detail=d) for k, n, d in broken],
                        seed=ctx.seed,
                        tier=ctx.tier,
                    )
                ),
                indent=1,
            )
        )
        for k, n, d in broken[:10]:
            log(f"[{prop}] BROKEN {k} {n}: {d[:300]}")
        print(f"VIOLATION property={prop} replay={path} no-failing-input-found")
        violations = 1
        rc = 1

    # 7. evidence
    total = merge_outcomes(corr, spec)
    nt = total["nontrivial"]
    cov = dict(
        obligations=len(theorems),
        discharged=len(discharged),
        checker_cmd=f"cd /verif/lean && lake build {' '.join(targets)} && lake env lean <audit file with #print axioms for each theorem>",
        trusted_base=[
            "Lean 4.33.0 kernel + elaborator",
            "axioms: propext, Classical.choice, Quot.sound (audited per theorem each run)",
            "Mathlib v4.33.0 lemmas where imported by proof files",
            "correspondence harness (harness/*.py) and its generators",
        ]
        + list(getattr(mod, "TRUSTED", [])),
        theorems=theorems,
        axioms={k: sorted(v) for k, v in axioms_seen.items()},
        evaluations=total["evaluations"],
        distinct_nontrivial=len(nt),
        rule=total["rule"],
        samples=jsonable(total["samples"][:8]) or ["(no correspondence cases run)"],
        traces_validated_against_impl=(corr or {}).get("evaluations", 0),
        model_vs_impl_mismatches=len(corr_fail),
        spec_vs_impl_failures=len(spec_fail),
        known_findings_hit=sorted(known_hits),
        distribution=jsonable(total["dist"]),
        build_seconds=round(build_s, 1),
        leanchecker=leanchecker,
        broken=[dict(kind=k, name=n, detail=d[:300]) for k, n, d in broken],
        notes=ctx.notes,
    )
    ev = dict(
        property_id=prop,
        tier=ctx.tier,
        seed=ctx.seed,
        level="proof",
        coverage=cov,
        assumptions=list(getattr(mod, "ASSUMPTIONS", [])),
        wall_s=round(time.time() - ctx.t0, 2),
        violations=violations,
    )
    EVIDENCE.mkdir(exist_ok=True)
    (EVIDENCE / f"{prop}.json").write_text(json.dumps(ev, indent=1))
    log(
        f"[{prop}] tier={ctx.tier} seed={ctx.seed} theorems={len(discharged)}/{len(theorems)} "
        f"evals={total['evaluations']} nontrivial={len(nt)} corr_mismatch={len(corr_fail)} "
        f"spec_fail={len(spec_fail)} known={len(known_hits)} wall={ev['wall_s']}s rc={rc}"
    )
    return rc


def targets_modules(targets):
    return [t for t in targets if "." in t or t[:1].isupper()]


def main(argv=None):
    ap = argparse.ArgumentParser()
    ap.add_argument("prop")
    ap.add_argument("--tier", default=os.environ.get("VERIF_TIER", "quick"), choices=["quick", "thorough"])
    ap.add_argument("--replay", default=None)
    ap.add_argument("--seed", type=int, default=None)
    a = ap.parse_args(argv)
    seed = a.seed if a.seed is not None else int(os.environ.get("VERIF_SEED", "0") or 0)
    try:
        rc = run_check(a.prop.upper(), a.tier, seed, a.replay)
    except subprocess.TimeoutExpired as e:
        log(f"timeout: {e}")
        rc = 2
    sys.exit(rc)


if __name__ == "__main__":
    main()
