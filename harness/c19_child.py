"""C19 fork server: runs cogent3 writers under an audit hook with kill / fault injection.

Started once by harness/c19.py (`python -m harness.c19_child`); imports cogent3 once, then for
every job line on stdin forks a child that installs `sys.addaudithook` (hooks cannot be removed,
hence one process per injected run), runs the writer and reports the canonical system-call
trace; the server then inspects the work directory and answers with one JSON line.

Canonical calls (the model's alphabet):
  mkdir / open_w / write / close / unlink / rename / rmtree / zip_data / zip_dir
The hook fires BEFORE the call, so "kill at k" = exactly the first k canonical calls happened.
"""
from __future__ import annotations

import errno
import gzip
import io
import json
import os
import shutil
import sys
import zipfile

OBJS = {}


def _make_objects():
    import cogent3
    from cogent3.phylo.tree_collection import ScoredTreeCollection
    from cogent3.util.dict_array import DictArrayTemplate

    for tag, seqs in (
        ("old", {"s1": "ACGTAC", "s2": "AC-TAC", "s3": "ACGTTC"}),
        ("new", {"s1": "GGGTAC", "s2": "GG-TAA", "s3": "GGCTTC", "s4": "GGCTTA"}),
    ):
        o = {}
        o["aln"] = cogent3.make_aligned_seqs(seqs, moltype="dna")
        o["arrayaln"] = cogent3.make_aligned_seqs(seqs, moltype="dna", array_align=True)
        degapped = {k: v.replace("-", "") for k, v in seqs.items()}
        o["seqcoll"] = cogent3.make_unaligned_seqs(degapped, moltype="dna")
        o["newcoll"] = cogent3.make_unaligned_seqs(degapped, moltype="dna", new_type=True)
        o["tree"] = cogent3.make_tree("(a:1,b:2,(c:1,d:3):1);" if tag == "old" else "((a:2,b:1):0.5,c:1,(d:3,e:4):1);")
        o["table"] = cogent3.make_table(
            header=["x", "y", "z"],
            data=[[1, "a", 2.5], [3, "b", 4.5]] if tag == "old" else [[7, "q", 0.5], [8, "r", 1.5], [9, "s", 2.5]],
        )
        o["dictarray"] = DictArrayTemplate(["a", "b"], ["x", "y"]).wrap([[1, 2], [3, 4]] if tag == "old" else [[5, 6], [7, 8]])
        o["treecoll"] = ScoredTreeCollection(
            [(1.5, cogent3.make_tree("(a,b,c);")), (0.5, cogent3.make_tree("(a,c,b);"))]
            if tag == "old"
            else [(2.5, cogent3.make_tree("(a,b,(c,d));")), (0.25, cogent3.make_tree("(a,c,(b,d));")), (0.1, cogent3.make_tree("(a,d,(b,c));"))]
        )
        OBJS[tag] = o


SUFFIX = {
    "aln": ".fasta", "arrayaln": ".fasta", "seqcoll": ".fasta", "newcoll": ".fasta", "tree": ".nwk", "table": ".tsv",
    "dictarray": ".tsv", "treecoll": ".trees", "atomic": ".txt", "atomic_tmpdir": ".txt", "atomic_bare": ".txt",
}

CALLER_TMP = "mytmp"  # a directory supplied by the caller (atomic_write(..., tmpdir=)) holding an unrelated file
CALLER_FILES = ["mytmp", "mytmp/precious.txt"]


def dest_name(writer, target):
    base = "dest" + SUFFIX[writer]
    if target == "json":
        base = "dest.json"
    if target == "phylip":
        base = "dest.phylip"
    if target == "gz":
        base += ".gz"
    if target == "zip":
        base += ".zip"
    if target == "zipmember":
        base = "arch.zip"
    return base


ATOMIC_CHUNKS = {"old": ["old line 1\n", "old line 2\n"], "new": ["first\n", "second chunk\n", "third\n"]}


def run_writer(writer, target, path, tag, natural_fail=False):
    """invoke the real writer"""
    if writer == "atomic_tmpdir":
        from cogent3.util.io import atomic_write

        with atomic_write(path, tmpdir=os.path.join(os.path.dirname(path), CALLER_TMP), mode="wt") as f:
            for ch in ATOMIC_CHUNKS[tag]:
                f.write(ch)
        return
    if writer == "atomic_bare":
        # the bare-object protocol (what open_zip(…, "w") hands to its caller): no with-block, no __enter__
        from cogent3.util.io import atomic_write

        aw = atomic_write(path, mode="wt")
        for ch in ATOMIC_CHUNKS[tag]:
            aw.write(ch)
        aw.close()
        return
    if writer == "atomic":
        from cogent3.util.io import atomic_write

        if target == "zipmember":
            aw = atomic_write("member_%s.txt" % tag, in_zip=path, mode="wt")
        else:
            aw = atomic_write(path, mode="wt")
        chunks = ATOMIC_CHUNKS[tag]
        if target == "zipmember" and tag == "new":
            # larger than any userspace buffer, so that the member data really reaches the archive before close()
            chunks = [chunks[0], "A" * 20000 + "\n", chunks[2]]
        with aw as f:
            for ch in chunks:
                f.write(ch)
        return
    obj = OBJS[tag][writer]
    if natural_fail:
        # a formatting failure of the writer's own making
        if writer in ("aln", "arrayaln", "seqcoll", "newcoll"):
            if writer == "newcoll":
                obj.write(path, file_format="nosuchformat")
            else:
                obj.write(path, format="nosuchformat")
        elif writer == "table":
            def bad_writer(rows, has_header=True):
                raise ValueError("formatting failed")

            obj.write(path, writer=bad_writer)
        elif writer == "tree":
            class T(type(obj)):
                def to_json(self):
                    raise ValueError("formatting failed")

            t = obj.deepcopy()
            t.__class__ = T
            t.write(path, format="json")
        elif writer == "treecoll":
            class Bad:
                def get_newick(self, **kw):
                    raise ValueError("formatting failed")

            type(obj)(list(obj) + [(0.0, Bad())]).write(path)
        elif writer == "dictarray":
            obj.write(path, format="nosuchformat")
        return
    if writer == "newcoll" and target == "phylip":
        obj.write(path)
        return
    obj.write(path)


# --------------------------------------------------------------------------
# observation of the work directory (server side, after the child is gone)
# --------------------------------------------------------------------------
def observe(workdir, dest):
    st = {}
    p = os.path.join(workdir, dest)
    if not os.path.lexists(p):
        st["dest"] = {"kind": "absent"}
    elif os.path.isdir(p):
        st["dest"] = {"kind": "dir"}
    else:
        raw = open(p, "rb").read()
        if dest.endswith(".zip"):
            try:
                with zipfile.ZipFile(io.BytesIO(raw)) as z:
                    bad = z.testzip()
                    ms = [[n, z.read(n).decode("latin-1")] for n in z.namelist()]
                st["dest"] = {"kind": "archive", "members": ms} if bad is None else {"kind": "corrupt", "size": len(raw)}
            except Exception as e:
                st["dest"] = {"kind": "corrupt", "size": len(raw), "err": type(e).__name__}
        elif dest.endswith(".gz"):
            try:
                st["dest"] = {"kind": "file", "text": gzip.decompress(raw).decode("latin-1")}
            except Exception as e:
                st["dest"] = {"kind": "corrupt", "size": len(raw), "err": type(e).__name__}
        else:
            st["dest"] = {"kind": "file", "text": raw.decode("latin-1")}
    left = []
    for root, dirs, files in os.walk(workdir):
        for n in dirs + files:
            q = os.path.relpath(os.path.join(root, n), workdir)
            if q != dest:
                left.append(q)
    st["leftover"] = sorted(left)
    return st


# --------------------------------------------------------------------------
# the instrumented run (inside the forked child)
# --------------------------------------------------------------------------
class Tracer:
    def __init__(self, workdir, dest, mode, k, exc_kind):
        self.workdir = os.path.realpath(workdir)
        self.dest = os.path.join(self.workdir, dest)
        self.mode, self.k, self.exc_kind = mode, k, exc_kind
        self.trace = []
        self.tmpdirs = []
        self.swallow_until_rmdir = None
        self.in_zip = False
        self.injected = False
        self.errno_name = "EIO"
        self.persist = False
        self.kill_after = None
        self.after = 0
        self.fault_call = None
        self.inner_fault = False
        self.active = False
        self.chunks = []

    def role(self, p):
        p = os.path.realpath(str(p)) if not os.path.isabs(str(p)) else os.path.normpath(str(p))
        if p == self.dest:
            return "dest"
        if p == self.workdir:
            return "dir"
        if not p.startswith(self.workdir + os.sep):
            return None
        for i, t in enumerate(self.tmpdirs):
            if p == t:
                return "tmpdir" if i == 0 else f"tmpdir{i+1}"
        for i, t in reversed(list(enumerate(self.tmpdirs))):
            if p.startswith(t + os.sep):
                return "tmpfile" if i == 0 else f"tmpfile{i+1}"
        return "other:" + os.path.relpath(p, self.workdir)

    def boundary(self, call):
        """a canonical call is about to happen"""
        idx = len(self.trace)
        self.trace.append(call)
        if self.k is None:
            return
        if self.injected:
            # after the injected fault: optionally the process dies a few calls later, and / or the failing condition persists
            if self.kill_after is not None:
                self.after += 1
                if self.after >= self.kill_after:
                    self.trace.pop()
                    os._exit(77)
            if self.persist and self.mode == "fault" and call[:2] == self.fault_call[:2] and call[0] == self.fault_call[0]:
                raise OSError(getattr(errno, self.errno_name, errno.EIO), "injected fault (persistent)")
            return
        if idx != self.k:
            return
        self.injected = True
        self.fault_call = call
        if self.mode == "kill":
            self.trace.pop()
            os._exit(77)
        if self.mode == "fault":
            if call[0] == "rmtree":
                # a failure INSIDE shutil.rmtree (the unlink / rmdir of an entry), where rmtree's own error handling
                # (ignore_errors / onexc) sees it — not an exception out of the audit event at the top of the function
                self.inner_fault = True
                return
            # OSError(errno, …) builds the matching subclass (PermissionError, FileExistsError, FileNotFoundError, IsADirectoryError, …)
            raise OSError(getattr(errno, self.errno_name, errno.EIO), "injected fault")
        if self.mode == "fmtfail":
            raise ValueError("injected formatting failure")

    # audit hook
    def hook(self, name, args):
        if not self.active:
            return
        if name == "os.mkdir":
            r = self.role(args[0])
            if r is None:
                return
            p = os.path.normpath(str(args[0]))
            self.boundary(["mkdir", "tmpdir" if not self.tmpdirs else f"tmpdir{len(self.tmpdirs)+1}"])
            self.tmpdirs.append(p)
            return
        if self.swallow_until_rmdir is not None:
            top = name == "os.rmdir" and os.path.normpath(str(args[0])) == self.swallow_until_rmdir
            if top:
                self.swallow_until_rmdir = None
            if self.inner_fault and name in ("os.remove", "os.rmdir"):
                if not self.persist or top:
                    self.inner_fault = False
                raise OSError(getattr(errno, self.errno_name, errno.EIO), "injected fault (inside rmtree)")
            return
        if name == "open":
            path, mode = args[0], args[1]
            if not isinstance(path, (str, bytes, os.PathLike)):
                return
            r = self.role(path)
            if r is None or mode is None:
                return
            if self.in_zip:
                return
            if "+" in mode:  # ZipFile constructor opening the archive for append
                self.in_zip = True
                self.boundary(["zip_data", r])
                return
            if "w" in mode or "a" in mode or "x" in mode:
                self.boundary(["open_w", r])
            return
        if name == "os.remove":
            if len(args) > 1 and args[1] not in (-1, None):
                return
            r = self.role(args[0])
            if r is not None:
                self.boundary(["unlink", r])
            return
        if name == "os.rename":
            a, b = self.role(args[0]), self.role(args[1])
            if a is not None or b is not None:
                self.boundary(["rename", a, b])
            return
        if name == "shutil.rmtree":
            r = self.role(args[0])
            if r is not None:
                self.boundary(["rmtree", r])
                self.swallow_until_rmdir = os.path.normpath(str(args[0]))
            return

    def pseudo(self, call):
        if self.active:
            self.boundary(call)


class FileProxy:
    """makes data writes and the close of the temp file visible as call boundaries"""

    def __init__(self, f, tracer, role):
        object.__setattr__(self, "_f", f)
        object.__setattr__(self, "_t", tracer)
        object.__setattr__(self, "_r", role)

    def write(self, data):
        self._t.pseudo(["write", self._r, len(data)])
        self._t.chunks.append(data if isinstance(data, str) else data.decode("latin-1"))
        return self._f.write(data)

    def writelines(self, lines):
        data = "".join(lines)
        self._t.pseudo(["write", self._r, len(data)])
        self._t.chunks.append(data)
        return self._f.write(data)

    def close(self):
        if not getattr(self._f, "closed", False) and not getattr(self._f, "succeeded", None):
            self._t.pseudo(["close", self._r])
        return self._f.close()

    def __enter__(self):
        self._f.__enter__()
        return self

    def __exit__(self, *a):
        return self._f.__exit__(*a)

    def __getattr__(self, name):
        return getattr(self._f, name)

    def __setattr__(self, name, value):
        setattr(self._f, name, value)

    def __iter__(self):
        return iter(self._f)


def _record_sites(cio):
    """which call sites of atomic_write inside cogent3 does this run go through, and how is the object used?  -> list filled
    while the run goes on: file (relative to src/cogent3), function, tmpdir= / in_zip= passed, entered through a with statement"""
    sites = []
    src_root = os.path.dirname(os.path.dirname(os.path.abspath(cio.__file__)))  # …/src/cogent3
    orig_init, orig_enter = cio.atomic_write.__init__, cio.atomic_write.__enter__

    def init_rec(self, path, tmpdir=None, in_zip=None, *a, **kw):
        fr = sys._getframe(1)
        fn = os.path.abspath(fr.f_code.co_filename)
        if fn.startswith(src_root + os.sep):
            self._c19_site = {"file": os.path.relpath(fn, src_root), "func": getattr(fr.f_code, "co_qualname", fr.f_code.co_name),
                              "tmpdir_arg": tmpdir is not None, "in_zip_arg": bool(in_zip), "entered": False}
            sites.append(self._c19_site)
        return orig_init(self, path, tmpdir, in_zip, *a, **kw)

    def enter_rec(self):
        st = self.__dict__.get("_c19_site")
        if st is not None:
            st["entered"] = True
        return orig_enter(self)

    cio.atomic_write.__init__ = init_rec
    cio.atomic_write.__enter__ = enter_rec
    return sites


def instrumented(job, out_fd):
    from cogent3.util import io as cio

    tr = Tracer(job["workdir"], job["dest"], job["mode"], job.get("k"), None)
    if job["writer"] == "atomic_tmpdir":
        tr.tmpdirs.append(os.path.join(tr.workdir, CALLER_TMP))
    tr.errno_name = job.get("errno", "EIO")
    tr.persist = bool(job.get("persist"))
    tr.kill_after = job.get("kill_after_fault")
    sys.addaudithook(tr.hook)
    orig_open_ = cio.open_

    def open_wrapped(filename, mode="rt", **kw):
        f = orig_open_(filename, mode, **kw)
        r = tr.role(filename)
        if r is not None and mode and ("w" in mode or "a" in mode) and not isinstance(f, cio.atomic_write):
            return FileProxy(f, tr, r)
        return f

    cio.open_ = open_wrapped
    orig_zclose = zipfile.ZipFile.close

    def zclose(self):
        if self.fp is not None and self.mode in ("w", "a", "x") and tr.in_zip:
            try:
                tr.pseudo(["zip_dir", tr.role(self.filename) if self.filename else None])
            except OSError:
                # the injected failure of close(): the central directory is NOT written (also not later by __del__)
                fp, self.fp = self.fp, None
                tr.in_zip = False
                try:
                    fp.close()
                except Exception:
                    pass
                raise
            tr.in_zip = False
        return orig_zclose(self)

    zipfile.ZipFile.close = zclose
    res = {"exc": None}
    sites = _record_sites(cio) if job["mode"] == "trace" else []
    tr.active = True
    try:
        run_writer(job["writer"], job["target"], os.path.join(job["workdir"], job["dest"]), "new", job["mode"] == "natural")
    except BaseException as e:  # noqa
        res["exc"] = type(e).__name__
        res["exc_msg"] = str(e)[:200]
    tr.active = False
    res["trace"] = tr.trace
    res["chunks"] = tr.chunks
    res["injected"] = tr.injected
    res["sites"] = sites
    os.write(out_fd, json.dumps(res).encode())
    os._exit(0)


# --------------------------------------------------------------------------
# apply_to interrupt / resume
# --------------------------------------------------------------------------
def resume_run(job, out_fd):
    """one apply_to run over job['inputs'] into job['out']; optionally killed after j results or at
    the k-th file-creating open under the output directory"""
    from cogent3.app.data_store import DataStoreDirectory
    from cogent3.app.io import write_seqs

    from harness import c14_apps

    out = DataStoreDirectory(job["out"], mode="w", suffix="fasta")
    loader = c14_apps.c19_load(log=job["log"])
    step = c14_apps.c19_check(min_len=job.get("min_len", 4))
    writer = write_seqs(data_store=out)
    app = loader + step + writer
    state = {"n": 0, "opens": 0}
    kill_after = job.get("kill_after")
    kill_open = job.get("kill_open")
    # (auditor) kill_created=k: the process dies right AFTER the k-th record/md5/not-completed file of the store was created
    # (open(2) with O_CREAT|O_TRUNC returned) and before any data reached it; log files are not counted
    kill_created = job.get("kill_created")
    state["created"] = 0
    if kill_after is not None:
        orig_main = writer.main

        def main(*a, **kw):
            if state["n"] == kill_after:
                os._exit(77)
            r = orig_main(*a, **kw)
            state["n"] += 1
            if state["n"] == kill_after:
                # dies right after the j-th result was written (for j = n: all members written, log not yet)
                os._exit(77)
            return r

        writer.main = main
    outdir = os.path.realpath(job["out"])

    def hook(name, args):
        if name == "open" and isinstance(args[0], (str, os.PathLike)) and args[1] and ("w" in args[1] or "a" in args[1]):
            p = os.path.normpath(str(args[0]))
            if p.startswith(outdir + os.sep):
                if kill_open is not None and state["opens"] == kill_open:
                    os._exit(77)
                state["opens"] += 1
                if not p.startswith(os.path.join(outdir, "logs") + os.sep):
                    if kill_created is not None and state["created"] == kill_created:
                        os.close(os.open(p, os.O_WRONLY | os.O_CREAT | os.O_TRUNC, 0o644))
                        os._exit(77)
                    state["created"] += 1

    sys.addaudithook(hook)
    res = {"exc": None}
    from cogent3.util import io as cio

    sites = _record_sites(cio)
    try:
        if job.get("with_log", True):
            app.apply_to(job["inputs"], cleanup=True, show_progress=False)  # default logger: the log is stored in the data store
        else:
            app.apply_to(job["inputs"], logger=False, cleanup=False, show_progress=False)
    except BaseException as e:  # noqa
        res["exc"] = type(e).__name__ + ": " + str(e)[:200]
    res["opens"] = state["opens"]
    res["created"] = state["created"]
    res["sites"] = sites
    os.write(out_fd, json.dumps(res).encode())
    os._exit(0)


def observe_store(path):
    st = {"completed": {}, "not_completed": {}, "md5": {}, "other": [], "logs": [], "tmp_left": []}
    for root, dirs, files in os.walk(path):
        for n in files:
            p = os.path.join(root, n)
            rel = os.path.relpath(p, path)
            if any(part.startswith("tmp") for part in rel.split(os.sep)[:-1]):
                st["tmp_left"].append(rel)  # temp dir of an atomic_write that was killed: allowed after a kill
                continue
            txt = open(p, "rb").read().decode("latin-1")
            if root == path:
                st["completed"][n] = txt
            elif rel.startswith("not_completed" + os.sep):
                try:
                    d = json.loads(txt)["not_completed_construction"]
                    a, kw = d["args"], d["kwargs"]
                    st["not_completed"][n] = [a[0], a[1], a[2].strip().split("\n")[-1][:120], kw.get("source")]
                except Exception as e:
                    st["not_completed"][n] = ["unparsable", type(e).__name__, txt[:80]]
            elif rel.startswith("md5" + os.sep):
                st["md5"][n] = txt
            elif rel.startswith("logs" + os.sep):
                st["logs"].append(len(txt.strip().split("\n")) > 3)
            else:
                st["other"].append(rel)
    # the store as cogent3 itself reports it
    try:
        from cogent3.app.data_store import DataStoreDirectory

        ds = DataStoreDirectory(path, mode="r", suffix="fasta")
        st["describe"] = [[str(a), int(b)] for a, b in ds.describe.array.tolist()]
        st["validate"] = [[str(a), str(b)] for a, b in ds.validate().array.tolist()]
        st["summary_logs_rows"] = ds.summary_logs.shape[0] if len(ds.logs) else 0
    except Exception as e:  # noqa
        st["describe"] = st["validate"] = ["error", type(e).__name__, str(e)[:120]]
        st["summary_logs_rows"] = -1
    return st


# --------------------------------------------------------------------------
def serve():
    _make_objects()
    from harness import c14_apps  # noqa: F401  (imported before forking)

    out = sys.stdout
    out.write(json.dumps({"ready": True}) + "\n")
    out.flush()
    for line in sys.stdin:
        line = line.strip()
        if not line:
            continue
        job = json.loads(line)
        kind = job.get("kind", "write")
        if kind == "write":
            wd = job["workdir"]
            shutil.rmtree(wd, ignore_errors=True)
            os.makedirs(wd)
            job["dest"] = dest_name(job["writer"], job["target"])
            if job["writer"] == "atomic_tmpdir":
                os.makedirs(os.path.join(wd, CALLER_TMP))
                with open(os.path.join(wd, CALLER_TMP, "precious.txt"), "w") as fh:
                    fh.write("the caller's own file\n")
            if job.get("present"):
                dp = os.path.join(wd, job["dest"])
                if job["target"] == "zip":
                    # the writers cannot be trusted to produce *.zip (see findings): plain archive
                    with zipfile.ZipFile(dp, "w") as z:
                        z.writestr("old_member.txt", "previous content\n")
                else:
                    run_writer(job["writer"], job["target"], dp, "old")
                if job["writer"] == "atomic_tmpdir" and not os.path.exists(os.path.join(wd, CALLER_TMP, "precious.txt")):
                    # writing the old content already destroyed the caller's directory: put it back for the observed run
                    os.makedirs(os.path.join(wd, CALLER_TMP), exist_ok=True)
                    with open(os.path.join(wd, CALLER_TMP, "precious.txt"), "w") as fh:
                        fh.write("the caller's own file\n")
            before = observe(wd, job["dest"])
        r, w = os.pipe()
        pid = os.fork()
        if pid == 0:
            os.close(r)
            try:
                if kind == "write":
                    instrumented(job, w)
                else:
                    resume_run(job, w)
            finally:
                os._exit(3)
        os.close(w)
        data = b""
        while True:
            b = os.read(r, 65536)
            if not b:
                break
            data += b
        os.close(r)
        _, status = os.waitpid(pid, 0)
        code = os.waitstatus_to_exitcode(status)
        res = json.loads(data) if data else {}
        res["exit"] = code
        res["id"] = job.get("id")
        if kind == "write":
            res["before"] = before
            res["after"] = observe(wd, job["dest"])
            res["dest"] = job["dest"]
        else:
            res["store"] = observe_store(job["out"])
            try:
                res["log"] = open(job["log"]).read().split()
            except OSError:
                res["log"] = []
        out.write(json.dumps(res) + "\n")
        out.flush()


if __name__ == "__main__":
    serve()
