"""C05 helpers: model zoo, structural extraction from real cogent3 models, parameter sampling.

Nothing here imports cogent3 at module import time.
"""
from __future__ import annotations

import math
import warnings
from fractions import Fraction

from .common import rat, unrat

TREE = "(a:0.1,b:0.2,(c:0.3,d:0.4)e:0.05)"
EDGES = ["a", "b", "c", "d", "e"]


def named_models():
    from cogent3.evolve.models import available_models

    t = available_models()
    return [(str(a), str(b)) for a, b in zip(t.columns["Model Type"], t.columns["Abbreviation"])]


_MODEL_CACHE = {}


def get_named(name):
    """model objects are immutable for our purposes; building a codon model costs ~1 s"""
    from cogent3.evolve.models import get_model

    if name not in _MODEL_CACHE:
        with warnings.catch_warnings():
            warnings.simplefilter("ignore")
            _MODEL_CACHE[name] = get_model(name)
    return _MODEL_CACHE[name]


# --------------------------------------------------------------------------
# user-built predicate models
# --------------------------------------------------------------------------
USER_SPECS = [
    # (label, family, kwargs-description)
    ("user:TRN-kappa-tuple", dict(cls="TimeReversibleNucleotide", preds=["kappa"], mprob="tuple")),
    ("user:TRN-AG-CT", dict(cls="TimeReversibleNucleotide", preds=["A/G", "C/T", "A/C"], mprob="tuple")),
    ("user:TRN-gaps", dict(cls="TimeReversibleNucleotide", preds=["kappa", "indel"], mprob="tuple", model_gaps=True)),
    ("user:TRDi-tuple", dict(cls="TimeReversibleDinucleotide", preds=["kappa"], mprob="tuple")),
    ("user:TRDi-monomer", dict(cls="TimeReversibleDinucleotide", preds=["kappa", "CG"], mprob="monomer")),
    ("user:TRDi-monomers", dict(cls="TimeReversibleDinucleotide", preds=["kappa"], mprob="monomers")),
    ("user:TRDi-conditional", dict(cls="TimeReversibleDinucleotide", preds=["kappa", "CG"], mprob="conditional")),
    ("user:TRDi-gaps", dict(cls="TimeReversibleDinucleotide", preds=["kappa", "indel"], mprob="tuple", model_gaps=True)),
    ("user:NRN-fwd", dict(cls="NonReversibleNucleotide", preds=["A>G", "C>T", "T>A"], mprob="tuple")),
    ("user:NRDi-fwd", dict(cls="NonReversibleDinucleotide", preds=["A>G", "CG>TG"], mprob="tuple")),
    ("user:General", dict(cls="General")),
    ("user:GeneralStationary", dict(cls="GeneralStationary")),
    ("user:Stationary-sym", dict(cls="Stationary", preds=["kappa"], mprob="tuple")),
    ("user:HKY85-solved", dict(cls="solved", name="HKY85")),
    ("user:TN93-solved", dict(cls="solved", name="TN93")),
    ("user:F81-solved", dict(cls="solved", name="F81")),
    ("user:Stationary-asym", dict(cls="Stationary", preds=["A>G"], mprob="tuple")),
    # every motif-prob option on an INCOMPLETE word alphabet (sense codons) and on complete 2-/3-mer alphabets
    ("user:Codon-tuple", dict(cls="TimeReversibleCodon", preds=["kappa", "omega"], mprob="tuple")),
    ("user:Codon-conditional", dict(cls="TimeReversibleCodon", preds=["kappa", "omega"], mprob="conditional")),
    ("user:Codon-monomer", dict(cls="TimeReversibleCodon", preds=["kappa", "omega"], mprob="monomer")),
    ("user:Codon-monomers", dict(cls="TimeReversibleCodon", preds=["kappa", "omega"], mprob="monomers")),
    ("user:Codon-default", dict(cls="TimeReversibleCodon", preds=["kappa", "omega"], mprob=None)),
    ("user:NRCodon-monomers", dict(cls="NonReversibleCodon", preds=["A>G", "omega"], mprob="monomers")),
    ("user:TRDi-default", dict(cls="TimeReversibleDinucleotide", preds=["kappa"], mprob=None)),
    ("user:TRTri-monomers", dict(cls="TimeReversibleTrinucleotide", preds=["kappa"], mprob="monomers")),
    ("user:TRTri-conditional", dict(cls="TimeReversibleTrinucleotide", preds=["kappa"], mprob="conditional")),
    # multi-predicate models with ONE directed predicate in every position: a time-reversible class must either reject
    # them (ValueError) or be balanced
    ("user:TRN-asym-first", dict(cls="TimeReversibleNucleotide", preds=["A>G", "kappa"], mprob="tuple")),
    ("user:TRN-asym-middle", dict(cls="TimeReversibleNucleotide", preds=["A/C", "C>T", "A/G"], mprob="tuple")),
    ("user:TRN-asym-last", dict(cls="TimeReversibleNucleotide", preds=["kappa", "T>A"], mprob="tuple")),
    ("user:TRDi-asym-first", dict(cls="TimeReversibleDinucleotide", preds=["A>G", "kappa"], mprob="conditional")),
    ("user:TRDi-asym-middle", dict(cls="TimeReversibleDinucleotide", preds=["kappa", "CG>TG", "A/C"], mprob="tuple")),
    ("user:TRCodon-asym-first", dict(cls="TimeReversibleCodon", preds=["A>G", "kappa", "omega"], mprob="tuple")),
    ("user:TRCodon-asym-middle", dict(cls="TimeReversibleCodon", preds=["kappa", "C>T", "omega"], mprob="tuple")),
    ("user:TRProtein-asym-first", dict(cls="TimeReversibleProtein", preds=["A>C", "D/E"], mprob="tuple")),
    ("user:TRProtein-asym-middle", dict(cls="TimeReversibleProtein", preds=["D/E", "K>R", "I/L"], mprob="tuple")),
]
USER = dict(USER_SPECS)


def _pred(s):
    from cogent3.evolve.predicate import MotifChange
    from cogent3.evolve.substitution_model import kappa_r, kappa_y

    if s == "kappa":
        return (kappa_y | kappa_r).aliased("kappa")
    if s == "indel":
        return "indel"
    if s == "omega":
        from cogent3.evolve.predicate import omega

        return omega
    if s == "CG":
        return MotifChange("CG").aliased("CG")
    if ">" in s:
        a, b = s.split(">")
        return MotifChange(a, b, forward_only=True)
    a, b = s.split("/")
    return MotifChange(a, b)


_REJECTED = {}


def get_user(label):
    if label in _MODEL_CACHE:
        return _MODEL_CACHE[label]
    if label in _REJECTED:  # the constructor refused this model before: do not pay for the construction again
        raise _REJECTED[label]
    try:
        return _get_user(label)
    except (ValueError, AssertionError) as e:
        _REJECTED[label] = e
        raise


def _get_user(label):
    from cogent3.core.moltype import DNA
    from cogent3.evolve import ns_substitution_model as ns
    from cogent3.evolve import substitution_model as sub

    spec = USER[label]
    cls = spec["cls"]
    with warnings.catch_warnings():
        warnings.simplefilter("ignore")
        if cls == "General":
            sm = ns.General(DNA.alphabet, optimise_motif_probs=True, recode_gaps=True, name="General")
        elif cls == "GeneralStationary":
            sm = ns.GeneralStationary(DNA.alphabet, optimise_motif_probs=True, recode_gaps=True, name="GS")
        elif cls == "solved":
            from cogent3.evolve.models import get_model

            sm = get_model(spec["name"], rate_matrix_required=False)
        else:
            preds = [_pred(p) for p in spec.get("preds", [])]
            kw = dict(predicates=preds, mprob_model=spec.get("mprob"), recode_gaps=True, name=label)
            if spec.get("model_gaps"):
                kw["model_gaps"] = True
                kw["recode_gaps"] = False
            if cls == "Stationary":
                sm = sub.Stationary(DNA.alphabet, **kw)
            else:
                klass = getattr(sub, cls, None) or getattr(ns, cls)
                sm = klass(**kw)
    _MODEL_CACHE[label] = sm
    return sm


def get_model_by_label(label):
    return get_user(label) if label.startswith("user:") else get_named(label)


# --------------------------------------------------------------------------
# structure of a model object -> driver request skeleton
# --------------------------------------------------------------------------
def model_struct(sm):
    """the *data* (not code) that configure calcQ for this model object"""
    import numpy
    from cogent3.evolve import ns_substitution_model as ns
    from cogent3.evolve import substitution_model as sub

    alpha = sm.get_alphabet()
    words = [str(w) for w in alpha]
    monomers = [str(c) for c in sm.moltype.alphabet]
    gap = len(monomers)
    code = {c: i for i, c in enumerate(monomers)}
    code["-"] = gap
    L = len(words[0])
    st = dict(
        n=len(words),
        L=L,
        words=[[code[c] for c in w] for w in words],
        gap=gap,
        codon=isinstance(sm, sub._Codon),
        inst=[[int(bool(x)) for x in row] for row in numpy.asarray(sm._instantaneous_mask)],
        stationary=isinstance(sm, sub.StationaryQ),
        mprob={"tuple": "tuple", "monomer": "monomer", "monomers": "monomers", "conditional": "conditional"}[
            sm._mprob_model
        ],
        nmono=len(monomers),
    )
    if isinstance(sm, sub.Empirical):
        st["kind"] = "empirical"
        st["rate_matrix"] = [[rat(float(x)) for x in row] for row in sm._instantaneous_mask_f]
    elif isinstance(sm, ns.General):
        st["kind"] = "general"
        st["pick"] = [[int(x) for x in row] for row in sm.param_pick]
    elif isinstance(sm, ns.GeneralStationary):
        st["kind"] = "genstat"
        st["pick"] = [[int(x) for x in row] for row in sm.param_pick]
        st["last_in_column"] = [[int(i), int(j)] for i, j in sm.last_in_column]
    else:
        st["kind"] = "parametric"
        st["preds"] = [[[int(i), int(j)] for i, j in zip(*idx)] for idx in sm.predicate_indices]
    st["param_names"] = list(getattr(sm, "parameter_order", []))
    return st


def is_discrete(sm):
    from cogent3.evolve.ns_substitution_model import DiscreteSubstitutionModel

    return isinstance(sm, DiscreteSubstitutionModel)


# --------------------------------------------------------------------------
# sampling
# --------------------------------------------------------------------------
def rand_param(rng):
    """a rate parameter inside RatioParamDefn's bounds [1e-6, 1e6]"""
    r = rng.random()
    if r < 0.6:
        return math.exp(rng.uniform(math.log(0.05), math.log(20)))
    if r < 0.8:
        return rng.choice([1.0, 0.5, 2.0, 4.0, 10.0, 0.1])
    if r < 0.9:
        return math.exp(rng.uniform(math.log(1e-6), math.log(1e6)))
    return rng.choice([1e-6, 1e6, 1e-3, 1e3])


def rand_probs(rng, k, skew=None):
    """k positive floats summing to 1 (to rounding)"""
    skew = skew if skew is not None else rng.choice([0.3, 1.0, 1.0, 3.0, 8.0])
    xs = [rng.random() ** skew + 1e-4 for _ in range(k)]
    if rng.random() < 0.15:
        xs[rng.randrange(k)] *= 1e-3
    s = math.fsum(xs)
    return [x / s for x in xs]


def rand_length(rng):
    r = rng.random()
    if r < 0.55:
        return rng.uniform(0.001, 1.5)
    if r < 0.75:
        return rng.choice([0.01, 0.1, 0.25, 0.5, 1.0, 2.0])
    if r < 0.9:
        return rng.uniform(1.5, 10.0)
    return rng.choice([1e-6, 1e-4, 10.0])


def make_lf(sm, rng, expm=None, lengths=None, params=None, mprobs=None, tree=None):
    """likelihood function on the fixed small tree with random in-bounds values;
    returns (lf, info) where info records what was *requested*"""
    from cogent3 import make_tree

    tree = make_tree(tree or TREE)
    with warnings.catch_warnings():
        warnings.simplefilter("ignore")
        try:
            kw = {}
            if expm is not None:
                kw["expm"] = expm
            lf = sm.make_likelihood_function(tree, **kw)
            names = list(getattr(sm, "parameter_order", []))
            if params is None:
                params = {p: rand_param(rng) for p in names}
            for p, v in params.items():
                lf.set_param_rule(p, init=v)
            if lengths is None:
                lengths = {e: rand_length(rng) for e in EDGES}
            if not is_discrete(sm):
                for e, t in lengths.items():
                    lf.set_param_rule("length", edge=e, init=t)
            fixed_mprobs = sm.motif_probs is not None and not sm._optimise_motif_probs
            if mprobs is None and not fixed_mprobs:
                if sm._mprob_model == "monomers":
                    k = len(sm.mprob_model.get_input_alphabet())
                    mprobs = [rand_probs(rng, k) for _ in range(sm.word_length)]
                else:
                    mprobs = rand_probs(rng, len(sm.mprob_model.get_input_alphabet()))
            if mprobs is not None and not fixed_mprobs:
                import numpy

                if sm._mprob_model == "monomers":
                    lf.set_motif_probs([numpy.array(m) for m in mprobs])
                else:
                    lf.set_motif_probs(numpy.array(mprobs))
        except Exception as e:  # let the caller report WHICH in-bounds values the implementation raised on
            e.c05_info = dict(params=params, lengths=lengths, mprobs=mprobs)
            raise
    return lf, dict(params=params, lengths=lengths, mprobs=mprobs)


def read_mprobs(lf, sm):
    """the motif-prob vectors the calculator actually uses (float64), as list of lists"""
    if sm._mprob_model == "monomers":
        return [[float(x) for x in lf.get_param_value("psmprobs", position=str(i))] for i in range(sm.word_length)]
    return [[float(x) for x in lf.get_param_value("mprobs")]]


def read_params(lf, sm, **scope):
    return [float(lf.get_param_value(p, **scope)) for p in getattr(sm, "parameter_order", [])]


def q_request(st, params, mprobs):
    req = {k: v for k, v in st.items() if k not in ("param_names", "nmono")}
    req["params"] = [rat(p) for p in params]
    req["mprobs"] = [[rat(x) for x in v] for v in mprobs]
    return req


def fmat(m):
    return [[unrat(x) for x in row] for row in m]


def rmat(a):
    return [[rat(float(x)) for x in row] for row in a]


def maxabs_diff(exact, arr):
    """max |exact_ij - arr_ij| with exact a matrix of Fractions, arr floats"""
    worst = 0.0
    for r1, r2 in zip(exact, arr):
        for x, y in zip(r1, r2):
            d = abs(float(x - Fraction(float(y))))
            if d > worst or d != d:
                worst = d
    return worst
