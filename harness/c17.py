"""C17 — Annotation databases return exactly the matching records."""
from __future__ import annotations

import itertools
import json
import sqlite3
from pathlib import Path

from .common import LEAN, SRC, VERIF, add_failure, bump, new_outcome

_add_failure = add_failure

PROP = "C17"
PROPS_FILES = ["CogentModel/Props/C17.lean", "CogentModel/Props/C17X.lean", "CogentModel/Props/C17H.lean"]
LEAN_TARGETS = ["CogentModel.Props.C17", "CogentModel.Props.C17X", "CogentModel.Props.C17H"]
DRIVER = "drv_c17"
TRUSTED = [
    "translator/sql2lean.py (SQL f-strings of _matching_conditions -> Gen/C17Sql.lean); self-tested each run against "
    "sqlite3 evaluating the real SQL text over an exhaustive box",
    "hand-written model lean/CogentModel/Model/AnnotDb.lean (tables as lists, column atoms =/LIKE/IN, add_feature "
    "normalisation, update/union/subset, GFF row merging and block loading, GenBank location flattening), tied by "
    "correspondence on BasicAnnotationDb / GffAnnotationDb / GenbankAnnotationDb",
    "sqlite3 itself (storage, =, LIKE, IN, AND/OR evaluation) is modelled, not verified",
    "translator/c17_query2lean.py (single decision expressions of get_features_matching / get_records_matching / subset / "
    "_get_records_matching / num_matches / GenbankAnnotationDb.get_feature_children / get_feature_parent, the per-table copy of the "
    "arguments in the table loops of the three query methods, the column / pattern of the mixin's get_feature_children "
    "-> Gen/C17Query.lean); every generated definition is proved equal to its plain reading in Props/C17X.lean and used by "
    "Model/AnnotDbX.lean",
    "Model/AnnotDbHist.lean (register machine stepOp / runHistory): executed call by call by the ops correspondence",
    "hand-written extension Model/AnnotDbX.lean (rows without location, on_alignment, per-table arguments, GenBank add_records, "
    "children / parent), tied by the xq / gbadd / family correspondence",
]
ASSUMPTIONS = [
    "records have non-empty extent (start < stop) and query windows are proper (start < stop); degenerate rows are "
    "characterised separately (partial_zero_length)",
    "columns seqid/biotype/name/strand are matched exactly (case-sensitive) unless the value contains the documented "
    "% wildcard; `attributes` is the documented substring search, i.e. sqlite LIKE %text% (ASCII case-insensitive, "
    "_ = any character) — the oracle implements LIKE from its documentation; strand may be given as '+', '-', 1, -1 "
    "(stored and compared as text)",
    "names the loader makes up for GFF rows without an ID (unknown-<n>) are not compared by the spec-level oracle "
    "(the model-vs-real comparison does compare them)",
    "gff_load_block_independent assumes no feature lists the same span twice (duplicate rows of one ID are collapsed "
    "only across blocks: gff_blocks_duplicate_row_counter, replayed against the real loader by the correspondence)",
    "copy/deepcopy/pickle/write+reload/to_json round trips: record-list models (Model/AnnotDbRoundTrip.lean, jsonRoundTripX) tied by the "
    "roundtrip / xjson correspondence, and exercised against the multiset oracle",
    "GFF IDs are unique per feature (rows sharing an ID are one multi-span feature), as GFF3 requires; in multi-file "
    "(glob) loads the generated IDs are unique across the files as well (the same ID in two files is not probed)",
    "num_matches is compared with the scan for every argument subset incl. attributes (substring search, as in the "
    "two query methods); the model's numMatches mirrors the code (attributes wrapped like the query methods)",
    "on_alignment=True selects the alignment features only, on_alignment=False everything that is not one (loaded rows "
    "included), not passing it everything; user rows always store 0 / 1 (add_feature)",
    "a GenBank feature whose location has no usable coordinates (`a^b`, remote accession, `(a.b)..c`) denotes a record "
    "without spans and without strand; it satisfies no coordinate window and is returned by window-less queries",
    "GenBank get_feature_children(name, start, stop) = records called `name` (biotype / exclude_biotype respected) lying "
    "within [start, stop); get_feature_parent = records called `name` whose extent contains [start, stop)",
    "GffAnnotationDb / BasicAnnotationDb get_feature_children(name, biotype) = records whose parent_id mentions `name` (sqlite "
    "LIKE %name%: substring, ASCII case ignored, `_` any character) of the asked biotype; the start / stop it also accepts are "
    "ignored by the code and by the oracle; the mixin's get_feature_parent is not checked (its answer depends on row order)",
    "names GenbankAnnotationDb makes up for features without /gene (<type>-<n>) are not compared by the spec-level oracle "
    "(the gbadd correspondence compares them exactly)",
]

GEN_FILE = LEAN / "CogentModel" / "Gen" / "C17Sql.lean"
GEN_FILE_Q = LEAN / "CogentModel" / "Gen" / "C17Query.lean"
COLS = ["seqid", "biotype", "name", "strand", "attributes"]
# identifiers that differ only by letter case, or by '_' vs another character, sit next to each other in every
# column, so that an `=` turned into LIKE (ASCII case-insensitive, '_' = any character) changes some answer
SEQIDS = ["s1", "S1", "s_1", "sx1", "chrx"]
BIOTYPES = ["gene", "GENE", "g_ne", "gxne", "cds", "exon", "mrna"]
NAMES = ["ab", "AB", "a_b", "axb", "a", "b", "g1"]
TOKENS = ["zq", "ZQ", "z_q", "zxq", "kw", "zqkw"]
PATTERNS = {"seqid": ["s%", "%1", "S%", "s_1%"], "biotype": ["g%ne", "%ne", "GEN%", "c%"], "name": ["a%", "%b", "A%", "a_b%", "ax%"]}
KINDS = ["basic", "gff", "genbank"]
FIRST_TABLE = {"basic": "user", "gff": "gff", "genbank": "gb"}


# --------------------------------------------------------------------------
# translator step
# --------------------------------------------------------------------------
def generate(ctx):
    import sys

    sys.path.insert(0, str(VERIF))
    from translator import sql2lean

    try:
        lean, info, problems = sql2lean.translate(SRC / "core" / "annotation_db.py")
    except sql2lean.TranslationError as e:
        return [f"sql2lean: {e}"]
    ctx.notes.append(f"sql2lean: {json.dumps(info.get('sql', {}))[:900]}; WHERE shapes checked={info.get('where_shapes_checked')}")
    if lean is not None:
        changed = sql2lean.write_if_changed(GEN_FILE, lean)
        if changed:
            ctx.notes.append("Gen/C17Sql.lean was rewritten (source SQL differs from the last generated text)")
    out = [f"sql2lean: {p}" for p in problems]
    # the small decision expressions around the queries (tables visited, subset bounds, attributes wrapping,
    # GenBank children / parent coordinate tests)
    from translator import c17_query2lean

    try:
        lean, info, problems = c17_query2lean.translate(SRC / "core" / "annotation_db.py")
    except (c17_query2lean.TranslationError, SyntaxError) as e:
        return out + [f"c17_query2lean: {e}"]
    ctx.notes.append(f"c17_query2lean: {json.dumps(info.get('seen', {}))[:900]}")
    if lean is not None and c17_query2lean.write_if_changed(GEN_FILE_Q, lean):
        ctx.notes.append("Gen/C17Query.lean was rewritten (source expressions differ from the last generated text)")
    return out + [f"c17_query2lean: {p}" for p in problems]


# --------------------------------------------------------------------------
# real implementation helpers
# --------------------------------------------------------------------------
def srt(xs):
    return sorted(xs, key=repr)


def _cls(kind):
    from cogent3.core import annotation_db as adb

    return {"basic": adb.BasicAnnotationDb, "gff": adb.GffAnnotationDb, "genbank": adb.GenbankAnnotationDb}[kind]


def _kind_of(db):
    return {"BasicAnnotationDb": "basic", "GffAnnotationDb": "gff", "GenbankAnnotationDb": "genbank"}[type(db).__name__]


def _ispans(spans):
    return None if spans is None else [[int(a), int(b)] for a, b in spans]


def _oint(x):
    return None if x is None else int(x)


def raw_rows(db, table):
    """rows of one table exactly as stored: the model's input.  A row without a location (GenBank `a^b`, remote
    accession) has NULL start / stop / spans; only the user table has an on_alignment column"""
    oa = ", on_alignment" if table == "user" else ""
    cur = db.db.execute(
        f"SELECT seqid, biotype, name, strand, CAST(attributes AS TEXT) AS attrs, start, stop, spans, parent_id{oa} FROM {table}"
    )
    out = []
    for r in cur.fetchall():
        out.append(
            dict(seqid=r["seqid"], biotype=r["biotype"], name=r["name"], strand=r["strand"], attrs=r["attrs"],
                 start=_oint(r["start"]), stop=_oint(r["stop"]), spans=_ispans(r["spans"]), parent=r["parent_id"],
                 on_alignment=None if not oa or r["on_alignment"] is None else bool(r["on_alignment"]))
        )
    return out


def db_json(db):
    kind = _kind_of(db)
    return dict(kind=kind, tables={t: raw_rows(db, t) for t in db.table_names})


def _nn(name, biotype=None):
    """names made up by the loader for rows without an ID (GFF: unknown-<n>; GenBank features without a naming
    qualifier: <type>-<n>) carry no information: compare them as None"""
    if isinstance(name, str) and name.startswith("unknown-"):
        return None
    if biotype is not None and isinstance(name, str):
        from .c17_gb import loader_made

        if loader_made(name, biotype):
            return None
    return name


def _tspans(spans):
    return None if spans is None else tuple(tuple(int(x) for x in s) for s in spans)


def _ob(x):
    return None if x is None else bool(x)


def canon_feature(f, exact=False, oa=False):
    t = (f["seqid"], f["biotype"], f["name"] if exact else _nn(f["name"], f["biotype"]), f["strand"], _tspans(f["spans"]))
    return t + ((_ob(f.get("on_alignment")),) if oa else ())


def canon_rec(r, attrs=False, parent=False, exact=False, oa=False):
    """exact=True keeps loader-made names (model-vs-real comparisons); the spec-level oracle ignores them"""
    t = (r["seqid"], r["biotype"], r["name"] if exact else _nn(r["name"], r["biotype"]), r["strand"],
         _tspans(r["spans"]), _oint(r["start"]), _oint(r["stop"]))
    if parent:
        t += (r.get("parent") if "parent" in r else r.get("parent_id"),)
    if oa:
        t += (_ob(r.get("on_alignment")),)
    return t + ((r.get("attrs"),) if attrs else ())


def real_query(db, q, records=False, oa=False):
    kw = {k: v for k, v in q.items() if v is not None}
    if records:
        return srt(canon_rec(r, oa=oa) for r in db.get_records_matching(**kw))
    return srt(canon_feature(f, oa=oa) for f in db.get_features_matching(**kw))


def sql_like(pattern, text):
    """sqlite LIKE with default settings, written from its documentation: % any run, _ any one character,
    ASCII letters compared case-insensitively"""
    lo = lambda c: c.lower() if "A" <= c <= "Z" else c
    memo = {}

    def go(i, j):
        if (i, j) in memo:
            return memo[(i, j)]
        if i == len(pattern):
            r = j == len(text)
        elif pattern[i] == "%":
            r = go(i + 1, j) or (j < len(text) and go(i, j + 1))
        elif j == len(text):
            r = False
        elif pattern[i] == "_":
            r = go(i + 1, j + 1)
        else:
            r = lo(pattern[i]) == lo(text[j]) and go(i + 1, j + 1)
        memo[(i, j)] = r
        return r

    return go(0, 0)


# --------------------------------------------------------------------------
# generators: record intent, and the three ways of getting it into a db
# --------------------------------------------------------------------------
def gen_spans(rng, lo=0, hi=34):
    k = rng.choice([1, 1, 1, 2, 2, 3])
    pos = rng.randint(lo, hi)
    spans = []
    for _ in range(k):
        ln = rng.randint(1, 6)
        spans.append([pos, pos + ln])
        pos += ln + rng.choice([0, 1, 1, 2, 5])
    if k > 1 and rng.random() < 0.2:
        # a first span that covers the later ones (overlapping / nested spans: start, stop are still the hull)
        spans[0][1] = spans[-1][1] + rng.choice([0, 1, 3])
    return spans


def gen_intent(rng, n, how):
    """intended records: what a linear scan should see"""
    recs = []
    for i in range(n):
        spans = gen_spans(rng)
        r = dict(
            seqid=rng.choice(SEQIDS[:3] if rng.random() < 0.7 else SEQIDS),
            biotype=rng.choice(BIOTYPES),
            name=rng.choice(NAMES),
            spans=spans,
            start=min(s for s, _ in spans),
            stop=max(e for _, e in spans),
            parent=None,
        )
        tok = rng.choice(TOKENS + [None])
        if how == "add":
            r["strand_arg"] = rng.choice(["+", "-", "+", "-", 1, -1, None])
            r["strand"] = None if r["strand_arg"] is None else str(r["strand_arg"])
            r["attrs"] = None if tok is None else f"note={tok};k{i}"
        else:  # genbank
            if len(spans) > 1 and rng.random() < 0.2:
                r["strand"] = None  # mixed-strand join
            else:
                r["strand"] = rng.choice(["+", "-"])
            r["note"] = tok
            r["attrs"] = f"{r['name']} {tok or ''}"
        recs.append(r)
    return recs


# ---- GFF3 text ------------------------------------------------------------
LOOKALIKE_KEYS = ["exon_id", "protein_id", "transcript_id", "Id", "PARENT", "parent_gene", "gene_id"]


def gff_text(rng, n_feat, id_suffix="", order="shuffle", min_rows=1):
    """GFF3 text with (a) features carrying an ID (1-3 rows each; `order`: the rows of one feature are listed in
    ascending / descending coordinate order and kept together, or all rows of the file are shuffled) and
    (b) many rows WITHOUT an ID: only `Parent=`, only a note, no attributes at all, or attributes whose KEYS merely
    contain 'id' / 'parent' in another case or as prefix / suffix (exon_id=, Id=, PARENT=, parent_gene= ...) with
    values SHARED between rows — such rows are separate records: only exact `ID=` / `Parent=` are identifiers"""
    blocks, ids = [], []
    for i in range(n_feat):
        fid = f"{rng.choice(NAMES)}{i}{id_suffix}"
        ids.append(fid)
        seqid, biotype, strand = rng.choice(SEQIDS[:3]), rng.choice(BIOTYPES), rng.choice(["+", "-", "."])
        attrs = f"ID={fid};note={rng.choice(TOKENS)}"
        if rng.random() < 0.3:
            attrs += f";{rng.choice(LOOKALIKE_KEYS)}=v{rng.randint(0, 2)}"
        if i and rng.random() < 0.4:
            attrs += f";Parent={rng.choice(ids[:i])}"
        spans = gen_spans(rng)
        while len(spans) < min_rows:
            spans = gen_spans(rng)
        if order == "desc":
            spans = spans[::-1]
        blocks.append([[seqid, "src", biotype, str(s + 1), str(e), ".", strand, ".", attrs] for s, e in spans])
    shared = [f"v{k}" for k in range(3)]
    for _ in range(rng.choice([0, 2, 4, 7, 11])):
        seqid, biotype, strand = rng.choice(SEQIDS[:3]), rng.choice(["exon", "cds", "g_ne"]), rng.choice(["+", "-", "."])
        a = rng.randint(0, 40)
        b = a + rng.randint(1, 6)
        r = rng.random()
        if r < 0.35 and ids:
            attrs = f"Parent={rng.choice(ids)}"
        elif r < 0.7:
            attrs = f"{rng.choice(LOOKALIKE_KEYS)}={rng.choice(shared)}"
            if rng.random() < 0.4:
                attrs += f";{rng.choice(LOOKALIKE_KEYS)}={rng.choice(shared)}"
        elif r < 0.85:
            attrs = f"note={rng.choice(TOKENS)}"
        else:
            attrs = None  # eight-column row
        blocks.append([[seqid, "src", biotype, str(a + 1), str(b), ".", strand, "."] + ([] if attrs is None else [attrs])])
    if order == "shuffle":
        rows = [w for blk in blocks for w in blk]
        rng.shuffle(rows)
    else:
        rng.shuffle(blocks)
        rows = [w for blk in blocks for w in blk]
    lines = ["##gff-version 3"] + ["\t".join(w) for w in rows]
    return "\n".join(lines) + "\n"


def _attr(attrs, key):
    for part in attrs.split(";"):
        if part.startswith(key + "="):
            return part[len(key) + 1 :].split()[0] if part[len(key) + 1 :].split() else None
    return None


def parse_gff_text(text):
    """independent reading of GFF3 text: the record list it denotes.  Rows sharing an ID are one multi-span
    record (first row's columns win); every row without an ID is a record of its own whose name is unspecified"""
    by_id, out, rows = {}, [], []
    for ln, line in enumerate(text.split("\n")):
        if not line.strip() or line.startswith("#"):
            continue
        c = line.split("\t")
        attrs = c[8] if len(c) > 8 else ""
        fid = _attr(attrs, "ID")
        rows.append(dict(id=fid, seqid=c[0], biotype=c[2], strand=c[6], attrs=attrs, start=int(c[3]), stop=int(c[4]), line=ln))
        span = [int(c[3]) - 1, int(c[4])]
        if fid is not None and fid in by_id:
            by_id[fid]["spans"].append(span)
            continue
        rec = dict(seqid=c[0], biotype=c[2], name=fid, strand=c[6], attrs=attrs, spans=[span], parent=_attr(attrs, "Parent"))
        out.append(rec)
        if fid is not None:
            by_id[fid] = rec
    for r in out:
        r["spans"] = sorted(r["spans"])
        r["start"] = min(s for s, _ in r["spans"])
        r["stop"] = max(e for _, e in r["spans"])
    return out, rows


# ---- GenBank text ---------------------------------------------------------
def gb_location(rng, r, length):
    """a location expression for the record's spans: plain / join / order / complement(...) / mixed strands /
    partial ends `<a..>b`; returns the text"""
    def seg(s, e, first, last):
        a, b = str(s + 1), str(e)
        if first and r.get("partial5"):
            a = "<" + a
        if last and r.get("partial3"):
            b = ">" + b
        return f"{a}..{b}" if e - s > 1 or "<" in a or ">" in b else a

    n = len(r["spans"])
    order = r.get("span_order") or list(range(n))
    segs = [seg(*r["spans"][k], k == 0, k == n - 1) for k in order]
    if r["strand"] is None:
        segs = [f"complement({x})" if i % 2 else x for i, x in enumerate(segs)]
        return "join(" + ",".join(segs) + ")"
    op = r.get("op", "join")
    body = segs[0] if n == 1 else f"{op}(" + ",".join(segs) + ")"
    return f"complement({body})" if r["strand"] == "-" else body


def gb_record(rng, seqid, recs, length=80):
    lines = [f"LOCUS       {seqid:<24}{length} bp    DNA     {rng.choice(['linear  ', 'circular'])} PLN 08-MAR-2010",
             "FEATURES             Location/Qualifiers"]
    for r in recs:
        r["op"] = rng.choice(["join", "join", "order"])
        r["partial5"], r["partial3"] = rng.random() < 0.2, rng.random() < 0.2
        if len(r["spans"]) > 1 and rng.random() < 0.25:
            # a feature spanning the origin is written high segment first: join(90..100,1..10)
            r["span_order"] = list(range(len(r["spans"])))[::-1]
        lines.append(f"     {r['biotype']:<16}{gb_location(rng, r, length)}")
        lines.append(f'                     /gene="{r["name"]}"')
        if r.get("note"):
            lines.append(f'                     /note="{r["note"]}"')
    lines.append("ORIGIN")
    seq = ("acgt" * 30)[:length]
    for i in range(0, length, 60):
        chunk = seq[i : i + 60]
        lines.append(f"{i + 1:>9} " + " ".join(chunk[j : j + 10] for j in range(0, len(chunk), 10)))
    lines.append("//")
    return "\n".join(lines) + "\n"


def build_case(rng, kind, how, n):
    """a JSON-able description of how to build a db plus the records it should hold"""
    if how == "gff":
        text = gff_text(rng, n)
        intent, rows = parse_gff_text(text)
        lpb = rng.choice([None, 1, 2, 3, 5, 8])
        return dict(kind="gff", how="gff", text=text, lines_per_block=lpb, intent=[_clean(r) for r in intent], rows=rows)
    if how == "gffglob":
        # several GFF3 files loaded by ONE load_annotations call through a glob pattern; IDs are unique across the
        # files (suffix), rows without an ID occur in any number of them
        texts, intent, idless = [], [], []
        for k in range(rng.choice([2, 2, 3])):
            t = gff_text(rng, max(0, n - k), id_suffix=f"f{k}")
            it, rows = parse_gff_text(t)
            texts.append(t)
            intent += it
            idless.append(sum(1 for w in rows if w["id"] is None))
        return dict(kind="gff", how="gffglob", texts=texts, idless=idless, intent=[_clean(r) for r in intent])
    if how in ("gbft", "gbdirect"):
        # a GenBank feature table with every kind of location (see c17_gb), through the flat-file parser (gbft: one
        # file per LOCUS or one multi-record file) or handed to GenbankAnnotationDb(data=...) / add_records directly
        from . import c17_gb

        feats = c17_gb.gen_features(rng, n, rng.choice([SEQIDS[:1], SEQIDS[:2], SEQIDS[:3]]), BIOTYPES, NAMES, TOKENS)
        groups = c17_gb.by_seqid(feats)
        intent = [_clean(r) for _, fs in groups for r in c17_gb.intent_of(fs)]
        case = dict(kind="genbank", how=how, oa=True, intent=intent)
        if how == "gbft":
            case["groups_ft"] = [[sid, fs] for sid, fs in groups]
            texts = [[sid, c17_gb.feature_table_text(rng, sid, fs)] for sid, fs in groups]
            if rng.random() < 0.4 and texts:
                texts = [["multi", "".join(t for _, t in texts)]]
            case["texts"] = texts
        else:
            case["groups"] = [[sid, fs] for sid, fs in groups]
        return case
    if how == "union":
        # the union of a user-only db (alignment features included) with a file-based one, either way round
        a = with_user_calls(rng, build_case(rng, "basic", "add", max(1, n // 2)), 2)
        b = _one_block(build_case(rng, *rng.choice([("gff", "gff"), ("genbank", "gb"), ("genbank", "gbft")]), n))
        b = with_user_calls(rng, b, rng.choice([0, 1]))
        parts = [a, b] if rng.random() < 0.5 else [b, a]
        return dict(kind=b["kind"], how="union", oa=True, parts=parts,
                    intent=[_oa_intent(r, c) for c in parts for r in c["intent"]])
    recs = gen_intent(rng, n, "add" if how == "add" else "gb")
    if how == "add":
        calls = []
        for r in recs:
            spans = [list(s) for s in r["spans"]]
            if rng.random() < 0.3:
                rng.shuffle(spans)
            spans = [s[::-1] if rng.random() < 0.2 else s for s in spans]  # reversed span order is normalised
            calls.append(dict(seqid=r["seqid"], biotype=r["biotype"], name=r["name"], spans=spans, strand=r["strand_arg"], attributes=r["attrs"]))
        return dict(kind=kind, how="add", calls=calls, intent=[_clean(r) for r in recs])
    texts, intent = [], []
    for sid in SEQIDS:
        sub = [r for r in recs if r["seqid"] == sid]
        if sub:
            texts.append([sid, gb_record(rng, sid, sub)])
            intent += [_clean(r) for r in sub]
    if how == "gbmulti":
        # ONE file holding several LOCUS records
        texts = [["multi", "".join(t for _, t in texts)]] if texts else []
    return dict(kind="genbank", how=how, texts=texts, intent=intent)


def _oa_intent(r, case):
    """records put in through add_feature without an on_alignment argument are NOT alignment features; records loaded
    from GFF / GenBank text have no such attribute"""
    if "on_alignment" in r:
        return r
    return dict(r, on_alignment=False if case["how"] == "add" else None)


def with_user_calls(rng, case, n):
    """the same case with n user-added records on top (add_feature after loading; on_alignment True / False / default),
    half of them sharing seqid / biotype / extent with a record already there"""
    from . import c17_gb

    calls, intent = c17_gb.gen_user_calls(rng, n, SEQIDS[:3], BIOTYPES, NAMES, TOKENS, like=case["intent"])
    case = dict(case, oa=True, intent=[_oa_intent(r, case) for r in case["intent"]] + [_clean(r) for r in intent])
    case["user_calls"] = list(case.get("user_calls", [])) + calls
    return case


def with_on_alignment(rng, qs):
    """every query x a random non-empty subset of on_alignment in {not passed, False, True}"""
    out = []
    for q in qs:
        for v in rng.choice([[None, False], [False, True], [None, False, True], [False], [True, None]]):
            out.append(q if v is None else dict(q, on_alignment=v))
    return out


def _one_block(case):
    """block-splitting of GFF loads is probed by run_case; everything else loads the file in one block"""
    if case["how"] == "gff":
        case["lines_per_block"] = None
    return case


def _clean(r):
    d = {k: r.get(k) for k in ("seqid", "biotype", "name", "strand", "attrs", "spans", "start", "stop", "parent")}
    if "on_alignment" in r:
        d["on_alignment"] = r["on_alignment"]
    return d


def build_db(case, scratch: Path, tag="x"):
    db = _build_db(case, scratch, tag)
    for c in case.get("user_calls", []):
        db.add_feature(**c)
    return db


def _build_db(case, scratch: Path, tag="x"):
    from cogent3.core.annotation_db import load_annotations

    if case["how"] == "union":
        a, b = (build_db(c, scratch, f"{tag}_u{i}") for i, c in enumerate(case["parts"]))
        return a.union(b)
    if case["how"] == "gbdirect":
        from . import c17_gb

        db = None
        for i, (sid, feats) in enumerate(case["groups"]):
            recs = c17_gb.direct_records(feats)
            if db is None:
                db = _cls("genbank")(data=recs, seqid=sid)
            elif i % 2:
                db.add_records(recs, sid)
            else:
                db = _cls("genbank")(data=recs, seqid=sid, db=db)
        return db if db is not None else _cls("genbank")()
    if case["how"] == "add":
        db = _cls(case["kind"])()
        for c in case["calls"]:
            db.add_feature(**c)
        return db
    if case["how"] == "gff":
        p = scratch / f"c17_{tag}.gff3"
        p.write_text(case["text"])
        if case.get("lines_per_block"):
            return load_annotations(path=p, lines_per_block=case["lines_per_block"])
        return load_annotations(path=p)
    if case["how"] == "gffglob":
        d = scratch / f"c17_{tag}_glob"
        d.mkdir(exist_ok=True)
        for old in d.glob("*.gff3"):
            old.unlink()
        for i, text in enumerate(case["texts"]):
            (d / f"part{i}.gff3").write_text(text)
        return load_annotations(path=d / "*.gff3")
    db = None
    for i, (sid, text) in enumerate(case["texts"]):
        p = scratch / f"c17_{tag}_{i}.gb"
        p.write_text(text)
        db = load_annotations(path=p, db=db)
    return db if db is not None else _cls("genbank")()


def n_blocks(case):
    k = case.get("lines_per_block")
    n = len(case["text"].rstrip("\n").split("\n"))
    return 1 if not k else -(-n // k)


# --------------------------------------------------------------------------
# the oracle: a linear scan written from the property text
# --------------------------------------------------------------------------
def col_match(q, v):
    """`=` for plain values (exact, case-sensitive), the documented `%` wildcard otherwise; NULL matches nothing"""
    if v is None:
        return False
    q = str(q)
    return sql_like(q, v) if "%" in q else q == v


def oracle_match(r, q):
    # on_alignment=True: alignment features only; False: everything that is not an alignment feature
    oa = q.get("on_alignment")
    if oa is True and r.get("on_alignment") is not True:
        return False
    if oa is False and r.get("on_alignment") is True:
        return False
    for c in ("seqid", "biotype", "name", "strand"):
        if q.get(c) is not None and not col_match(q[c], r[c]):
            return False
    if q.get("attributes") is not None:
        # documented: records whose attributes CONTAIN the text (sqlite LIKE %text%)
        a = q["attributes"]
        if r.get("attrs") is None or not sql_like(a if "%%" in a else f"%{a}%", r["attrs"]):
            return False
    a, b = q.get("start"), q.get("stop")
    s, e = r["start"], r["stop"]
    if s is None:
        # a record without coordinates lies in / overlaps / contains nothing
        return a is None and b is None
    if a is not None and b is not None:
        return (s < b and a < e) if q.get("allow_partial") else (a <= s and e <= b)
    if a is not None:
        return s <= a < e
    if b is not None:
        return s <= b < e
    return True


def oracle_select(recs, q):
    return [r for r in recs if oracle_match(r, q)]


def lattice(recs):
    edges = sorted({r["start"] for r in recs if r["start"] is not None} | {r["stop"] for r in recs if r["stop"] is not None})
    # position 0 (the first position of every sequence) is a boundary value of its own
    return sorted({0} | {x for e in edges for x in (e - 1, e, e + 1) if x >= 0}) if edges else []


def gen_queries(rng, recs, n_windows):
    """window-only queries over the boundary lattice x allow_partial, then every subset of the optional
    arguments x the five window modes; column values are taken from a record, from its case / underscore
    neighbours, or are `%` patterns; strand may be given as an int"""
    lat = lattice(recs) or [0, 1, 2]
    pairs = [(a, b) for a in lat for b in lat if a < b]
    if len(pairs) > n_windows:
        pairs = rng.sample(pairs, n_windows)
    qs = []
    for a, b in pairs:
        for ap in (True, False):
            qs.append(dict(start=a, stop=b, allow_partial=ap))
    vocab = {"seqid": SEQIDS, "biotype": BIOTYPES, "name": NAMES, "strand": ["+", "-", 1, -1, "."]}
    for k in range(len(COLS) + 1):
        for cols in itertools.combinations(COLS, k):
            base = {}
            src = rng.choice(recs) if recs and rng.random() < 0.75 else None
            for c in cols:
                r = rng.random()
                if c == "attributes":
                    base[c] = rng.choice(TOKENS)
                elif c in PATTERNS and r < 0.15:
                    base[c] = rng.choice(PATTERNS[c])
                elif src is not None and src.get(c) is not None and r < 0.7:
                    v = src[c]
                    base[c] = int(v) if c == "strand" and v in ("1", "-1") and rng.random() < 0.5 else v
                else:
                    base[c] = rng.choice(vocab[c])
            a, b = rng.choice(pairs) if pairs else (0, 1)
            if src is not None and src["start"] is not None and rng.random() < 0.6:
                a = max(0, src["start"] + rng.choice([-1, 0, 1]))
                b = src["stop"] + rng.choice([-1, 0, 1])
                if a >= b:
                    a, b = b, a + 1
            for mode in ("none", "partial", "within", "start", "stop"):
                q = dict(base)
                if mode in ("partial", "within"):
                    q.update(start=a, stop=b)
                elif mode == "start":
                    q.update(start=a)
                elif mode == "stop":
                    q.update(stop=b)
                q["allow_partial"] = mode == "partial" or (mode in ("none", "start", "stop") and rng.random() < 0.5)
                qs.append(q)
    return qs


def q_mode(q):
    a, b = q.get("start") is not None, q.get("stop") is not None
    if a and b:
        return "partial" if q.get("allow_partial") else "within"
    return "start" if a else "stop" if b else "none"


def q_cols(q):
    return "+".join(c for c in COLS if q.get(c) is not None) or "-"


# --------------------------------------------------------------------------
# one case against the oracle (used by spec_check, replay and check_witness)
# --------------------------------------------------------------------------
def _count_distinct_check(db, intent, rng, src, case, fails):
    import collections

    from . import c17_gb

    probes = [dict(seqid=True), dict(biotype=True), dict(seqid=True, biotype=True), dict(name=True, seqid=True)]
    if intent:
        r = rng.choice(intent) if rng is not None else intent[0]
        probes += [dict(biotype=r["biotype"], seqid=True), dict(seqid=r["seqid"], name=True, biotype=True)]
    for flags in probes:
        try:
            tbl = db.count_distinct(**flags)
            header = list(tbl.header)
            got = collections.Counter()
            nm = lambda v: None if src.startswith("genbank") and isinstance(v, str) and c17_gb._FAKE.match(v) else _nn(v)
            for row in tbl.to_list():
                key = tuple(nm(v) if h == "name" else v for h, v in zip(header[:-1], row[:-1]))
                got[key] += int(row[-1])
            cols = header[:-1]
        except Exception as e:  # noqa: BLE001
            fails.append(("count_distinct raised", dict(case=case, flags=flags), "a table", repr(e), f"count_distinct:{src}:raises:{type(e).__name__}"))
            continue
        cons = {k: v for k, v in flags.items() if isinstance(v, str)}
        want = collections.Counter(
            tuple(rec[c] for c in cols) for rec in intent if all(col_match(v, rec[k]) for k, v in cons.items())
        )
        if dict(got) != dict(want):
            fails.append(("count_distinct differs from counting the record list", dict(case=case, flags=flags), sorted(want.items(), key=repr),
                          sorted(got.items(), key=repr), f"count_distinct:{src}:{'+'.join(sorted(flags))}"))


NO_LOCATION = "'NoneType' object is not iterable"
NO_OA_COLUMN = "no such column: on_alignment"


def q_sig(q):
    oa = q.get("on_alignment")
    return f"{q_mode(q)}:{q_cols(q)}" + ("" if oa is None else f":on_alignment={oa}")


def _two_tables(db):
    return len(db.table_names) > 1


def run_case(case, scratch, out=None, rng=None, n_windows=60, queries=None, tag="case", family=None):
    """returns list of failure tuples (what, input, expected, got, sig)"""
    fails = []
    src = f"{case['kind']}:{case['how']}"
    oa_queries, oa = bool(case.get("oa")), True  # on_alignment is always compared; only some cases pass it as an argument
    try:
        db = build_db(case, scratch, tag)
    except Exception as e:  # noqa: BLE001
        return [("building the db raised", dict(case=case), "a db", repr(e), f"build-raised:{src}:{type(e).__name__}")]
    intent = [_oa_intent(r, case) for r in case["intent"]]
    # (1) the stored record list is what was put in (loader-made names of ID-less rows are not compared)
    stored = [r for t in db.table_names for r in raw_rows(db, t)]
    with_parent = case["how"] in ("gff", "gffglob")
    got = srt(canon_rec(r, parent=with_parent, oa=oa) for r in stored)
    want = srt(canon_rec(r, parent=with_parent, oa=oa) for r in intent)
    if got != want:
        if case["how"] == "gffglob":
            # narrow class: ID-less rows in >= 2 of the files, records were LOST, and every record with a real ID is
            # stored intact -- i.e. only loader-named rows of different files were folded together
            named = lambda xs: [x for x in xs if x[2] is not None]
            merged = sum(1 for c in case["idless"] if c) >= 2 and len(got) < len(want) and named(got) == named(want)
            cls = "idless-rows-merged-across-files" if merged else "plain"
        elif case["how"] == "gff":
            nb = n_blocks(case)
            cls = f"blocks={'1' if nb == 1 else '2' if nb == 2 else '3+'}:{'id-split' if _ids_split_over_blocks(case) else 'plain'}"
        else:
            cls = "multi-record-file" if case["how"] == "gbmulti" and len(case["intent"]) and got != want and \
                {r[0] for r in got} < {r[0] for r in want} else "plain"
        fails.append(("stored records differ from the records the input denotes", dict(case=case), want, got, f"load:{src}:{cls}"))
        return fails
    names = [r["name"] for r in raw_rows(db, "gff")] if case["how"] == "gff" else []  # user-added rows may share names
    if len(set(names)) != len(names) and case["how"] == "gff":
        fails.append(("two stored GFF records share a name", dict(case=case), "distinct names", sorted(names), f"load:{src}:duplicate-name"))
    if len(db) != len(intent):
        fails.append(("len(db) differs from the number of records", dict(case=case), len(intent), len(db), f"len:{src}"))
    if out is not None or queries is None:
        _count_distinct_check(db, intent, rng, src, case, fails)
    if queries is None:
        queries = gen_queries(rng, intent, n_windows)
        if oa_queries:
            queries = with_on_alignment(rng, queries)
    for q in queries:
        sel = oracle_select(intent, q)
        want = srt(canon_feature(r, oa=oa) for r in sel)
        locless = any(r["start"] is None for r in sel)
        try:
            got = real_query(db, q, oa=oa)
        except Exception as e:  # noqa: BLE001
            got = f"raised {type(e).__name__}: {e}"
        if out is not None:
            out["evaluations"] += 1
            bump(out, "window_mode", q_mode(q))
            bump(out, "n_cols", sum(q.get(c) is not None for c in COLS))
            bump(out, "result_size", min(len(want), 5))
            if oa_queries:
                bump(out, "on_alignment_arg", f"{q.get('on_alignment')}:{'two-table' if _two_tables(db) else 'user-only'}")
            if locless:
                bump(out, "selects_record_without_location")
            if any(isinstance(q.get(c), str) and "%" in q[c] for c in COLS[:3]):
                bump(out, "wildcard_queries")
            if want and len(want) < len(intent):
                out["nontrivial"].add((src, json.dumps(case["intent"])[:200], json.dumps(q, sort_keys=True)))
        if got != want:
            sig = f"query:{src}:{q_sig(q)}"
            if locless and isinstance(got, str) and got.startswith("raised TypeError") and NO_LOCATION in got:
                # one narrow class: the scan selects a record that has no location, and building the feature dict of
                # that row raises (get_records_matching is compared below all the same)
                sig = "no-location:get_features_matching:raises:TypeError"
            fails.append(("get_features_matching differs from the linear scan", dict(case=case, query=q), want, got, sig))
            if not sig.startswith("no-location"):
                continue
        # the three query interfaces must agree with the scan (and so with each other)
        wantr = srt(canon_rec(r, oa=oa) for r in sel)
        try:
            gotr = real_query(db, q, records=True, oa=oa)
        except Exception as e:  # noqa: BLE001
            gotr = f"raised {type(e).__name__}: {e}"
        if gotr != wantr:
            sig = f"records:{src}:{q_sig(q)}"
            if q.get("on_alignment") is False and _two_tables(db) and isinstance(gotr, str) and NO_OA_COLUMN in gotr:
                sig = "on_alignment:get_records_matching:two-table:no-such-column"
            fails.append(("get_records_matching differs from the linear scan", dict(case=case, query=q), wantr, gotr, sig))
        if q_mode(q) == "none":
            kw = {k: v for k, v in q.items() if v is not None and k != "allow_partial"}
            try:
                n = db.num_matches(**kw)
            except Exception as e:  # noqa: BLE001
                n = f"raised {type(e).__name__}: {e}"
            if n != len(sel):
                sig = f"num_matches:{src}:{q_cols(q)}" + ("" if q.get("on_alignment") is None else f":on_alignment={q['on_alignment']}")
                if q.get("on_alignment") is not None and _two_tables(db) and isinstance(n, str) and NO_OA_COLUMN in n:
                    sig = "on_alignment:num_matches:two-table:no-such-column"
                elif "attributes" in kw:
                    # one narrow class: the count is exactly what results when `attributes` alone is compared with
                    # `=` / the caller's own % pattern instead of the substring search of the query methods (all
                    # other columns still right).  Anything else keeps the general signature.
                    q2 = dict(q, attributes=None)
                    a = q["attributes"]
                    n_exact = sum(1 for r in oracle_select(intent, q2) if r.get("attrs") is not None and col_match(a, r["attrs"]))
                    if n == n_exact:
                        sig = "num_matches:attributes-compared-exactly"
                fails.append(("num_matches differs from the linear scan", dict(case=case, query=q), len(sel), n, sig))
    # GenbankAnnotationDb: get_feature_children / get_feature_parent (name + coordinates) against their scans
    if case["kind"] == "genbank" and _kind_of(db) == "genbank" and (family is not None or (out is not None and rng is not None)):
        from . import c17_gb

        probes = [family] if family is not None else c17_gb.gen_family_queries(rng, intent, 12)
        for method, kw in probes:
            scan = c17_gb.gb_children if method == "children" else c17_gb.gb_parent
            want = srt(canon_feature(r, oa=True) for r in scan(intent, **kw))
            named = [r for r in intent if r["name"] == kw["name"]]
            try:
                fn = db.get_feature_children if method == "children" else db.get_feature_parent
                got = srt(canon_feature(f, oa=True) for f in fn(**kw))
            except Exception as e:  # noqa: BLE001
                got = f"raised {type(e).__name__}: {e}"
            if out is not None:
                out["evaluations"] += 1
                bump(out, "genbank_family", f"{method}:{min(len(want), 3)}")
                if want and len(want) < len(intent):
                    out["nontrivial"].add((src, "family", json.dumps(case["intent"])[:200], json.dumps([method, kw], sort_keys=True)))
            if got != want:
                sig = f"family:{src}:{method}"
                if any(r["start"] is None for r in named) and isinstance(got, str) and got.startswith("raised TypeError") and NO_LOCATION in got:
                    sig = f"no-location:get_feature_{method}:raises:TypeError"
                fails.append((f"get_feature_{method} differs from the linear scan", dict(case=case, family=[method, kw]), want, got, sig))
    return fails


def _ids_split_over_blocks(case):
    k = case.get("lines_per_block")
    if not k:
        return False
    seen = {}
    for w in case["rows"]:
        if w["id"] is None:
            continue
        b = w["line"] // k
        if w["id"] in seen and seen[w["id"]] != b:
            return True
        seen.setdefault(w["id"], b)
    return False


# --------------------------------------------------------------------------
# multiset preservation: union / update / subset / copies
# --------------------------------------------------------------------------
def copy_db(db, how, scratch, tag, commit_first=False):
    import copy
    import pickle

    if how == "deepcopy":
        return copy.deepcopy(db)
    if how == "pickle":
        return pickle.loads(pickle.dumps(db))
    if how == "json":
        from cogent3.util.deserialise import deserialise_object

        return deserialise_object(db.to_json())
    _COPY_N[0] += 1
    p = scratch / f"c17_w_{tag}_{_COPY_N[0]}.sqlitedb"  # never reuse a file another connection may hold open
    if commit_first:
        db.db.commit()
    _write_with_timeout(db, p)
    return type(db)(source=str(p))


class WriteBlocked(Exception):
    pass


def _write_with_timeout(db, p, timeout=2.5):
    """`write` can spin forever inside sqlite3's backup loop; observe that instead of hanging the check"""
    import threading

    err = []

    def work():
        try:
            db.write(p)
        except Exception as e:  # noqa: BLE001
            err.append(e)

    th = threading.Thread(target=work, daemon=True)
    th.start()
    th.join(timeout)
    if th.is_alive():
        in_tx = db.db.in_transaction
        db.db.commit()  # lets the blocked backup finish so the thread ends
        th.join(20)
        raise WriteBlocked(f"write() did not return within {timeout}s (connection in_transaction={in_tx})")
    if err:
        raise err[0]


COPIES = ["deepcopy", "pickle", "json", "write"]
_COPY_N = [0]


def all_recs(db, attrs=True):
    out = []
    for t in db.table_names:
        out += [canon_rec(r, attrs=attrs, oa=True) for r in raw_rows(db, t)]
    return sorted(out, key=repr)


def run_multiset_case(mc, scratch, out=None, tag="ms"):
    """mc: {a: case, b: case|None, op: ..}; returns failures"""
    fails = []
    a = build_db(mc["a"], scratch, tag + "a")
    op = mc["op"]
    ra = all_recs(a)
    inp = dict(multiset_case=mc)
    try:
        if op[0] == "copy" and len(op) > 2:
            # copy of a *file-backed* db (written first): neither the copy nor the file may change
            sig = f"copy:{op[1]}:file-backed"
            w = copy_db(a, "write", scratch, tag)
            c = copy_db(w, op[1], scratch, tag)
            got, want = dict(copy=all_recs(c), source_after=all_recs(w)), dict(copy=ra, source_after=ra)
        elif op[0] == "copy":
            c = copy_db(a, op[1], scratch, tag)
            got, want = all_recs(c), ra
            sig = f"copy:{op[1]}:{mc['a']['kind']}"
        elif op[0] == "subset":
            q = op[1]
            kw = {k: v for k, v in q.items() if v is not None}
            want = srt(canon_rec(r) for r in oracle_select(mc["a"]["intent"], q))
            sig = f"subset:{mc['a']['kind']}:{q_mode(q)}:{'cols' if q_cols(q) != '-' else 'window-only' if q_mode(q) != 'none' else 'no-args'}"
            c = a.subset(**kw)
            got = srt(canon_rec(r) for r in c.get_records_matching())
            if type(c) is not type(a):
                fails.append(("subset changed the db class", inp, type(a).__name__, type(c).__name__, sig + ":class"))
        else:
            b = build_db(mc["b"], scratch, tag + "b")
            rb = all_recs(b)
            compatible_u = mc["a"]["kind"] == mc["b"]["kind"] or "basic" in (mc["a"]["kind"], mc["b"]["kind"])
            if op[0] == "union":
                sig = f"union:{mc['a']['kind']}:{mc['b']['kind']}"
                want = sorted(ra + rb, key=repr) if compatible_u or not rb else "TypeError"
                try:
                    c = a.union(b)
                    got = all_recs(c)
                except TypeError:
                    got = "TypeError"
                if all_recs(a) != ra or all_recs(b) != rb:
                    fails.append(("union modified an operand", inp, [ra, rb], [all_recs(a), all_recs(b)], sig + ":mutates"))
            else:
                seqids = op[1]
                sig = f"update:{mc['a']['kind']}:{mc['b']['kind']}:{'seqids' if seqids else 'all'}"
                ok = mc["a"]["kind"] == mc["b"]["kind"] or mc["b"]["kind"] == "basic"
                sel = (lambda r: True) if not seqids else (lambda r: r[0] in ([seqids] if isinstance(seqids, str) else seqids))
                want = sorted(ra + [r for r in rb if sel(r)], key=repr) if ok else "TypeError"
                try:
                    a.update(b, seqids=seqids)
                    got = all_recs(a)
                    if len(op) > 2 and ok:
                        # ... and the updated db must survive a copy / serialisation / write+reload
                        sig = f"update+copy:{op[2]}"
                        got = all_recs(copy_db(a, op[2], scratch, tag))
                except TypeError:
                    got = "TypeError"
    except Exception as e:  # noqa: BLE001
        got = f"raised {type(e).__name__}: {e}"
        sig = sig if "sig" in locals() else f"{op[0]}:raised"
        sig += f":raises:{type(e).__name__}"
        if isinstance(e, KeyError) and str(e) == "'spans'" and "json" in op and any(
                r["start"] is None for c in (mc["a"], mc.get("b")) if c for r in c["intent"]):
            sig = "no-location:to_json:raises:KeyError"  # a stored row without a location cannot be serialised
        want = want if "want" in locals() else "no exception"
    if out is not None:
        out["evaluations"] += 1
        bump(out, "multiset_op", op[0] + (":" + str(op[1]) if op[0] == "copy" else ""))
        if isinstance(want, (list, dict)) and want:
            out["nontrivial"].add(("ms", json.dumps(mc, sort_keys=True)[:300]))
    if got != want:
        fails.append((f"{op[0]} does not preserve / select the multiset of records", inp, want, got, sig))
    return fails


def _rows(db):
    return srt(canon_rec(r) for t in db.table_names for r in raw_rows(db, t))


def run_chain_case(cc, scratch, out=None, tag="ch"):
    """subset -> union -> update chains (any order / length) starting from a file-backed or in-memory db; after
    EVERY step the db must hold the multiset the oracle computes, and every copy route (deepcopy, pickle,
    to_json/from_dict, write+reload) must reproduce it without changing the source"""
    fails = []
    inp = dict(chain_case=cc)
    a, b = cc["a"], cc["b"]
    try:
        cur = build_db(a, scratch, tag + "a")
        other = build_db(b, scratch, tag + "b")
        if cc.get("a_file"):
            cur = copy_db(cur, "write", scratch, tag)
        if cc.get("b_file"):
            other = copy_db(other, "write", scratch, tag)
    except Exception as e:  # noqa: BLE001
        return [("building the chain's dbs raised", inp, "dbs", repr(e), f"chain:build:raises:{type(e).__name__}")]
    exp, kind = list(a["intent"]), a["kind"]
    for n, st in enumerate(cc["steps"]):
        where = lambda db: "file" if db.source != ":memory:" else "mem"
        try:
            if st[0] == "subset":
                q = st[1]
                kw = {k: v for k, v in q.items() if v is not None}
                if len(st) > 2 and st[2]:
                    _COPY_N[0] += 1
                    kw["source"] = str(scratch / f"c17_sub_{tag}_{_COPY_N[0]}.sqlitedb")
                cur = cur.subset(**kw)
                exp = oracle_select(exp, q)
            elif st[0] == "union":
                ok = kind == b["kind"] or "basic" in (kind, b["kind"]) or not b["intent"]
                try:
                    cur = cur.union(other)
                except TypeError:
                    if ok:
                        fails.append(("union raised TypeError for compatible classes", dict(inp, step=n), "a db", "TypeError", f"chain:union:TypeError:{kind}:{b['kind']}"))
                    return fails
                if not ok:
                    fails.append(("union of incompatible classes did not raise", dict(inp, step=n), "TypeError", "a db", f"chain:union:no-TypeError:{kind}:{b['kind']}"))
                    return fails
                exp = exp + list(b["intent"])
                kind = kind if kind != "basic" or not b["intent"] else b["kind"]
            else:
                seqids = st[1]
                ok = kind == b["kind"] or b["kind"] == "basic"
                try:
                    cur.update(other, seqids=seqids)
                except TypeError:
                    if ok:
                        fails.append(("update raised TypeError for compatible classes", dict(inp, step=n), "updated", "TypeError", f"chain:update:TypeError:{kind}:{b['kind']}"))
                    return fails
                if not ok:
                    fails.append(("update from an incompatible class did not raise", dict(inp, step=n), "TypeError", "updated", f"chain:update:no-TypeError:{kind}:{b['kind']}"))
                    return fails
                sel = (lambda r: True) if not seqids else (lambda r: r["seqid"] in ([seqids] if isinstance(seqids, str) else seqids))
                exp = exp + [r for r in b["intent"] if sel(r)]
        except Exception as e:  # noqa: BLE001
            fails.append((f"{st[0]} raised in a chain", dict(inp, step=n), "no exception", f"{type(e).__name__}: {e}", f"chain:{st[0]}:raises:{type(e).__name__}"))
            return fails
        want = srt(canon_rec(r) for r in exp)
        got = _rows(cur)
        if out is not None:
            out["evaluations"] += 1
            bump(out, "chain_step", f"{st[0]}:{where(cur)}")
            if want:
                out["nontrivial"].add(("chain", json.dumps(cc, sort_keys=True)[:300], n))
        if got != want:
            fails.append((f"after {st[0]} the db does not hold the expected multiset", dict(inp, step=n), want, got, f"chain:{st[0]}:state:{where(cur)}"))
            return fails
        for route in COPIES:
            try:
                c = copy_db(cur, route, scratch, tag)
                gc, gs = _rows(c), _rows(cur)
            except Exception as e:  # noqa: BLE001
                gc, gs = f"raised {type(e).__name__}: {e}", want
            if out is not None:
                out["evaluations"] += 1
            if gc != want or gs != want:
                sig = "copy:json:file-backed" if route == "json" and where(cur) == "file" else f"chain:{st[0]}:copy:{route}:{where(cur)}"
                if route == "json" and isinstance(gc, str) and gc == "raised KeyError: 'spans'" and any(r["start"] is None for r in exp):
                    sig = "no-location:to_json:raises:KeyError"
                fails.append((f"{route} copy after {st[0]} does not reproduce the records (or changed the source)", dict(inp, step=n, route=route),
                              dict(copy=want, source_after=want), dict(copy=gc, source_after=gs), sig))
                if sig.startswith("no-location:") and gs == want:
                    continue  # the other routes and the later steps are still checked
                return fails
    return fails


def gen_chain_case(rng, plans):
    ka, ha = rng.choice(plans)
    kb, hb = rng.choice(plans)
    a = _one_block(build_case(rng, ka, ha, rng.choice([1, 2, 3, 5])))
    b = _one_block(build_case(rng, kb, hb, rng.choice([0, 1, 2, 4])))
    steps = []
    for _ in range(rng.randint(1, 4)):
        r = rng.random()
        if r < 0.4:
            q = rng.choice(gen_queries(rng, a["intent"] + b["intent"], 3))
            steps.append(["subset", q, rng.random() < 0.3])
        elif r < 0.7:
            steps.append(["union"])
        else:
            steps.append(["update", rng.choice([None, None, "s1", ["s1", "S1"], ["chrx"], "s_1"])])
    return dict(a=a, b=b, a_file=rng.random() < 0.5, b_file=rng.random() < 0.3, steps=steps)


# --------------------------------------------------------------------------
# spec check
# --------------------------------------------------------------------------
def spec_check(ctx, budget):
    out = new_outcome(
        "the three db classes filled by add_feature (strand '+','-',1,-1,None; reversed / shuffled spans) / generated GFF3 "
        "text (ID'd multi-row features scattered over the file plus many rows WITHOUT an ID: Parent-only, note-only, "
        "8-column; lines_per_block in {None,1,2,3,5,8} giving 1, 2, 3+ blocks; the record list is obtained by an "
        "independent parse of the same text and compared as a multiset of (seqid, biotype, spans, strand, parent, "
        "start, stop) ignoring only loader-made names) / generated GenBank text (join, order, complement(join), mixed "
        "strands, <,> partial ends, origin-spanning joins; one file per seqid and multi-record files) vs a Python "
        "linear scan. Identifiers differ only by letter case or '_' in every column, % patterns where documented. "
        "Queries: window-only over the boundary lattice (each record edge -1/0/+1) x allow_partial; every subset of "
        "{seqid,biotype,name,strand,attributes} x {no window, partial, within, start-only, stop-only}; "
        "get_features_matching = get_records_matching = num_matches = count_distinct = scan; len. "
        "subset/union/update chains (file-backed or in-memory start, subset to file) with deepcopy/pickle/json/"
        "write+reload after EVERY step vs multiset arithmetic. Several GFF3 files (IDs unique across files, ID-less rows "
        "in 0..3 of them) loaded through ONE glob pattern vs the concatenation of their record lists. GenBank feature tables "
        "(17 location kinds incl. between-base / remote / one-of = no coordinates, both strands = no strand, complement(join), "
        "join(complement..), partial ends, one-base, any segment order; with / without /gene; through the parser and through "
        "GenbankAnnotationDb(data=) / add_records / db=db) x every query kind incl. get_feature_children / get_feature_parent "
        "and count_distinct x every copy route, subset, union both ways, update, chains. User-added records incl. alignment "
        "features on top of every kind of db (also union(Basic, Gff)) x every query x on_alignment not passed / False / True. "
        "non-trivial = query selecting a non-empty proper "
        "subset, or a multiset/chain step on a non-empty db"
    )
    seen_sig = {}

    def add_failure(o, kind, what, inp, want, got, sig=None):  # _cap_add: at most 4 examples per failure class, so a
        seen_sig[sig] = seen_sig.get(sig, 0) + 1               # frequent (known) class cannot crowd out another one
        bump(o, "failure_class", sig)
        if seen_sig[sig] <= 4:
            _add_failure(o, kind, what, inp, want, got, sig=sig)

    rng = ctx.subrng(f"spec{budget}")
    scratch = ctx.scratch
    n_db = 10 * budget
    plans = [("basic", "add"), ("gff", "add"), ("genbank", "add"), ("gff", "gff"), ("gff", "gff"), ("genbank", "gb"),
             ("gff", "gff"), ("genbank", "gbmulti")]
    for i in range(n_db):
        kind, how = plans[i % len(plans)]
        case = build_case(rng, kind, how, rng.choice([1, 2, 3, 4, 6, 8]))
        bump(out, "source", f"{kind}:{how}")
        bump(out, "n_records", len(case["intent"]))
        if how == "gff":
            nb = n_blocks(case)
            bump(out, "gff_blocks", "1" if nb == 1 else "2" if nb == 2 else "3+")
            bump(out, "gff_rows_without_id", min(sum(1 for w in case["rows"] if w["id"] is None), 6))
        for what, inp, want, got, sig in run_case(case, scratch, out, rng, n_windows=40 if budget <= 1 else 80, tag=f"s{i}"):
            add_failure(out, "spec", what, inp, want, got, sig=sig)
        if len(out["samples"]) < 3:
            out["samples"].append(dict(kind=kind, how=how, intent=case["intent"][:3]))
    # GFF files dominated by ID-less rows, read in 1, 2, 3+ blocks (fake-name bookkeeping across blocks)
    for i in range(6 * budget):
        case = build_case(rng, "gff", "gff", rng.choice([0, 1, 2]))
        while sum(1 for w in case["rows"] if w["id"] is None) < 4:
            case = build_case(rng, "gff", "gff", rng.choice([0, 1, 2]))
        for lpb in (None, 1, 2, 3, 5):
            c2 = dict(case, lines_per_block=lpb)
            bump(out, "idless_gff_blocks", "1" if n_blocks(c2) == 1 else "2" if n_blocks(c2) == 2 else "3+")
            for what, inp, want, got, sig in run_case(c2, scratch, out, rng, n_windows=6, tag=f"u{i}"):
                add_failure(out, "spec", what, inp, want, got, sig=sig)
    # multi-row features listed in ascending / descending / shuffled coordinate order, the file cut at EVERY
    # block boundary, and the window x allow_partial lattice run on each db loaded that way
    for i in range(2 * budget):
        for order in ("asc", "desc", "shuffle"):
            text = gff_text(rng, rng.choice([1, 2, 3]), order=order, min_rows=2)
            intent, rows = parse_gff_text(text)
            base = dict(kind="gff", how="gff", text=text, intent=[_clean(r) for r in intent], rows=rows)
            lat = lattice(intent)
            wq = [dict(start=a, stop=b, allow_partial=ap) for a in lat for b in lat if a < b for ap in (True, False)]
            for lpb in range(1, len(text.rstrip("\n").split("\n")) + 1):
                c2 = dict(base, lines_per_block=lpb)
                bump(out, "gff_order_x_boundary", order)
                qs = wq if len(wq) <= 40 else rng.sample(wq, 40)
                for what, inp, want, got, sig in run_case(c2, scratch, out, rng, queries=qs, tag=f"o{i}"):
                    add_failure(out, "spec", what, inp, want, got, sig=sig)
    # get_feature_children of GffAnnotationDb / BasicAnnotationDb against the scan of parent_id (own rng)
    prng = ctx.subrng("mixin_children")
    for case, rows, probes, real in mixin_children_cases(prng, scratch, 4 * budget, "mc"):
        for kw, got in zip(probes, real):
            want = mixin_children_oracle(rows, kw)
            out["evaluations"] += 1
            bump(out, "mixin_children", str(min(len(want), 3)))
            if got != want:
                add_failure(out, "spec", "get_feature_children differs from the scan of parent_id", dict(case=case, probe=kw), want, got,
                            sig=f"family:mixin:{case['kind']}:children")
            elif want and len(want) < len(rows):
                out["nontrivial"].add(("mixin_children", json.dumps(kw, sort_keys=True), json.dumps(case["intent"])[:160]))
    # chains subset -> union -> update with copies after each step
    for i in range(10 * budget):
        cc = gen_chain_case(rng, plans[:6])
        for what, inp, want, got, sig in run_chain_case(cc, scratch, out, tag=f"c{i}"):
            add_failure(out, "spec", what, inp, want, got, sig=sig)
    # multiset preservation
    n_ms = 12 * budget
    for i in range(n_ms):
        ka, ha = rng.choice(plans)
        a = _one_block(build_case(rng, ka, ha, rng.choice([0, 1, 2, 3, 5])))
        r = rng.random()
        if r < 0.3:
            mc = dict(a=a, b=None, op=["copy", COPIES[i % len(COPIES)]] + (["file-backed"] if rng.random() < 0.5 else []))
        elif r < 0.65:
            qs = gen_queries(rng, a["intent"], 3)
            mc = dict(a=a, b=None, op=["subset", rng.choice(qs)])
        else:
            kb, hb = rng.choice(plans)
            b = _one_block(build_case(rng, kb, hb, rng.choice([0, 1, 2, 4])))
            if rng.random() < 0.5:
                mc = dict(a=a, b=b, op=["union"])
            else:
                op = ["update", rng.choice([None, None, "s1", ["s1", "S1"], ["chrx"], "s_1"])]
                if rng.random() < 0.6:
                    op.append(COPIES[i % len(COPIES)])
                mc = dict(a=a, b=b, op=op)
        for what, inp, want, got, sig in run_multiset_case(mc, scratch, out, tag=f"m{i}"):
            add_failure(out, "spec", what, inp, want, got, sig=sig)
    # every copy route x class x {in-memory, file-backed}, and every copy route after an update
    for kind, how in plans[:4] + plans[5:6]:
        a = _one_block(build_case(rng, kind, how, 3))
        for route in COPIES:
            for extra in ([], ["file-backed"]):
                mc = dict(a=a, b=None, op=["copy", route] + extra)
                for what, inp, want, got, sig in run_multiset_case(mc, scratch, out, tag="cp"):
                    add_failure(out, "spec", what, inp, want, got, sig=sig)
            b = _one_block(build_case(rng, "basic", "add", 2))
            mc = dict(a=a, b=b, op=["update", None, route])
            for what, inp, want, got, sig in run_multiset_case(mc, scratch, out, tag="uc"):
                add_failure(out, "spec", what, inp, want, got, sig=sig)
    # subset over every subset of arguments x window mode on one db per class (the cross product the property names)
    for kind, how in plans[:4] + plans[5:6]:
        a = _one_block(build_case(rng, kind, how, 5))
        for q in gen_queries(rng, a["intent"], 2):
            mc = dict(a=a, b=None, op=["subset", q])
            for what, inp, want, got, sig in run_multiset_case(mc, scratch, out, tag="sub"):
                add_failure(out, "spec", what, inp, want, got, sig=sig)
    # several GFF3 files through one glob pattern (own rng stream: the cases above are unchanged by it)
    rng2 = ctx.subrng(f"specglob{budget}")
    for i in range(5 * budget):
        case = build_case(rng2, "gff", "gffglob", rng2.choice([0, 1, 2, 3]))
        bump(out, "gffglob_files_with_idless_rows", sum(1 for c in case["idless"] if c))
        bump(out, "source", "gff:gffglob")
        for what, inp, want, got, sig in run_case(case, scratch, out, rng2, n_windows=6, tag=f"gl{i}"):
            add_failure(out, "spec", what, inp, want, got, sig=sig)
    # GenBank feature tables with every kind of location, through the flat-file parser and through
    # GenbankAnnotationDb(data=...) / add_records directly; every query kind, then every persistence / merge route
    rng3 = ctx.subrng(f"specgb{budget}")
    for i in range(8 * budget):
        how = ["gbft", "gbdirect"][i % 2]
        case = build_case(rng3, "genbank", how, rng3.choice([2, 3, 4, 6, 8]))
        if rng3.random() < 0.4:
            case = with_user_calls(rng3, case, 2)
        bump(out, "source", f"genbank:{how}")
        bump(out, "n_records", len(case["intent"]))
        for r in case["intent"]:
            bump(out, "genbank_record", "no-location" if r["start"] is None else "no-strand" if r["strand"] is None and r.get("on_alignment") is None
                 else "one-base" if r["stop"] - r["start"] == 1 else "multi-span" if len(r["spans"]) > 1 else "plain")
        for what, inp, want, got, sig in run_case(case, scratch, out, rng3, n_windows=15, tag=f"gb{i}"):
            add_failure(out, "spec", what, inp, want, got, sig=sig)
        mcs = [dict(a=case, b=None, op=["copy", route] + (["file-backed"] if rng3.random() < 0.3 else [])) for route in COPIES]
        mcs += [dict(a=case, b=None, op=["subset", q]) for q in rng3.sample(gen_queries(rng3, case["intent"], 4), 6)]
        b = build_case(rng3, "basic", "add", 2)
        mcs += [dict(a=case, b=b, op=["union"]), dict(a=b, b=case, op=["union"]), dict(a=case, b=b, op=["update", None, COPIES[i % len(COPIES)]])]
        b2 = build_case(rng3, "genbank", how, 3)
        mcs += [dict(a=case, b=b2, op=["update", rng3.choice([None, "s1", ["s1", "S1"]])]), dict(a=b2, b=case, op=["union"])]
        for mc in mcs:
            for what, inp, want, got, sig in run_multiset_case(mc, scratch, out, tag=f"gm{i}"):
                add_failure(out, "spec", what, inp, want, got, sig=sig)
    for i in range(3 * budget):
        cc = gen_chain_case(rng3, [("genbank", "gbft"), ("genbank", "gbdirect"), ("basic", "add"), ("genbank", "gb")])
        for what, inp, want, got, sig in run_chain_case(cc, scratch, out, tag=f"gc{i}"):
            add_failure(out, "spec", what, inp, want, got, sig=sig)
    # user-added records (alignment features included) on top of every kind of db, and the on_alignment argument
    # (not passed / False / True) crossed with every other argument subset and window mode
    rng4 = ctx.subrng(f"specoa{budget}")
    oa_plans = [("basic", "add"), ("gff", "gff"), ("genbank", "gb"), ("gff", "union"), ("gff", "add"), ("genbank", "gbft"),
                ("genbank", "add"), ("genbank", "gbdirect")]
    for i in range(8 * budget):
        kind, how = oa_plans[i % len(oa_plans)]
        case = _one_block(build_case(rng4, kind, how, rng4.choice([1, 2, 3, 5])))
        if how != "union":
            case = with_user_calls(rng4, case, rng4.choice([2, 3, 4]))
        bump(out, "source", f"{kind}:{how}+user")
        bump(out, "alignment_features", min(sum(1 for r in case["intent"] if r.get("on_alignment") is True), 4))
        for what, inp, want, got, sig in run_case(case, scratch, out, rng4, n_windows=10, tag=f"oa{i}"):
            add_failure(out, "spec", what, inp, want, got, sig=sig)
    return out


# --------------------------------------------------------------------------
# correspondence: Lean model vs the real classes
# --------------------------------------------------------------------------
def _sql_self_test(ctx, out):
    """generated Lean clauses vs sqlite evaluating the SQL text that the real function produces"""
    from cogent3.core.annotation_db import _matching_conditions

    con = sqlite3.connect(":memory:")
    rng = ctx.subrng("sqlbox")
    box = list(itertools.product(range(-1, 6), repeat=4))
    box += [tuple(rng.randint(-10**9, 10**9) for _ in range(4)) for _ in range(400)]
    reqs = [("sql", dict(s=s, e=e, a=a, b=b)) for s, e, a, b in box]
    model = ctx.driver.batch(reqs)
    for (s, e, a, b), m in zip(box, model):
        real = []
        for conds, ap in (({"start": a, "stop": b}, True), ({"start": a, "stop": b}, False), ({"start": a}, False), ({"stop": b}, False)):
            sql, _ = _matching_conditions(dict(conds), allow_partial=ap)
            real.append(bool(con.execute(f"SELECT ({sql}) FROM (SELECT ? AS start, ? AS stop)", (s, e)).fetchone()[0]))
        out["evaluations"] += 1
        if real != m:
            add_failure(out, "corr", "generated interval clause differs from sqlite on the real SQL text", dict(s=s, e=e, a=a, b=b), m, real, confirmed=False)
        elif s < e and a < b and real[0] != real[1]:
            out["nontrivial"].add(("sql", s, e, a, b))
    bump(out, "sql_box", len(box))
    # LIKE
    alpha = ["a", "B", "%", "_", "b", ""]
    pats = ["".join(p) for k in range(0, 4) for p in itertools.product(alpha[:5], repeat=k)]
    texts = ["", "a", "ab", "ba", "aB", "abb", "b_", "%"]
    cases = [(p, t) for p in pats for t in texts]
    model = ctx.driver.batch([("like", dict(p=p, t=t)) for p, t in cases])
    for (p, t), m in zip(cases, model):
        real = bool(con.execute("SELECT ? LIKE ?", (t, p)).fetchone()[0])
        out["evaluations"] += 1
        if real != m:
            add_failure(out, "corr", "likeMatch differs from sqlite LIKE", dict(p=p, t=t), m, real, confirmed=False)
    bump(out, "like_cases", len(cases))


def _loc_random(rng, depth=0):
    r = rng.random()
    if depth >= 2 or r < 0.45:
        a = rng.randint(1, 60)
        return ["seg", a, a + rng.choice([0, 0, 1, 3, 9])]
    if r < 0.75:
        return ["join", [_loc_random(rng, depth + 1) for _ in range(rng.randint(1, 3))]]
    return ["complement", _loc_random(rng, depth + 1)]


def _loc_text(l):
    if l[0] == "seg":
        return f"{l[1]}..{l[2]}" if l[2] != l[1] else str(l[1])
    if l[0] == "join":
        return "join(" + ",".join(_loc_text(x) for x in l[1]) + ")"
    return "complement(" + _loc_text(l[1]) + ")"


def correspondence(ctx):
    out = new_outcome(
        "Lean model vs real: generated SQL clauses vs sqlite on the real WHERE text (exhaustive box [-1,5]^4 + random "
        "large ints); likeMatch vs sqlite LIKE (exhaustive short patterns); getMatching on the raw stored rows of the "
        "three classes vs get_features_matching/get_records_matching/num_matches for lattice windows x argument "
        "subsets plus a malformed stream (LIKE wildcards, %% attributes, empty strings, reversed windows); add_feature "
        "normalisation; gff_parser coordinates incl. non-positive and reversed columns; genbank location expressions; "
        "block-wise GFF loading; op histories (add/update/union/subset/copies). non-trivial = non-empty proper result, "
        "or an op history whose final dbs are non-empty"
    )
    rng = ctx.subrng("corr")
    scratch = ctx.scratch
    _sql_self_test(ctx, out)

    # ---- queries on raw rows
    plans = [("basic", "add"), ("gff", "add"), ("genbank", "add"), ("gff", "gff"), ("genbank", "gb")]
    n_db = ctx.budget(15, 150)
    batch, meta = [], []
    for i in range(n_db):
        kind, how = plans[i % len(plans)]
        case = build_case(rng, kind, how, rng.choice([1, 2, 3, 5, 8]))
        if how == "gff":
            case["lines_per_block"] = None
        db = build_db(case, scratch, f"c{i}")
        if rng.random() < 0.5 and kind != "basic":
            # also put rows into the user table so both tables take part
            for c in build_case(rng, kind, "add", 2)["calls"]:
                db.add_feature(**c)
        dj = db_json(db)
        recs = [r for t in dj["tables"].values() for r in t]
        qs = gen_queries(rng, recs, ctx.budget(25, 60))
        # malformed / unusual stream
        for _ in range(12):
            q = dict(rng.choice(qs))
            m = rng.random()
            if m < 0.25:
                q["name"] = rng.choice(["a%", "%b", "%", "_", "A", "a_", "g%1"])
            elif m < 0.45:
                q["attributes"] = rng.choice(["%%zq", "zq%%", "", "ZQ", "note=_q", "%"])
            elif m < 0.6:
                q["strand"] = rng.choice(["", ".", "+-", "%"])
            elif m < 0.8:
                a, b = rng.randint(0, 40), rng.randint(0, 40)
                q.update(start=max(a, b), stop=min(a, b))
            else:
                q.update(start=rng.randint(0, 40))
                q["stop"] = q["start"]
            qs.append(q)
        real_f, real_r = [], []
        for q in qs:
            kw = {k: v for k, v in q.items() if v is not None}
            real_f.append([canon_feature(f, exact=True) for f in db.get_features_matching(**kw)])
            real_r.append(len(list(db.get_records_matching(**kw))))
        batch.append(("queries", dict(db=dj, qs=[_model_q(q) for q in qs])))
        meta.append((kind, how, dj, qs, real_f, real_r))
        # num_matches
        nq = [q for q in qs if q_mode(q) == "none"]  # attributes included: numMatches mirrors the unwrapped value
        batch.append(("nummatches", dict(db=dj, qs=[_model_q(q) for q in nq])))
        meta.append(("num", nq, [db.num_matches(**{k: v for k, v in q.items() if v is not None and k != "allow_partial"}) for q in nq], dj,
                     [len(list(db.get_records_matching(**{k: v for k, v in q.items() if v is not None}))) for q in nq]))
    replies = ctx.driver.batch(batch)
    for m, rep in zip(meta, replies):
        if m[0] == "num":
            _, nq, real, dj, scan = m
            for q, a, b, sc in zip(nq, rep, real, scan):
                out["evaluations"] += 1
                if a != b:
                    add_failure(out, "corr", "numMatches model differs from num_matches", dict(db=dj, q=q), a, b, confirmed=False)
            continue
        kind, how, dj, qs, real_f, real_r = m
        nrec = sum(len(t) for t in dj["tables"].values())
        for q, mod, rf, rr in zip(qs, rep, real_f, real_r):
            out["evaluations"] += 1
            modc = [canon_feature(r, exact=True) for r in mod]
            bump(out, "corr_window_mode", q_mode(q))
            if srt(modc) != srt(rf) or len(mod) != rr:
                add_failure(out, "corr", "getMatching model differs from get_features_matching", dict(db=dj, q=q), srt(modc), srt(rf), confirmed=False)
            else:
                if modc != rf:
                    bump(out, "row_order_differs")
                if 0 < len(rf) < nrec:
                    out["nontrivial"].add((kind, how, json.dumps(q, sort_keys=True), json.dumps(dj)[:120]))
        if len(out["samples"]) < 4:
            out["samples"].append(dict(kind=kind, how=how, query=qs[-20], model=[list(c) for c in map(canon_feature, rep[-20])]))

    # ---- add_feature normalisation (valid + malformed spans)
    norm_in = []
    for _ in range(ctx.budget(300, 3000)):
        k = rng.randint(1, 4)
        norm_in.append([[rng.randint(-3, 30), rng.randint(-3, 30)] for _ in range(k)])
    reps = ctx.driver.batch([("norm", dict(spans=s)) for s in norm_in])
    for s, rep in zip(norm_in, reps):
        db = _cls("basic")()
        db.add_feature(seqid="s", biotype="b", name="n", spans=s)
        r = raw_rows(db, "user")[0]
        out["evaluations"] += 1
        if [r["spans"], r["start"], r["stop"]] != [rep["spans"], rep["start"], rep["stop"]]:
            add_failure(out, "corr", "add_feature normalisation differs from mkUserRec", dict(spans=s), rep, r, confirmed=False)
        else:
            out["nontrivial"].add(("norm", json.dumps(s)))
    bump(out, "norm_cases", len(norm_in))

    # ---- gff coordinates
    from cogent3.parse.gff import gff_parser

    box = [(a, b) for a in range(-4, 9) for b in range(-4, 9)] + [(rng.randint(1, 10**9), rng.randint(1, 10**9)) for _ in range(100)]
    reps = ctx.driver.batch([("gff", dict(first=a, last=b)) for a, b in box])
    for (a, b), rep in zip(box, reps):
        rec = list(gff_parser([f"s\tsrc\tgene\t{a}\t{b}\t.\t+\t.\tID=x"], gff3=True))[0]
        out["evaluations"] += 1
        if [rec.start, rec.stop] != rep:
            add_failure(out, "corr", "gff_parser coordinates differ from gffCoords", dict(first=a, last=b), rep, [rec.start, rec.stop], confirmed=False)
    bump(out, "gff_coord_cases", len(box))

    # ---- genbank location expressions
    from cogent3.parse.genbank import location_line_tokenizer, parse_location_line

    locs = [_loc_random(rng) for _ in range(ctx.budget(400, 4000))]
    reps = ctx.driver.batch([("gb", dict(loc=l)) for l in locs])
    for l, rep in zip(locs, reps):
        ll = parse_location_line(location_line_tokenizer([_loc_text(l)]))
        strand = ll.strand
        real = dict(spans=_ispans(ll.get_coordinates()), strand=None if not strand else "-" if strand == -1 else "+")
        out["evaluations"] += 1
        bump(out, "gb_strand", str(real["strand"]))
        if real != rep:
            add_failure(out, "corr", "genbank location differs from gbCoords/gbStrand", dict(loc=_loc_text(l)), rep, real, confirmed=False)
        elif l[0] != "seg":
            out["nontrivial"].add(("gb", _loc_text(l)))

    # ---- block-wise GFF loading (ID'd multi-row features and many ID-less rows, 1 / 2 / 3+ blocks)
    reqs, reals, cases = [], [], []
    for i in range(ctx.budget(60, 500)):
        case = build_case(rng, "gff", "gff", rng.choice([1, 2, 3, 4, 6]))
        case["lines_per_block"] = rng.choice([1, 2, 3, 4, 7, None])
        k = case["lines_per_block"]
        groups = {}
        for w in case["rows"]:
            groups.setdefault(0 if not k else w["line"] // k, []).append(
                {x: w[x] for x in ("id", "seqid", "biotype", "strand", "attrs", "start", "stop")})
        blocks = [groups[b] for b in sorted(groups)]
        db = build_db(case, scratch, f"g{i}")
        reqs.append(("gffload", dict(blocks=blocks)))
        reals.append(srt(canon_rec(r, attrs=True, exact=True) for r in raw_rows(db, "gff")))
        cases.append(case)
    # fixed inputs: the same row of one ID twice (the only case in which the block size matters: see
    # gff_blocks_duplicate_row_counter), in one block and in two
    dup = "##gff-version 3\n" + "s1\tsrc\tcds\t3\t5\t.\t-\t.\tID=c1\n" * 2
    for lpb in (None, 2, 1):
        _, rows = parse_gff_text(dup)
        case = dict(kind="gff", how="gff", text=dup, lines_per_block=lpb, rows=rows, intent=[])
        groups = {}
        for w in rows:
            groups.setdefault(0 if not lpb else w["line"] // lpb, []).append(
                {x: w[x] for x in ("id", "seqid", "biotype", "strand", "attrs", "start", "stop")})
        db = build_db(case, scratch, f"gd{lpb}")
        reqs.append(("gffload", dict(blocks=[groups[b] for b in sorted(groups)])))
        reals.append(srt(canon_rec(r, attrs=True, exact=True) for r in raw_rows(db, "gff")))
        cases.append(case)
    for case, real, rep in zip(cases, reals, ctx.driver.batch(reqs)):
        out["evaluations"] += 1
        mod = srt(canon_rec(r, attrs=True, exact=True) for r in rep)
        nb = n_blocks(case)
        bump(out, "gffload_blocks", f"{'1' if nb == 1 else '2' if nb == 2 else '3+'}:{'split-id' if _ids_split_over_blocks(case) else 'plain'}")
        if mod != real:
            add_failure(out, "corr", "loadGffBlocks model differs from load_annotations", dict(text=case["text"], lines_per_block=case["lines_per_block"]), mod, real, confirmed=False)
        else:
            out["nontrivial"].add(("gffload", case["text"], case["lines_per_block"]))

    # ---- serialisation routes vs the record-list round-trip model, in-memory and file-backed sources
    reqs, reals, metas = [], [], []
    canon_db = lambda dj: [dj["kind"], {t: srt(canon_rec(r, attrs=True, exact=True) for r in rows) for t, rows in dj["tables"].items()}]
    for i in range(ctx.budget(9, 60)):
        kind, how = plans[i % len(plans)]
        case = _one_block(build_case(rng, kind, how, rng.choice([1, 2, 4])))
        for fb in (False, True):
            for route in COPIES:
                src = build_db(case, scratch, f"rt{i}")
                if fb:
                    src = copy_db(src, "write", scratch, f"rt{i}")
                dj = db_json(src)
                try:
                    real = canon_db(db_json(copy_db(src, route, scratch, f"rt{i}")))
                except Exception as e:  # noqa: BLE001
                    real = f"raised {type(e).__name__}"
                reqs.append(("roundtrip", dict(db=dj, route=route, file_backed=fb)))
                reals.append(real)
                metas.append(dict(kind=kind, how=how, route=route, file_backed=fb, n=sum(len(t) for t in dj["tables"].values())))
    for meta, real, rep in zip(metas, reals, ctx.driver.batch(reqs)):
        out["evaluations"] += 1
        bump(out, "roundtrip", f"{meta['route']}:{'file' if meta['file_backed'] else 'mem'}")
        mod = canon_db(rep) if "kind" in rep else rep
        if json.dumps(mod, default=list) != json.dumps(real, default=list):
            add_failure(out, "corr", "round-trip model differs from the real copy", meta, mod, real, confirmed=False)
        elif meta["n"]:
            out["nontrivial"].add(("roundtrip", json.dumps(meta), json.dumps(real, default=list)[:150]))

    # ---- op histories
    _op_histories(ctx, out, rng, scratch)
    # ---- extended model: rows without location, on_alignment, GenBank record loading, children / parent
    _x_correspondence(ctx, out, scratch)
    return out


def _xrow(r):
    d = dict(seqid=r["seqid"], biotype=r["biotype"], name=r["name"], strand=r["strand"], attrs=r["attrs"],
             located=r["start"] is not None, on_alignment=r.get("on_alignment"))
    if d["located"]:
        d.update(spans=r["spans"], start=r["start"], stop=r["stop"])
    return d


def xdb_json(db):
    kind = _kind_of(db)
    return dict(kind=kind, main=[] if kind == "basic" else [_xrow(r) for r in raw_rows(db, db.table_names[0])],
                user=[_xrow(r) for r in raw_rows(db, "user")])


def _xc(r, rec=True):
    t = (r["seqid"], r["biotype"], r["name"], r["strand"], _tspans(r.get("spans")), _ob(r.get("on_alignment")))
    return t + ((_oint(r.get("start")), _oint(r.get("stop"))) if rec else ())


def _real_or_raise(fn):
    try:
        return fn()
    except Exception as e:  # noqa: BLE001
        return f"raised {type(e).__name__}"


def mixin_children_cases(rng, scratch, n, tag):
    """GffAnnotationDb / BasicAnnotationDb with parent_id relations: GFF `Parent=` rows (ids that are substrings of each other
    or differ by case / `_` only: ab0, AB0, a_b0, ab01 ...) plus add_feature(parent_id=...) rows incl. comma lists; probes =
    a stored name / parent id, a piece of one, another case, a name not there x biotype x a window (which the mixin ignores).
    Yields (case, rows with parent in table order, probes, real answers)"""
    for i in range(n):
        kind = ["gff", "basic", "gff"][i % 3]
        case = _one_block(build_case(rng, kind, "gff" if kind == "gff" else "add", rng.choice([2, 3, 5])))
        db = build_db(case, scratch, f"{tag}{i}")
        pool = sorted({r["name"] for t in db.table_names for r in raw_rows(db, t) if r["name"]} | {"ab0", "AB0", "a_b0", "ab01", "g1"})
        for k in range(rng.choice([1, 2, 4])):
            a = rng.randint(0, 30)
            pid = rng.choice([rng.choice(pool), ",".join(rng.sample(pool, 2)), rng.choice(pool).upper(), None])
            db.add_feature(seqid=rng.choice(SEQIDS[:3]), biotype=rng.choice(BIOTYPES), name=f"u{k}", spans=[(a, a + rng.randint(1, 6))],
                           strand=rng.choice(["+", "-"]), **({} if pid is None else dict(parent_id=pid)),
                           **rng.choice([{}, dict(on_alignment=True)]))
        rows = [dict(_xrow(r), parent=r["parent"]) for t in db.table_names for r in raw_rows(db, t)]
        parents = sorted({p for r in rows if r["parent"] for p in r["parent"].split(",")})
        probes = []
        for _ in range(8):
            base = rng.choice(parents) if parents and rng.random() < 0.8 else rng.choice(pool + ["nosuch"])
            name = rng.choice([base, base, base[:-1] or base, base[1:] or base, base.swapcase(), base.replace("_", "x")])
            kw = dict(name=name)
            if rng.random() < 0.4:
                kw["biotype"] = rng.choice(BIOTYPES + ["g%ne"])
            if rng.random() < 0.4:
                kw.update(start=rng.randint(0, 20), stop=rng.randint(21, 45))
            probes.append(kw)
        real = [_real_or_raise(lambda: srt(_xc(f, rec=False) for f in db.get_feature_children(**kw))) for kw in probes]
        yield dict(case, parent_calls=True), rows, probes, real


def mixin_children_oracle(rows, kw):
    """records whose parent_id mentions `name` (sqlite LIKE %name%), of the asked biotype; the window plays no role"""
    return srt(_xc(r, rec=False) for r in rows if r["parent"] is not None and sql_like(f"%{kw['name']}%", r["parent"])
               and (kw.get("biotype") is None or col_match(kw["biotype"], r["biotype"])))


def _x_correspondence(ctx, out, scratch):
    from . import c17_gb

    rng = ctx.subrng("corrx")
    plans = [("genbank", "gbft"), ("genbank", "gbdirect"), ("gff", "gff"), ("basic", "add"), ("genbank", "gb"), ("gff", "add")]
    reqs, metas, jreqs, jreals = [], [], [], []
    for i in range(ctx.budget(12, 100)):
        kind, how = plans[i % len(plans)]
        case = with_user_calls(rng, _one_block(build_case(rng, kind, how, rng.choice([1, 2, 3, 5]))), rng.choice([0, 2, 3]))
        db = build_db(case, scratch, f"x{i}")
        recs = [r for t in db.table_names for r in raw_rows(db, t)]
        qs = with_on_alignment(rng, gen_queries(rng, recs, ctx.budget(6, 20)))
        for _ in range(6):  # degenerate windows: empty, reversed, a bound of 0
            a, b = rng.randint(0, 40), rng.randint(0, 40)
            qs.append(dict(rng.choice(qs), start=rng.choice([0, a, max(a, b)]), stop=rng.choice([0, a, min(a, b)]), allow_partial=rng.random() < 0.5))
        real = []
        for q in qs:
            kw = {k: v for k, v in q.items() if v is not None}
            one = dict(
                features=_real_or_raise(lambda: srt(_xc(f, rec=False) for f in db.get_features_matching(**kw))),
                records=_real_or_raise(lambda: srt(_xc(r) for r in db.get_records_matching(**kw))))
            if q_mode(q) == "none":
                one["num"] = _real_or_raise(lambda: db.num_matches(**{k: v for k, v in kw.items() if k != "allow_partial"}))
            if q.get("on_alignment") is None:
                one["subset"] = _real_or_raise(lambda: [srt(_xc(r) for r in t) for t in
                                                          (lambda d: (d["main"], d["user"]))(xdb_json(db.subset(**kw)))])
            real.append(one)
        reqs.append(("xq", dict(db=xdb_json(db), qs=[_model_q(q) for q in qs])))
        metas.append((kind, how, case, qs, real, len(recs)))
        # to_json -> deserialise_object of the same (in-memory) db: table by table the same rows, NULL columns included
        jreqs.append(("xjson", dict(db=xdb_json(db))))
        jreals.append((case, _real_or_raise(lambda: (lambda d: [srt(_xc(r) for r in d["main"]), srt(_xc(r) for r in d["user"])])(
            xdb_json(copy_db(db, "json", scratch, f"xj{i}"))))))
    for (case, one), rep in zip(jreals, ctx.driver.batch(jreqs)):
        out["evaluations"] += 1
        mod = [srt(_xc(r) for r in rep["main"]), srt(_xc(r) for r in rep["user"])]
        bump(out, "x_json_rows_without_location", min(sum(1 for r in rep["main"] if not r["located"]), 3))
        if mod != one:
            add_failure(out, "corr", "to_json round trip of the extended model differs from the real db", dict(case=case), mod, one, confirmed=False)
        elif rep["main"] or rep["user"]:
            out["nontrivial"].add(("xjson", json.dumps(case["intent"])[:160]))
    for (kind, how, case, qs, real, nrec), rep in zip(metas, ctx.driver.batch(reqs)):
        for q, one, m in zip(qs, real, rep):
            out["evaluations"] += 1
            mod = dict(features=m["features"] if isinstance(m["features"], str) else srt(_xc(r, rec=False) for r in m["features"]),
                       records=m["records"] if isinstance(m["records"], str) else srt(_xc(r) for r in m["records"]))
            if "num" in one:
                mod["num"] = m["num"]
            if "subset" in one:
                mod["subset"] = [srt(_xc(r) for r in m["subset"]["main"]), srt(_xc(r) for r in m["subset"]["user"])]
            bump(out, "x_on_alignment", str(q.get("on_alignment")))
            for k in one:
                if isinstance(one[k], str):
                    bump(out, "x_raises", f"{k}:{one[k]}")
            # on the branches of the open findings (the model mirrors an exception) a repaired tree answers like the
            # spec's scan: accept that too, nothing else
            scan_r = srt(_xc(r) for r in m["scan"])
            alt = dict(features=srt(_xc(r, rec=False) for r in m["scan"]), records=scan_r, num=m["scan_num"])
            # (only get_features_matching is left: records / num_matches mirror the code repaired by 26f741b86 exactly)
            for k in ("features",):
                if k in one and mod[k] == "raised TypeError" and mod[k] != one[k] and one[k] == alt[k]:
                    mod[k] = alt[k]
                    bump(out, "x_repaired_branch", k)
            if mod != one:
                bad = [k for k in one if mod[k] != one[k]]
                add_failure(out, "corr", f"extended model differs from the real db in {bad}", dict(case=case, q=q),
                            {k: mod[k] for k in bad}, {k: one[k] for k in bad}, confirmed=False)
            elif not isinstance(one["features"], str) and 0 < len(one["features"]) < nrec:
                out["nontrivial"].add(("xq", kind, how, json.dumps(q, sort_keys=True), json.dumps(case["intent"])[:120]))
    # GenBank record loading: the rows of gb in insertion order, names the loader makes up included
    reqs, reals, cases = [], [], []
    for i in range(ctx.budget(40, 300)):
        how = ["gbdirect", "gbft"][i % 2]
        case = build_case(rng, "genbank", how, rng.choice([1, 2, 3, 5, 8]))
        db = build_db(case, scratch, f"ga{i}")
        if how == "gbdirect":
            calls = [dict(seqid=sid, new=(k == 0 or k % 2 == 0), feats=[c17_gb.model_feature(f) for f in fs]) for k, (sid, fs) in enumerate(case["groups"])]
        else:
            # one GenbankAnnotationDb instance per LOCUS record, whether the records are in one file or several
            feats = case.get("feats")
            calls = [dict(seqid=sid, new=True, feats=[c17_gb.model_feature(f) for f in fs]) for sid, fs in case["groups_ft"]]
        reqs.append(("gbadd", dict(calls=calls)))
        reals.append([_xc(_xrow(r)) for r in raw_rows(db, "gb")])
        cases.append(case)
    for case, real, rep in zip(cases, reals, ctx.driver.batch(reqs)):
        out["evaluations"] += 1
        mod = [_xc(r) for r in rep]
        bump(out, "gbadd_rows_without_location", min(sum(1 for r in real if r[4] is None), 3))
        if mod != real:
            add_failure(out, "corr", "gbAddRecords model differs from the stored gb rows", dict(case=case), mod, real, confirmed=False)
        elif real:
            out["nontrivial"].add(("gbadd", json.dumps(case["intent"])[:200]))
    # GenBank children / parent
    reqs, reals, metas = [], [], []
    for i in range(ctx.budget(10, 80)):
        case = with_user_calls(rng, build_case(rng, "genbank", ["gbdirect", "gb", "gbft"][i % 3], rng.choice([2, 4, 6])), rng.choice([0, 2]))
        db = build_db(case, scratch, f"fa{i}")
        recs = [r for t in db.table_names for r in raw_rows(db, t)]
        probes = c17_gb.gen_family_queries(rng, recs, 10)
        real = []
        for method, kw in probes:
            fn = db.get_feature_children if method == "children" else db.get_feature_parent
            real.append(_real_or_raise(lambda: srt(_xc(f, rec=False) for f in fn(**kw))))
        reqs.append(("family", dict(db=xdb_json(db), probes=[dict(kw, method=m) for m, kw in probes])))
        reals.append(real)
        metas.append((case, probes))
    for (case, probes), real, rep in zip(metas, reals, ctx.driver.batch(reqs)):
        for pr, one, m in zip(probes, real, rep):
            out["evaluations"] += 1
            mod = m["res"] if isinstance(m["res"], str) else srt(_xc(r, rec=False) for r in m["res"])
            if isinstance(mod, str) and mod != one and not isinstance(m["alt"], str) and one == srt(_xc(r, rec=False) for r in m["alt"]):
                mod = one  # repaired branch of the open no-location finding
            bump(out, "x_family", pr[0] + (":raises" if isinstance(one, str) else f":{min(len(one), 2)}"))
            if mod != one:
                add_failure(out, "corr", f"GenBank get_feature_{pr[0]} model differs from the real db", dict(case=case, probe=pr), mod, one, confirmed=False)
            elif one and not isinstance(one, str):
                out["nontrivial"].add(("family", json.dumps(pr, sort_keys=True), json.dumps(case["intent"])[:120]))


    # get_feature_children of the mixin (GffAnnotationDb / BasicAnnotationDb): parent_id LIKE %name%
    reqs, metas = [], []
    for case, rows, probes, real in mixin_children_cases(rng, scratch, ctx.budget(9, 60), "pc"):
        reqs.append(("pchildren", dict(rows=rows, probes=probes)))
        metas.append((case, probes, real))
    for (case, probes, real), rep in zip(metas, ctx.driver.batch(reqs)):
        for kw, one, m in zip(probes, real, rep):
            out["evaluations"] += 1
            mod = m if isinstance(m, str) else srt(_xc(r, rec=False) for r in m)
            bump(out, "x_mixin_children", "raises" if isinstance(one, str) else str(min(len(one), 3)))
            if mod != one:
                add_failure(out, "corr", "mixin get_feature_children model differs from the real db", dict(case=case, probe=kw), mod, one, confirmed=False)
            elif one and not isinstance(one, str):
                out["nontrivial"].add(("pchildren", json.dumps(kw, sort_keys=True), json.dumps(case["intent"])[:120]))


def _model_q(q):
    # sqlite compares a TEXT column with an int by converting the int to text: the model gets the text.
    # `attributes` travels as the caller wrote it: getMatching wraps it (prepAttr), numMatches does not.
    return {k: (str(v) if k in COLS and v is not None and not isinstance(v, str) else v) for k, v in q.items()}


def _op_histories(ctx, out, rng, scratch):
    n_hist = ctx.budget(60, 600)
    reqs, reals, metas = [], [], []
    for h in range(n_hist):
        dbs, mops, err = [], [], None
        log = []
        # initial dbs
        for j in range(rng.randint(1, 3)):
            kind, how = rng.choice([("basic", "add"), ("gff", "add"), ("genbank", "add"), ("gff", "gff"), ("genbank", "gb")])
            case = build_case(rng, kind, how, rng.choice([0, 1, 2, 3]))
            if how == "gff":
                case["lines_per_block"] = None
            db = build_db(case, scratch, f"h{h}_{j}")
            dbs.append(db)
            mops.append(["new", kind])
            for t, rows in db_json(db)["tables"].items():
                for r in rows:
                    mops.append(["addtable", len(dbs) - 1, t, r])
            log.append(f"init {kind}:{how}:{len(case['intent'])}")
        for _ in range(rng.randint(1, 5)):
            r = rng.random()
            i = rng.randrange(len(dbs))
            k = rng.randrange(len(dbs))
            try:
                if r < 0.2:
                    c = build_case(rng, "basic", "add", 1)["calls"][0]
                    dbs[i].add_feature(**c)
                    rec = raw_rows(dbs[i], "user")[-1]
                    mops.append(["add", i, rec])
                    log.append("add")
                elif r < 0.4:
                    seqids = rng.choice([None, None, "s1", ["s1", "S1"], "s%", "s_1", [], ""])
                    mops.append(["update", i, k, seqids])
                    log.append(f"update {_kind_of(dbs[i])}<-{_kind_of(dbs[k])}")
                    dbs[i].update(dbs[k], seqids=seqids)
                elif r < 0.6:
                    mops.append(["union", i, k])
                    log.append(f"union {_kind_of(dbs[i])},{_kind_of(dbs[k])}")
                    dbs.append(dbs[i].union(dbs[k]))
                elif r < 0.8:
                    recs = [x for t in db_json(dbs[i])["tables"].values() for x in t]
                    q = rng.choice(gen_queries(rng, recs, 2))
                    mops.append(["subset", i, _model_q(q)])
                    log.append(f"subset {q_mode(q)} {q_cols(q)}")
                    dbs.append(dbs[i].subset(**{a: b for a, b in q.items() if b is not None}))
                else:
                    how = rng.choice(COPIES)
                    if how == "json" and dbs[i].source != ":memory:":
                        how = "deepcopy"  # json round trip of a file-backed db re-opens the file: spec_check's job
                    mops.append(["copy", i, how])
                    log.append(f"copy {how}")
                    dbs.append(copy_db(dbs[i], how, scratch, f"h{h}"))
            except TypeError:
                err = "TypeError"
                break
            except sqlite3.OperationalError:
                err = "OperationalError"
                break
        reqs.append(("ops", dict(ops=mops)))
        reals.append(dict(err=err, dbs=[db_json(d) for d in dbs]))
        metas.append(log)
    for log, real, rep in zip(metas, reals, ctx.driver.batch(reqs)):
        out["evaluations"] += 1
        bump(out, "history_end", real["err"] or "ok")
        for l in log:
            bump(out, "history_op", l.split(" ")[0])
        if "error" in rep:
            add_failure(out, "corr", "driver error in op history", dict(log=log), "reply", rep, confirmed=False)
            continue
        canon = lambda dj: [dj["kind"], {t: srt(canon_rec(r, attrs=True, exact=True) for r in rows) for t, rows in dj["tables"].items()}]
        a = [rep["err"], [canon(d) for d in rep["dbs"]]]
        b = [real["err"], [canon(d) for d in real["dbs"]]]
        if rep["err"] is not None:
            # on error both sides stop; the model's register holds the dbs before the failing op
            a[1] = a[1][: len(b[1])]
            b[1] = b[1][: len(a[1])]
        if json.dumps(a, default=list) != json.dumps(b, default=list):
            add_failure(out, "corr", "op history: model dbs differ from real dbs", dict(log=log), a, b, confirmed=False)
        elif any(sum(len(t) for t in d["tables"].values()) for d in real["dbs"]):
            out["nontrivial"].add(("hist", " | ".join(log), json.dumps(real["dbs"])[:200]))


# --------------------------------------------------------------------------
# findings plumbing
# --------------------------------------------------------------------------
def match_finding(f, k):
    sig = f.get("sig") or ""
    if not any(sig == s or (s.endswith("*") and sig.startswith(s[:-1])) for s in k.get("sigs", [])):
        return False
    r = k.get("restrict") or {}
    inp = f.get("input") or {}
    if r.get("got_contains") and r["got_contains"] not in str(f.get("got")):
        return False
    if r.get("copy_is_doubled"):
        # only the exact symptom: the copy holds every expected record twice (lost / altered records, or a raised
        # exception, on the same route are a different violation)
        exp, got = f.get("expected"), f.get("got")
        if not (isinstance(exp, dict) and isinstance(got, dict) and isinstance(exp.get("copy"), list) and isinstance(got.get("copy"), list)):
            return False
        if sorted(list(exp["copy"]) * 2, key=repr) != sorted(got["copy"], key=repr):
            return False
    if r.get("needs_id_split"):
        case = inp.get("case") or (inp.get("multiset_case") or {}).get("a") or {}
        if not _ids_split_over_blocks(case):
            return False
    if r.get("window_only"):
        q = ((inp.get("multiset_case") or {}).get("op") or [None, {}])[1] or {}
        if q_cols(q) != "-" or q_mode(q) == "none":
            return False
    return True


def _first_failure(fails):
    if not fails:
        return None
    what, inp, want, got, sig = fails[0]
    o = new_outcome()
    add_failure(o, "spec", what, inp, want, got, sig=sig)
    return o["failures"][0]


def check_witness(ctx, w):
    if w["type"] == "multiset":
        return _first_failure(run_multiset_case(w["multiset_case"], ctx.scratch, tag="wit"))
    if w["type"] == "chain":
        return _first_failure(run_chain_case(w["chain_case"], ctx.scratch, tag="wit"))
    return _first_failure(run_case(w["case"], ctx.scratch, queries=w.get("queries", []), family=w.get("family"), tag="wit"))


def replay(ctx, data):
    f = data.get("failing_input") or {}
    inp = f.get("input") or {}
    if "chain_case" in inp:
        fails = run_chain_case(inp["chain_case"], ctx.scratch, tag="rep")
    elif "multiset_case" in inp:
        fails = run_multiset_case(inp["multiset_case"], ctx.scratch, tag="rep")
    elif "case" in inp:
        fails = run_case(inp["case"], ctx.scratch, queries=[inp["query"]] if "query" in inp else [], family=inp.get("family"), tag="rep")
    else:
        return False
    for x in fails[:3]:
        print(x[0], "| expected", str(x[2])[:300], "| got", str(x[3])[:300])
    return bool(fails)
