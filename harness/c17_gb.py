"""C17 — GenBank feature tables with every kind of location, and user-added records (alignment features included).

Generators and oracles used by harness/c17.py (imported lazily from there):

* ``gen_features``: a feature table as a list of plain dicts.  Each feature has a *location description* chosen from
  plain ``a..b`` / one base ``a`` / ``<a..>b`` / ``join`` / ``order`` / ``complement(join(..))`` /
  ``join(complement(..),complement(..))`` / joins over BOTH strands / between-base sites ``a^b`` / locations on another
  accession ``ACC.1:a..b`` (alone or inside a join) / ``(a.b)..c``; with or without a ``/gene`` qualifier; in arbitrary
  order.  The record the feature denotes (0-based half-open spans, strand, or *no* spans and *no* strand when the
  location has no usable coordinates) is computed here from the generation parameters, never from the parser.
* ``feature_table_text``: the same table as GenBank flat-file text (goes through minimal_parser / load_annotations).
* ``direct_records``: the same table as the list of dicts ``GenbankAnnotationDb(data=..., seqid=...)`` /
  ``add_records`` take, the ``location`` being a small stand-in object with ``strand`` and ``get_coordinates()``
  (nothing of parse/genbank.py is used on this route).
* ``gb_children`` / ``gb_parent``: linear-scan oracles for GenbankAnnotationDb.get_feature_children / get_feature_parent.
* ``gen_user_calls``: add_feature calls incl. on_alignment True / False / left at its default.
"""
from __future__ import annotations

import re

LOC_KINDS = ["plain", "plain", "plain", "onebase", "partial", "join", "join", "order", "cjoin", "joinc", "mixed", "mixed",
             "between", "remote", "remote_join", "between_join", "oneof"]
LOCLESS = {"between", "remote", "remote_join", "between_join", "oneof"}


def _spans(rng, k, lo=0, hi=60):
    pos = rng.randint(lo, hi)
    out = []
    for _ in range(k):
        ln = rng.choice([1, 1, 2, 3, 5, 9])
        out.append([pos, pos + ln])
        pos += ln + rng.choice([0, 1, 2, 6])
    return out


def gen_features(rng, n, seqids, biotypes, names, tokens):
    """n features in arbitrary order; `seqid` says which LOCUS / add_records call the feature belongs to"""
    feats = []
    for i in range(n):
        kind = rng.choice(LOC_KINDS)
        k = 1 if kind in ("plain", "onebase", "partial", "between", "remote", "oneof") else rng.choice([2, 2, 3])
        spans = _spans(rng, k)
        if kind == "onebase":
            spans = [[spans[0][0], spans[0][0] + 1]]
        f = dict(
            seqid=rng.choice(seqids),
            biotype=rng.choice(biotypes),
            gene=rng.choice(names) if rng.random() < 0.85 else None,
            note=rng.choice(tokens + [None]),
            kind=kind,
            spans=spans,
            minus=rng.random() < 0.5,
            p5=kind == "partial" and rng.random() < 0.7 or rng.random() < 0.1,
            p3=kind == "partial" and rng.random() < 0.7 or rng.random() < 0.1,
            written=list(range(k)) if rng.random() < 0.7 else rng.sample(range(k), k),  # order the segments are written in
        )
        feats.append(f)
    return feats


def loc_text(f):
    """the GenBank location expression of a feature description (1-based closed)"""
    sp, n = f["spans"], len(f["spans"])

    def seg(i):
        s, e = sp[i]
        a, b = str(s + 1), str(e)
        if i == 0 and f["p5"]:
            a = "<" + a
        if i == n - 1 and f["p3"]:
            b = ">" + b
        if e - s == 1 and not ("<" in a or ">" in b):
            return a
        return f"{a}..{b}"

    kind = f["kind"]
    wrap = (lambda x: f"complement({x})") if f["minus"] else (lambda x: x)
    if kind == "between":
        s = sp[0][0] + 1
        return wrap(f"{s}^{s + 1}")
    if kind == "remote":
        return wrap(f"J00194.1:{sp[0][0] + 1}..{sp[0][1]}")
    if kind == "oneof":
        return wrap(f"({sp[0][0] + 1}.{sp[0][0] + 2})..{sp[0][1] + 3}")
    segs = [seg(i) for i in f["written"]]
    if kind == "remote_join":
        segs[-1] = "J00194.1:" + segs[-1].replace("<", "").replace(">", "")
        return wrap("join(" + ",".join(segs) + ")")
    if kind == "between_join":
        s = sp[-1][0] + 1
        segs[-1] = f"{s}^{s + 1}"
        return wrap("join(" + ",".join(segs) + ")")
    if kind in ("plain", "onebase", "partial"):
        return wrap(segs[0])
    if kind == "mixed":
        # pieces on both strands (at least one of each)
        segs = [f"complement({x})" if (i % 2 == (1 if f["minus"] else 0)) else x for i, x in enumerate(segs)]
        return "join(" + ",".join(segs) + ")"
    if kind == "joinc":
        # every piece complemented on its own: join(complement(b),complement(a))
        if f["minus"]:
            return "join(" + ",".join(f"complement({x})" for x in segs) + ")"
        return "join(" + ",".join(segs) + ")"
    op = "order" if kind == "order" else "join"
    return wrap(f"{op}(" + ",".join(segs) + ")")


def loc_tree(f):
    """the same expression as a tree for the Lean model (None when the location has no usable coordinates);
    built from the description exactly as loc_text builds the text"""
    if f["kind"] in LOCLESS:
        return None
    sp = f["spans"]
    segs = [["seg", sp[i][0] + 1, sp[i][1]] for i in f["written"]]
    wrap = (lambda x: ["complement", x]) if f["minus"] else (lambda x: x)
    kind = f["kind"]
    if kind in ("plain", "onebase", "partial"):
        return wrap(segs[0])
    if kind == "mixed":
        return ["join", [["complement", x] if (i % 2 == (1 if f["minus"] else 0)) else x for i, x in enumerate(segs)]]
    if kind == "joinc":
        return ["join", [["complement", x] for x in segs] if f["minus"] else segs]
    return wrap(["join", segs])


def model_feature(f):
    return dict(biotype=f["biotype"], loc=loc_tree(f), names=None if f["gene"] is None else [f["gene"]])


def denotes(f):
    """(spans, strand) the feature denotes; (None, None) when its location has no usable coordinates"""
    if f["kind"] in LOCLESS:
        return None, None
    spans = sorted([int(a), int(b)] for a, b in f["spans"])
    if f["kind"] == "mixed":
        return spans, None
    return spans, "-" if f["minus"] else "+"


def intent_of(feats):
    """the record list a feature table denotes, LOCUS by LOCUS in table order (names the loader makes up for features
    without a /gene qualifier are left unspecified)"""
    out = []
    for f in feats:
        spans, strand = denotes(f)
        out.append(dict(
            seqid=f["seqid"], biotype=f["biotype"], name=f["gene"], strand=strand,
            attrs=f"{f['gene'] or ''} {f['note'] or ''}", spans=spans,
            start=None if spans is None else min(s for s, _ in spans),
            stop=None if spans is None else max(e for _, e in spans),
            parent=None, on_alignment=None,
        ))
    return out


def feature_table_text(rng, seqid, feats, length=120):
    lines = [f"LOCUS       {seqid:<24}{length} bp    DNA     linear   PLN 08-MAR-2010",
             "FEATURES             Location/Qualifiers"]
    for f in feats:
        lines.append(f"     {f['biotype']:<16}{loc_text(f)}")
        if f["gene"] is not None:
            lines.append(f'                     /gene="{f["gene"]}"')
        if f["note"]:
            lines.append(f'                     /note="{f["note"]}"')
    lines.append("ORIGIN")
    seq = ("acgt" * 40)[:length]
    for i in range(0, length, 60):
        chunk = seq[i: i + 60]
        lines.append(f"{i + 1:>9} " + " ".join(chunk[j: j + 10] for j in range(0, len(chunk), 10)))
    lines.append("//")
    return "\n".join(lines) + "\n"


class StandInLocation(list):
    """what add_records needs of a location: truthiness, `.strand` (1, -1, 0 = both) and get_coordinates()"""

    def __init__(self, spans, strand):
        super().__init__(spans)
        self.strand = strand

    def get_coordinates(self):
        return sorted((int(a), int(b)) for a, b in self)


def direct_records(feats):
    """the dicts GenbankAnnotationDb(data=...) / add_records take (as the parser would hand them over)"""
    out = []
    for f in feats:
        spans, strand = denotes(f)
        loc = None if spans is None else StandInLocation(spans, 0 if strand is None else -1 if strand == "-" else 1)
        rec = {"type": f["biotype"], "raw_location": [loc_text(f)], "location": loc}
        if f["gene"] is not None:
            rec["gene"] = [f["gene"]]
        if f["note"]:
            rec["note"] = [f["note"]]
        out.append(rec)
    return out


def by_seqid(feats):
    """feature table split into LOCUS records / add_records calls, in order of first appearance"""
    order, groups = [], {}
    for f in feats:
        if f["seqid"] not in groups:
            order.append(f["seqid"])
            groups[f["seqid"]] = []
        groups[f["seqid"]].append(f)
    return [(s, groups[s]) for s in order]


_FAKE = re.compile(r"^(.*)-\d+$")


def loader_made(name, biotype):
    """GenbankAnnotationDb names a feature without a naming qualifier `<type>-<n>`"""
    m = _FAKE.match(name) if isinstance(name, str) else None
    return bool(m) and m.group(1) == biotype


# --------------------------------------------------------------------------
# GenbankAnnotationDb.get_feature_children / get_feature_parent: linear scans
# --------------------------------------------------------------------------
def gb_children(recs, name, start, stop, biotype=None, exclude_biotype=None):
    """documented: the records called `name` that lie within the (parent's) coordinates [start, stop)"""
    out = []
    for r in recs:
        if r["name"] != name or (biotype is not None and r["biotype"] != biotype):
            continue
        if exclude_biotype is not None and r["biotype"] == exclude_biotype:
            continue
        if r["start"] is None:
            continue  # no coordinates: lies within nothing
        if start <= r["start"] < stop and start < r["stop"] <= stop:
            out.append(r)
    return out


def gb_parent(recs, name, start, stop, exclude_biotype=None):
    """documented: the records called `name` whose extent matches or contains [start, stop)"""
    out = []
    for r in recs:
        if r["name"] != name or (exclude_biotype is not None and r["biotype"] == exclude_biotype):
            continue
        if r["start"] is None:
            continue
        if r["start"] <= start and stop <= r["stop"]:
            out.append(r)
    return out


def gen_family_queries(rng, recs, n):
    """(method, kwargs) probes: a name taken from a record (or not in the db) x a window taken from a record's own
    extent, its neighbours (-1/0/+1 on each edge) or the whole sequence x biotype / exclude_biotype"""
    located = [r for r in recs if r["start"] is not None]
    named = [r for r in recs if r["name"] is not None]
    out = []
    for _ in range(n):
        t = rng.choice(named) if named and rng.random() < 0.9 else None
        name = t["name"] if t is not None else "nosuch"
        x = rng.random()
        w = t if t is not None and t["start"] is not None and x < 0.6 else rng.choice(located) if located and x < 0.85 else None
        if w is not None:
            a = max(0, w["start"] + rng.choice([-1, 0, 0, 1, -5, 2]))
            b = w["stop"] + rng.choice([-1, 0, 0, 1, 5, -2])
            if a >= b:
                a, b = b, a + 1
        else:
            a, b = 0, 200
        kw = dict(name=name, start=a, stop=b)
        if rng.random() < 0.3 and recs:
            kw["exclude_biotype"] = rng.choice(recs)["biotype"]
        method = rng.choice(["children", "parent"])
        if method == "children" and rng.random() < 0.3 and recs:
            kw["biotype"] = rng.choice(recs)["biotype"]
        out.append([method, kw])
    return out


# --------------------------------------------------------------------------
# user-added records (alignment features included)
# --------------------------------------------------------------------------
def gen_user_calls(rng, n, seqids, biotypes, names, tokens, like=None):
    """add_feature calls; on_alignment True / False / not passed.  With probability 1/2 a call copies seqid, biotype
    and extent from a record already in the db (`like`), so that user rows and loaded rows answer the same queries"""
    calls, intent = [], []
    for i in range(n):
        src = rng.choice(like) if like and rng.random() < 0.5 else None
        if src is not None and src["start"] is not None:
            spans = [list(s) for s in src["spans"]]
        else:
            spans = _spans(rng, rng.choice([1, 1, 2]), hi=34)
        seqid = src["seqid"] if src is not None else rng.choice(seqids)
        biotype = src["biotype"] if src is not None and rng.random() < 0.7 else rng.choice(biotypes)
        strand = rng.choice(["+", "-", None])
        tok = rng.choice(tokens + [None])
        attrs = None if tok is None else f"note={tok};u{i}"
        call = dict(seqid=seqid, biotype=biotype, name=rng.choice(names), spans=spans, strand=strand, attributes=attrs)
        oa = rng.choice([None, False, True, True])
        if oa is not None:
            call["on_alignment"] = oa
        calls.append(call)
        sp = sorted(sorted(s) for s in spans)
        intent.append(dict(seqid=seqid, biotype=biotype, name=call["name"], strand=strand, attrs=attrs, spans=sp,
                           start=min(s for s, _ in sp), stop=max(e for _, e in sp), parent=None, on_alignment=bool(oa)))
    return calls, intent
