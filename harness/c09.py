"""C09 — Tree transformations preserve tips, topology and path lengths; tree distances."""
from __future__ import annotations

import json
from fractions import Fraction

import re

from . import c09_compose as C
from . import c09_routes as R
from . import c09_util as U
from .common import add_failure, bump, new_outcome

PROP = "C09"
PROPS_FILES = ["CogentModel/Props/C09.lean"]
LEAN_TARGETS = ["CogentModel.Props.C09"]
DRIVER = "drv_c09"
TRUSTED = [
    "hand-written model lean/CogentModel/Model/PhyloTree.lean (+PhyloNewick, PhyloTreeDist, PhyloMidpoint) of "
    "core/tree.py re-rooting / unrooted / sorted / get_sub_tree / _get_distances / root_at_midpoint, "
    "parse/newick.py parse_string (token level) and phylo/tree_distance.py Robinson-Foulds, tied by the "
    "correspondence check (ordered nested form, tip order, distance dict compared exactly on dyadic lengths)",
    "Spec/PhyloSplits.lean (named weighted splits; dist = sum of separating edge lengths)",
    "independent Python oracle harness/c09_util.py (path lengths, bipartitions, brute-force assignment)",
    "hand-written models Model/PhyloNewickStr.lean (writer escaping, regex split, token loop, parse_string reading, "
    "pySpace = str.isspace, the name class roundTrips) and Model/PhyloNames.lean (TreeBuilder._unique_name, make_tree's "
    "root renaming), tied each run: pySpace on every code point, escapeName / nameRoundTrip / roundTrips on adversarial "
    "names (the predicate must be exact on the real code), assignNames / makeTreeNames on label lists with repeats",
    "harness/c09_compose.py: independent newick writer, name generators, composition plans",
    "translator/c09_names2lean.py (AST translation of TreeBuilder.__init__'s dict literal and the whole body of TreeBuilder._unique_name into "
    "Gen/C09Newick.lean, conventions U1-U5 in its header: dict as insertion-ordered association list, `if not name: name = c` as "
    "Python truthiness of None/str, str()/+ on str and int, the self call as fuel-bounded recursion with fuel len(dict)+1; each tied to the "
    "real method by the gen_unique stream: arbitrary dict states, returned name AND dict afterwards compared)",
]
ASSUMPTIONS = [
    "chain / route checks: node names are distinct, non-empty, have >= 2 characters, are not of the form edge*/root* and do not look like numbers; "
    "the composition check (c09_compose) drops all of that: any non-empty printable names (quotes, doubled quotes, blanks at the ends, "
    "underscores, brackets, Unicode, number-like, equal to generated names edge.N / root / x.2) and repeated labels",
    "branch lengths in the real-code check are positive dyadic rationals k/64 (float sums exact); the model tie also uses missing and zero lengths",
    "'leaves its argument unmodified' is checked on the implementation by deep snapshots (name, name_loaded, params, structure), it is not a theorem of the value model",
    "underscore_unmunge=True is taken as THE newick round trip for names with blanks (make_tree's default False returns them with underscores, a documented option)",
    "write()/load_tree() is checked with the encoding cogent3 guesses (known finding C09-load-tree-encoding-guess for non-ASCII names)",
    "lin_rajan_moret / matching_cluster (scipy linear_sum_assignment) are exercised against an exact assignment optimum (subset DP, <= 12 clusters), not modelled",
    "XML round trip only with names free of newick/XML metacharacters and blanks; JSON routes only with names free of newick metacharacters (known finding C09-json-unescaped-names)",
]

def generate(ctx):
    """wave 3: re-translate TreeBuilder.__init__ (dict literal) and TreeBuilder._unique_name from the CURRENT core/tree.py into
    Gen/C09Newick.lean (translator/c09_names2lean.py); Props/C09.lean proves the generated definitions equal to Model/PhyloNames.lean"""
    import sys

    from .common import LEAN, SRC, VERIF

    sys.path.insert(0, str(VERIF))
    from translator import c09_names2lean as tr

    gen = LEAN / "CogentModel" / "Gen" / "C09Newick.lean"
    try:
        lean, info, problems = tr.translate(SRC / "core" / "tree.py")
    except (tr.TranslationError, SyntaxError) as e:
        lean, info, problems = None, {}, [str(e)]
    ctx.notes.append(f"c09_names2lean: {json.dumps(info)[:300]}")
    if lean is not None and tr.write_if_changed(gen, lean):
        ctx.notes.append("Gen/C09Newick.lean was rewritten (TreeBuilder's naming code differs from the last generated text)")
    return [f"c09_names2lean: {p}" for p in problems]


ERRS = ("TreeError", "ValueError", "AttributeError", "TypeError")
PER_SIG = 4  # failures kept per signature (signatures are narrow classes, so nothing new is crowded out)


def _fail(out, what, inp, expected, got, sig):
    n = out["dist"].setdefault("spec_failures_by_sig", {})
    n[sig] = n.get(sig, 0) + 1
    if n[sig] <= PER_SIG:
        add_failure(out, "spec", what, inp, expected, got, sig=sig, maxkeep=2000)


# --------------------------------------------------------------------------
# applying one op to a real tree
# --------------------------------------------------------------------------
def _apply_real(tree, op):
    k = op[0]
    if k == "rooted_at":
        return tree.rooted_at(op[1])
    if k == "rooted_with_tip":
        return tree.rooted_with_tip(op[1])
    if k == "reroot_path":
        node = U.real_node_at(tree, op[1])
        return tree.rooted_at(node.name)
    if k == "unrooted":
        return tree.unrooted()
    if k == "copy":
        return tree.copy()
    if k == "deepcopy":
        return tree.deepcopy()
    if k == "sorted":
        return tree.sorted(list(op[1]) or None)
    if k == "subtree":
        return tree.get_sub_tree(list(op[1]), ignore_missing=op[2], keep_root=op[3], tipsonly=op[4])
    if k == "midpoint":
        return tree.root_at_midpoint()
    if k == "newick":
        import cogent3

        return cogent3.make_tree(tree.get_newick(with_distances=True), underscore_unmunge=True)
    if k == "json":
        from cogent3.util.deserialise import deserialise_object

        return deserialise_object(tree.to_json())
    raise ValueError(k)


def _model_op(op):
    if op[0] == "deepcopy":
        return ["copy"]
    return list(op)


def _errname(e):
    n = type(e).__name__
    return n if n in ERRS else f"other:{n}"


def _rand_op(rng, nested, corr):
    """a random op applicable to the tree in nested form.  corr=True restricts to the ops the model has."""
    tips = U.n_tips(nested)
    nodes = list(U.n_internal_paths(nested))
    internal = [(p, n) for p, n in nodes if n[2] and p]
    r = rng.random()
    if r < 0.22:
        if internal and rng.random() < 0.9:
            p, n = rng.choice(internal)
            if n[0]:
                return ["rooted_at", n[0]]
            return ["reroot_path", list(p)]
        if rng.random() < 0.5:
            return ["rooted_at", rng.choice(tips)]  # a tip: TreeError
        return ["rooted_at", "no such node"]
    if r < 0.40:
        if rng.random() < 0.93:
            return ["rooted_with_tip", rng.choice(tips)]
        named = [n[0] for p, n in internal if n[0]]
        return ["rooted_with_tip", rng.choice(named) if named and rng.random() < 0.7 else "missing"]
    if r < 0.50:
        return ["unrooted"]
    if r < 0.60:
        k = rng.randint(0, min(3, len(tips)))
        return ["sorted", rng.sample(tips, k)]
    if r < 0.66:
        return ["copy"] if rng.random() < 0.5 else ["deepcopy"]
    if r < 0.88:
        k = rng.randint(2, max(2, len(tips))) if rng.random() < 0.9 else rng.randint(0, 1)
        names = rng.sample(tips, min(k, len(tips)))
        tipsonly = rng.random() < 0.6
        keep_root = rng.random() < 0.2
        ignore = rng.random() < 0.2
        if rng.random() < 0.08:
            names = names + ["not there"]
        if not tipsonly and rng.random() < 0.25:
            named = [n[0] for p, n in internal if n[0]]
            if named:
                names = names + [rng.choice(named)]
        return ["subtree", names, ignore, keep_root, tipsonly]
    if r < 0.96:
        return ["midpoint"]
    if corr:
        return ["copy"]
    return ["newick"] if rng.random() < 0.5 else ["json"]


def _gen_tree(rng, thorough_big=False, positive=False, odd=None):
    n = rng.choice([3, 4, 4, 5, 5, 6, 7, 8, 9, 11, 14, 18, 25]) if rng.random() < 0.8 else rng.randint(3, 25)
    rooted = rng.random() < 0.45
    multif = rng.random() < 0.5
    name_mode = rng.choice(["all", "none", "mixed"])
    len_mode = "pos" if positive else rng.choice(["pos", "pos", "pos", "mixed", "none", "zero"])
    odd_names = (rng.random() < 0.35) if odd is None else odd
    return U.rand_tree(rng, n, rooted, multif, name_mode, len_mode, odd_names), dict(
        ntips=n, rooted=rooted, multifurcating=multif, names=name_mode, lengths=len_mode, odd_names=odd_names
    )


def _real_obs(tree):
    d = {}
    for (a, b), v in tree.get_distances().items():
        d[(a, b)] = Fraction(float(v))
    return U.real_nested(tree), list(tree.get_tip_names()), d


def _model_obs(o):
    d = {}
    for a, b, v in o["dist"]:
        d[(a, b)] = U.unfrac_json(["", v, []])[1]
    spec = {(a, b): U.unfrac_json(["", v, []])[1] for a, b, v in o["spec"]}
    return U.unfrac_json(o["tree"]), o["tips"], d, spec


# --------------------------------------------------------------------------
# correspondence: Lean model vs real implementation
# --------------------------------------------------------------------------
def correspondence(ctx):
    out = new_outcome(
        "model vs cogent3 on (tree, op chain): all shapes on 3-5 tips x every single re-rooting/unrooted/sorted/"
        "midpoint/2-tip-and-3-tip subtrees, then seeded random rooted/unrooted bi/multifurcating trees (3-25 tips, dyadic, "
        "missing and zero lengths, quoted-character names) x chains of depth 1-4; compared: ordered nested form "
        "(loaded names, lengths, child order), tip order, the whole get_distances dict, error class; plus newick "
        "token streams / parser (valid and malformed) and rf/rrf/urf tree distances; name models: pySpace vs str.isspace on all code points, "
        "escapeName / nameRoundTrip / roundTrips vs get_newick + parse_string on ~1500 adversarial names (any characters), assignNames / "
        "makeTreeNames vs TreeBuilder._unique_name / make_tree on label lists with repeats; the TRANSLATED _unique_name (Gen/C09Newick.lean) vs "
        "the real method on arbitrary dict states (returned names and the dict afterwards, insertion order included).  non-trivial = distinct "
        "(tree, chain) whose last step changes the ordered nested form or raises"
    )
    rng = ctx.subrng("corr")
    cases = []  # (nested, ops, meta)
    small = U.exhaustive_small_trees()
    for t in small:
        tips = U.n_tips(t)
        single = [["unrooted"], ["sorted", []], ["sorted", [tips[-1]]], ["midpoint"], ["copy"]]
        for p, n in U.n_internal_paths(t):
            if p and n[2]:
                single.append(["rooted_at", n[0]])
            if not n[2]:
                single.append(["rooted_with_tip", n[0]])
                single.append(["rooted_at", n[0]])
        import itertools

        for k in (2, 3):
            for sub in itertools.combinations(tips, k):
                single.append(["subtree", list(sub), False, False, True])
        single.append(["subtree", tips[:2], False, True, False])
        for op in single:
            cases.append((t, [op], dict(kind="small", ntips=len(tips))))
    n_rand = ctx.budget(700, 30000)
    for _ in range(n_rand):
        t, meta = _gen_tree(rng)
        cases.append((t, None, meta))  # ops generated adaptively below (need the current tree)

    # run the real side first (ops for random cases are drawn from the current real tree)
    reals = []
    reqs = []
    for t, ops, meta in cases:
        tree = U.build_real(t)
        obs = [_real_obs(tree)]
        chain = []
        depth = len(ops) if ops is not None else rng.randint(1, 4)
        for i in range(depth):
            op = ops[i] if ops is not None else _rand_op(rng, obs[-1][0], corr=True)
            chain.append(op)
            try:
                arg = tree.deepcopy() if op[0] == "midpoint" else tree  # midpoint edits its argument (checked in spec_check)
                tree = _apply_real(arg, op)
            except Exception as e:  # noqa: BLE001
                obs.append({"err": _errname(e)})
                break
            obs.append(_real_obs(tree))
            if len(obs[-1][0][2]) < 2:
                break  # a single-child root (keep_root=True): later re-rooting would turn the old root into a tip
        reals.append((t, chain, meta, obs))
        reqs.append(("ops", dict(tree=U.frac_json(t), spec=True, ops=[_model_op(o) for o in chain])))
    replies = ctx.driver.batch(reqs)
    for (t, chain, meta, obs), rep in zip(reals, replies):
        out["evaluations"] += 1
        inp = dict(tree=U.frac_json(t), ops=chain)
        if isinstance(rep, dict) and "error" in rep:
            add_failure(out, "corr", "driver error", inp, "reply", rep, confirmed=False)
            continue
        ok = True
        if len(rep) != len(obs):
            add_failure(out, "corr", "chain length differs (one side raised)", inp, f"{len(rep)} steps: {rep[-1] if 'err' in rep[-1] else 'ok'}", f"{len(obs)} steps: {obs[-1] if isinstance(obs[-1], dict) else 'ok'}", confirmed=False)
            continue
        for i, (m, r) in enumerate(zip(rep, obs)):
            opname = chain[i - 1][0] if i else "input"
            if isinstance(r, dict) or "err" in m:
                if not (isinstance(r, dict) and "err" in m and r["err"] == m["err"]):
                    add_failure(out, "corr", f"error class differs after {opname}", dict(inp, step=i), m.get("err", "ok"), r if isinstance(r, dict) else "ok", confirmed=False)
                    ok = False
                else:
                    bump(out, "errors", f"{opname}:{r['err']}")
                break
            mt, mtips, md, mspec = _model_obs(m)
            rt, rtips, rd = r
            if mt != rt:
                add_failure(out, "corr", f"ordered nested form differs after {opname}", dict(inp, step=i), U.frac_json(mt), U.frac_json(rt), confirmed=False)
                ok = False
                break
            if mtips != rtips:
                add_failure(out, "corr", f"tip order differs after {opname}", dict(inp, step=i), mtips, rtips, confirmed=False)
                ok = False
                break
            if md != rd:
                bad = [k for k in set(md) | set(rd) if md.get(k) != rd.get(k)][:3]
                add_failure(out, "corr", f"get_distances differs after {opname}", dict(inp, step=i, pairs=bad), [str(md.get(k)) for k in bad], [str(rd.get(k)) for k in bad], confirmed=False)
                ok = False
                break
            # model-internal consistency: the mirrored _get_distances equals the specification distance
            if len(set(mtips)) == len(mtips) and any(md.get(k) != v for k, v in mspec.items()):
                add_failure(out, "corr", "model getDistances differs from distSpec", dict(inp, step=i), "equal", "different", confirmed=False)
                ok = False
                break
        if not ok:
            continue
        last_op = chain[-1][0]
        bump(out, "op_last", last_op)
        bump(out, "chain_depth", len(chain))
        bump(out, "ntips", len(U.n_tips(t)))
        for k in ("rooted", "multifurcating", "names", "lengths", "odd_names"):
            if k in meta:
                bump(out, k, meta[k])
        final = obs[-1]
        prev = obs[-2] if len(obs) > 1 else None
        if isinstance(final, dict) or (prev is not None and final[0] != prev[0]):
            out["nontrivial"].add(json.dumps([U.frac_json(t), chain]))
        if len(out["samples"]) < 6 and len(chain) >= 2 and not isinstance(final, dict) and len(U.n_tips(t)) <= 7:
            out["samples"].append(dict(tree=U.frac_json(t), ops=chain, result=U.frac_json(final[0])))

    _corr_newick(ctx, out, rng, small)
    _corr_treedist(ctx, out, rng, small)
    _corr_newick_chars(ctx, out, rng, small)
    C.corr_names(ctx, out, ctx.subrng("corr_names"), add_failure)
    return out


def _real_tokens(text, unmunge=True):
    """token stream of the real tokeniser in the model's JSON token form (EOT dropped)"""
    from cogent3.parse.newick import _Tokeniser

    tk = _Tokeniser(text, underscore_unmunge=unmunge)
    res = []
    after_colon = False
    for tok in tk.tokens():
        if tok is None:
            break
        if tk.token is None:  # a label
            if after_colon:
                res.append({"num": U.frac_json(["", Fraction(float(tok)), []])[1]})
            else:
                res.append([tok])
            after_colon = False
        else:
            res.append(tok)
            after_colon = tok == ":"
    return res


def _tok_text(toks):
    """newick text for a (possibly malformed) model token list: labels always quoted"""
    parts = []
    for t in toks:
        if isinstance(t, str):
            parts.append(t)
        elif isinstance(t, list):
            parts.append("'" + t[0].replace("'", "''") + "'")
        else:
            parts.append(repr(float(Fraction(t["num"]))))
    return "".join(parts)


def _real_parse(text):
    from cogent3.core.tree import TreeBuilder
    from cogent3.parse.newick import parse_string

    return U.real_nested(parse_string(text, TreeBuilder().create_edge, underscore_unmunge=True))


def _corr_newick(ctx, out, rng, small):
    trees = [(t, "small") for t in small[:: max(1, len(small) // 60)]]
    for _ in range(ctx.budget(250, 8000)):
        t, meta = _gen_tree(rng, odd=rng.random() < 0.5)
        trees.append((t, "rand"))
    reqs = [("newick", dict(tree=U.frac_json(t), with_len=w)) for t, _ in trees for w in (True, False)]
    reps = ctx.driver.batch(reqs)
    i = 0
    malformed = []
    for t, kind in trees:
        real = U.build_real(t)
        for w in (True, False):
            rep = reps[i]
            i += 1
            out["evaluations"] += 1
            inp = dict(tree=U.frac_json(t), with_distances=w)
            text = real.get_newick(with_distances=w)
            try:
                rtoks = _real_tokens(text)
            except Exception as e:  # noqa: BLE001
                rtoks = {"err": type(e).__name__}
            names = [n[0] for _, n in U.n_internal_paths(t)]
            clean = not any(nm.startswith("'") for nm in names)
            if rtoks != rep["toks"]:
                # the tokeniser cannot read back a quoted label that begins with a quote (''' is read as
                # an empty label followed by an opening quote): outside the model's token-level claim
                if clean:
                    add_failure(out, "corr", "newick token stream differs (real tokeniser on real writer output vs model printer)", inp, rep["toks"], rtoks, confirmed=False)
                else:
                    bump(out, "newick", "leading-quote-name-skipped")
                continue
            want = U.frac_json(_strip_len(t) if not w else t)
            if rep["reparsed"] != want:
                add_failure(out, "corr", "model parser does not invert the model printer", inp, want, rep["reparsed"], confirmed=False)
                continue
            try:
                rp = U.frac_json(_real_parse(text))
            except Exception as e:  # noqa: BLE001
                rp = {"err": type(e).__name__}
            if rp != rep["reparsed"]:
                add_failure(out, "corr", "real parse_string differs from model parser on the same tokens", inp, rep["reparsed"], rp, confirmed=False)
                continue
            bump(out, "newick", "roundtrip-ok")
            if w and len(rep["toks"]) < 60 and len(malformed) < ctx.budget(400, 5000):
                for _ in range(3):
                    malformed.append(_perturb(rng, rep["toks"]))
    # malformed token streams
    reps = ctx.driver.batch([("parse", dict(toks=m)) for m in malformed])
    for m, rep in zip(malformed, reps):
        out["evaluations"] += 1
        text = _tok_text(m)
        try:
            same = _real_tokens(text) == m
        except Exception:  # noqa: BLE001
            same = False
        if not same:
            bump(out, "newick", "malformed-retokenised-differently")
            continue
        try:
            rp = U.frac_json(_real_parse(text))
        except Exception as e:  # noqa: BLE001
            rp = {"err": "ValueError"}
        if rp != rep:
            add_failure(out, "corr", "parser outcome differs on malformed token stream", dict(toks=m, text=text), rep, rp, confirmed=False)
        else:
            bump(out, "newick", "malformed-error" if isinstance(rp, dict) else "malformed-accepted")
            out["nontrivial"].add("nw:" + text)


LEX_PATTERN = r"""([\t ]+|\n|''|""|[]['"(),:;\[\]])"""


def _real_char_tokens(text):
    from cogent3.parse.newick import _Tokeniser

    tk = _Tokeniser(text, underscore_unmunge=True)
    res = []
    try:
        for tok in tk.tokens():
            if tok is None:
                break
            res.append([tok] if tk.token is None else tok)
    except Exception as e:  # noqa: BLE001
        return {"err": "ValueError"}
    return res


def _corr_newick_chars(ctx, out, rng, small):
    """character-level tie: regular-expression split, token loop, and the writer's escaping"""
    import re

    alpha = "ab_ c'\"()[],:;\t\n'\"  x9."
    texts = []
    for _ in range(ctx.budget(3000, 40000)):
        n = rng.randint(0, 14)
        texts.append("".join(rng.choice(alpha) for _ in range(n)))
    trees = [t for t in small[:: max(1, len(small) // 40)]]
    for _ in range(ctx.budget(300, 5000)):
        t, _m = _gen_tree(rng, odd=rng.random() < 0.7)
        trees.append(t)
    reps = ctx.driver.batch([("printstr", dict(tree=U.frac_json(t))) for t in trees])
    for t, rep in zip(trees, reps):
        out["evaluations"] += 1
        real = U.build_real(t).get_newick(with_distances=False)
        if real != rep:
            add_failure(out, "corr", "get_newick string differs from model printStr", dict(tree=U.frac_json(t)), rep, real, confirmed=False)
        else:
            bump(out, "newick_chars", "printstr-ok")
            texts.append(real)
            texts.append(U.build_real(t).get_newick(with_distances=True))
    lex = ctx.driver.batch([("lex", dict(text=x)) for x in texts])
    tok = ctx.driver.batch([("tokenise", dict(text=x)) for x in texts])
    for x, l, tk in zip(texts, lex, tok):
        out["evaluations"] += 1
        want = [p for p in re.split(LEX_PATTERN, x) if p != ""]
        if want != l:
            add_failure(out, "corr", "model lex differs from re.split", dict(text=x), l, want, confirmed=False)
            continue
        real = _real_char_tokens(x)
        if real != tk:
            add_failure(out, "corr", "model tokenise differs from _Tokeniser.tokens()", dict(text=x), tk, real, confirmed=False)
            continue
        bump(out, "newick_chars", "err" if isinstance(real, dict) else "ok")
        out["nontrivial"].add("ch:" + x)
    # the whole character-level parser (tokenise, float() of the token after ':', state machine)
    reqs = []
    for x in texts:
        nums = {}
        # every chunk float() accepts (the reader `rd` of the model); taken from the raw pieces so that it
        # also covers texts whose tail fails to tokenise (parse_string reads the generator lazily)
        for piece in re.split(LEX_PATTERN, x):
            cand = piece.strip().replace("_", " ")
            for c2 in {piece, piece.strip(), cand}:
                try:
                    nums[c2] = U.frac_json(["", Fraction(float(c2)), []])[1]
                except (ValueError, OverflowError):
                    pass
        reqs.append(("parsestr", dict(text=x, nums=[[k, v] for k, v in nums.items()])))
    for x, rep in zip(texts, ctx.driver.batch(reqs)):
        out["evaluations"] += 1
        if "(" not in x and ";" not in x and x.strip():
            want = {"err": "ValueError"}  # parse_string's "Not a Newick tree" guard (before tokenising)
            if rep != want:
                bump(out, "newick_chars", "parsestr-guard-skipped")
            continue
        if "[" in x or "]" in x:
            bump(out, "newick_chars", "parsestr-comment-brackets-skipped")  # [...] comments: out of scope
            continue
        rt = _real_char_tokens(x)
        if (not isinstance(rt, dict) and [""] in rt) or (isinstance(rt, dict) and ("''" in x or '""' in x)):
            # an empty quoted label is a *loaded* name that TreeBuilder replaces by edge.N (outside the
            # stated domain: names are non-empty)
            bump(out, "newick_chars", "parsestr-empty-label-skipped")
            continue
        try:
            want = U.frac_json(_real_parse(x))
        except Exception:  # noqa: BLE001
            want = {"err": "ValueError"}
        if want != rep:
            add_failure(out, "corr", "model parseString differs from parse_string", dict(text=x), rep, want, confirmed=False)
        else:
            bump(out, "newick_chars", "parsestr-" + ("err" if isinstance(want, dict) else "ok"))


def _strip_len(t):
    return [t[0], None, [_strip_len(c) for c in t[2]]]


def _perturb(rng, toks):
    toks = list(toks)
    for _ in range(rng.randint(1, 2)):
        r = rng.random()
        if not toks:
            break
        i = rng.randrange(len(toks))
        if r < 0.4:
            del toks[i]
        elif r < 0.7:
            # a fresh label every time: TreeBuilder renames duplicate names (outside the stated domain)
            toks.insert(i, rng.choice(["(", ")", ",", ":", ";", [f"zz{rng.randint(0, 10**9)}"], {"num": "3/2"}]))
        else:
            j = rng.randrange(len(toks))
            toks[i], toks[j] = toks[j], toks[i]
    # align the token classes with what the real tokeniser will report: a number is only a number
    # right after ':', elsewhere it is a label (and a label after ':' stays a label -> float() fails)
    res = []
    prev_colon = False
    for t in toks:
        if isinstance(t, dict) and not prev_colon:
            t = [repr(float(Fraction(t["num"])))]
        res.append(t)
        prev_colon = t == ":"
    # adjacent labels would be read back as one token sequence with quotes doubling: separate by nothing,
    # so skip streams with adjacent labels/numbers
    return res


def _variant(rng, t):
    """a tree on the same tips: same topology re-arranged, or one subtree moved (different topology)"""
    import copy

    t = copy.deepcopy(t)
    r = rng.random()
    if r < 0.3:
        # same unrooted topology seen from another internal node (only meaningful for unrooted trees:
        # keeps the root degree >= 3 when the new root has >= 2 children)
        cands = [p for p, n in U.n_internal_paths(t) if p and len(n[2]) >= 2]
        if cands and len(t[2]) >= 3:
            t2 = U.n_reroot(t, rng.choice(cands))
            if set(U.n_tips(t2)) == set(U.n_tips(t)) and len(t2[2]) >= 3:
                return t2, "rerooted"
    if r < 0.45:
        def shuffle(x):
            rng.shuffle(x[2])
            for c in x[2]:
                shuffle(c)
        shuffle(t)
        return t, "same"
    nodes = [(p, n) for p, n in U.n_internal_paths(t) if p]
    if len(nodes) < 3:
        return t, "same"
    # prune a random non-root node and regraft it into another node's child list
    p, n = rng.choice(nodes)
    parent = t
    for i in p[:-1]:
        parent = parent[2][i]
    if len(parent[2]) <= 2 and len(p) > 1:
        return t, "same"
    if len(parent[2]) <= (2 if len(p) > 1 else 3):
        return t, "same"
    del parent[2][p[-1]]
    targets = [m for q, m in U.n_internal_paths(t) if m[2] and m is not n]
    tgt = rng.choice(targets)
    tgt[2].insert(rng.randint(0, len(tgt[2])), n)
    return t, "moved"


def _real_treedist(a, b, method):
    try:
        return int(a.tree_distance(b, method=method))
    except ValueError:
        return {"err": "ValueError"}


def _corr_treedist(ctx, out, rng, small):
    pairs = []
    for _ in range(ctx.budget(500, 15000)):
        if rng.random() < 0.25:
            t = rng.choice(small)
        else:
            t, _m = _gen_tree(rng, positive=True, odd=False)
        r = rng.random()
        if r < 0.12:
            t2, _m = _gen_tree(rng, positive=True, odd=False)  # unrelated tips: ValueError
        else:
            t2, _k = _variant(rng, t)
            if rng.random() < 0.3:
                t2, _k = _variant(rng, t2)
        pairs.append((t, t2))
    reps = ctx.driver.batch([("treedist", dict(a=U.frac_json(a), b=U.frac_json(b))) for a, b in pairs])
    for (a, b), rep in zip(pairs, reps):
        out["evaluations"] += 1
        ra, rb = U.build_real(a), U.build_real(b)
        inp = dict(a=U.frac_json(a), b=U.frac_json(b))
        for key, method in (("rf", "rf"), ("rrf", "rooted_robinson_foulds"), ("urf", "unrooted_robinson_foulds")):
            real = _real_treedist(ra, rb, method)
            if real != rep[key]:
                add_failure(out, "corr", f"tree_distance({method}) differs", inp, rep[key], real, confirmed=False)
                break
        else:
            bump(out, "treedist", "err" if isinstance(rep["rf"], dict) else ("zero" if rep["rf"] == 0 else "positive"))
            if not isinstance(rep["urf"], dict) and rep["urf"] != rep["spec_urf"]:
                add_failure(out, "corr", "model unrootedRF differs from spec symDiffBip", inp, rep["spec_urf"], rep["urf"], confirmed=False)
            if not isinstance(rep["rf"], dict) and rep["rf"] > 0:
                out["nontrivial"].add("td:" + json.dumps(inp))


# --------------------------------------------------------------------------
# spec-level differential on the REAL code (also the failing-input search)
# --------------------------------------------------------------------------
NEW_TREE_OPS = {"rooted_at", "reroot_path", "rooted_with_tip", "unrooted", "copy", "deepcopy", "sorted", "subtree", "midpoint", "newick", "json"}


def _oracle_prune(t, names, keep_root, tipsonly):
    """restriction of the nested tree to the named nodes, single-child nodes merged (classification only)"""

    def go(x, top):
        if x[0] in names and (not tipsonly or not x[2]):
            return x
        kids = [k for k in (go(c, False) for c in x[2]) if k is not None]
        if not kids:
            return None
        if len(kids) == 1 and not (top and keep_root):
            c = kids[0]
            ln = None if (x[1] is None or c[1] is None) else x[1] + c[1]
            return [c[0], ln, c[2]]
        return [x[0], x[1], kids]

    return go(t, True)


def _collapsed_clade(nested):
    """tips of the clade whose stem edge `unrooted()` removes (None when unrooted() is a plain copy)"""
    if len(nested[2]) >= 3:
        return None
    for c in nested[2]:
        if c[2]:
            return set(U.n_tips(c))
    return None


def _classify(t_nested, op, bad_pairs=None):
    """narrow class of a failure of `op` on `t_nested` (part of the signature)"""
    k = op[0]
    if k in ("json", "newick"):
        names = [n[0] for _, n in U.n_internal_paths(t_nested)]
        if any(nm.startswith("'") for nm in names):
            return "leading-quote-name"
        if any(nm in ("(", ")", ",", ":", ";", "[") for nm in names):
            return "punct-name"
        if any(ch in nm for nm in names for ch in "[]'\"(),:;"):
            return "metachar-name"
        return "plain-names"
    if k in ("unrooted", "subtree"):
        src = t_nested
        if k == "subtree":
            if len(t_nested[2]) <= 2:
                return "no-reunrooting"
            src = _oracle_prune(t_nested, set(op[1]), op[3], op[4])
            if src is None:
                return "other"
        clade = _collapsed_clade(src)
        if clade is None:
            return "no-collapse"
        if bad_pairs is not None and all(a in clade and b in clade for a, b, *_ in bad_pairs):
            return "within-collapsed-clade"
        return "collapse-other-pairs"
    return "any"


def _count(snap):
    return 1 + sum(_count(c) for c in snap[5])


MUST_NOT_RAISE = {"newick", "json", "copy", "deepcopy", "unrooted", "sorted", "midpoint"}


def _check_step(out, t_nested, tree, op, inp):
    """apply op to the real `tree` (whose nested form is t_nested); check the property for this step.
    returns (new real tree or None, error name or None)"""
    before = U.snapshot(tree)
    want_d = U.oracle_dists(t_nested)
    k = op[0]
    try:
        res = _apply_real(tree, op)
    except Exception as e:  # noqa: BLE001
        after = U.snapshot(tree)
        if after != before:
            _fail(out, f"{k} raised and modified its argument", inp, "argument unmodified", U.snapshot_diff(before, after), f"mutated-on-raise:{k}")
        if k in MUST_NOT_RAISE:
            _fail(out, f"{k} raised {type(e).__name__} on a valid tree", inp, "a tree", repr(e)[:200], f"raised:{k}:{_classify(t_nested, op)}")
        return None, _errname(e)
    after = U.snapshot(tree)
    if after != before:
        cls = "node-inserted" if _count(after) == _count(before) + 1 else "other"
        _fail(out, f"{k} modified the tree it was called on", inp, "argument unmodified", U.snapshot_diff(before, after), f"mutated:{k}:{cls}")
    got_nested = U.real_nested(res)
    tips_before = U.n_tips(t_nested)
    got_tips = list(res.get_tip_names())
    if k == "subtree":
        want_tips = set(x for x in tips_before if x in set(op[1])) if op[4] else set(_kept_tips(t_nested, set(op[1])))
    else:
        want_tips = set(tips_before)
    if set(got_tips) != want_tips or len(got_tips) != len(want_tips):
        _fail(out, f"tip set changed by {k}", inp, sorted(want_tips), sorted(got_tips), f"tips:{k}:{_classify(t_nested, op)}")
        return res, None
    # unrooted topology among retained tips
    want_b = U.oracle_bips(t_nested, keep=want_tips)
    got_b = U.oracle_bips(got_nested)
    if want_b != got_b:
        _fail(out, f"unrooted topology changed by {k}", inp, sorted(sorted(map(sorted, b)) for b in want_b), sorted(sorted(map(sorted, b)) for b in got_b), f"topology:{k}:{_classify(t_nested, op)}")
        return res, None
    # every tip-to-tip path length
    got_d = res.get_distances()
    bad = []
    for (a, b), v in want_d.items():
        if a in want_tips and b in want_tips:
            g = got_d.get((a, b))
            if g is None or Fraction(float(g)) != v:
                bad.append((a, b, str(v), None if g is None else str(Fraction(float(g)))))
    if bad:
        _fail(
            out, f"tip-to-tip path length changed by {k}", dict(inp, pairs=bad[:4]),
            [b[2] for b in bad[:4]], [b[3] for b in bad[:4]], f"dist:{k}:{_classify(t_nested, op, bad)}",
        )
    return res, None


def _kept_tips(t, names):
    def go(x, inside):
        inside = inside or x[0] in names
        if not x[2]:
            return [x[0]] if inside else []
        r = []
        for c in x[2]:
            r += go(c, inside)
        return r

    return go(t, False)


def _meta_names(t):
    return any(ch in nm for _, n in U.n_internal_paths(t) for nm in [n[0]] for ch in "[]'\"(),:;")


def spec_check(ctx, budget):
    out = new_outcome(
        "REAL cogent3 vs independent oracle: for every step of a chain (depth 1-4) of newick/JSON round-trip, copy, "
        "deepcopy, rooted_at, rooted_with_tip, root_at_midpoint, unrooted, sorted, get_sub_tree on random trees "
        "(3-25 tips, positive dyadic lengths, quoted-character names) and all shapes on 3-5 tips x every new root / tip: "
        "tip set, bipartition set among retained tips, every tip-to-tip path length (exact), argument unmodified "
        "(deep snapshot); witnesses of repaired defects replayed first.  Every tree-to-tree comparison (tree_distance with all "
        "method names, lin_rajan_moret(), compare_by_subsets/_names/_tip_distances, subsets, node.distance) on pairs with "
        "different degrees of resolution (cluster-count gap 0..3+, polytomies, reordered children, other root for unrooted), "
        "both argument orders: symmetric, zero iff same topology, equal to split-set / exact assignment (DP) computations.  "
        "Pruning through every route (get_sub_tree x tipsonly x keep_root x ignore_missing, remove_deleted+prune, "
        "remove/remove_node+prune, prune on single-child nodes) for whole nested clades, all tip children, all but one child, "
        "root-becomes-unary and random subsets; copy/deepcopy/copy_topology, bifurcating/multifurcating/unrooted, LCA queries, "
        "edge vector, tip_to_tip_distances, max distances, set_tip_distances, scale_branch_lengths, get_newick in all 16 flag "
        "combinations read back by make_tree(underscore_unmunge=True/False), write/load_tree for .nwk/.tree/.json/.xml.  "
        "COMPOSITIONS (c09_compose): every transformation (rooted_at, rooted_with_tip, root_at_midpoint, unrooted, unrooted_deepcopy, "
        "bifurcating +name_unnamed, multifurcating, prune, get_sub_tree, sorted, copy, deepcopy) and random pairs of them, followed by EVERY "
        "serialisation round trip (get_newick x with_distances x escape_name x with_node_names x semicolon -> make_tree, to_json / to_rich_dict -> "
        "deserialise_object, write -> load_tree for .nwk/.tree/.json/.xml/format=json), trees built through make_tree on an independent writer's "
        "text or through TreeBuilder, one adversarial name class per tree; oracle by tip names: tips, bipartitions, exact path lengths, node names "
        "stay pairwise distinct; label lists with repeats / generated-name collisions through make_tree and load_tree (names pairwise distinct, "
        "shape and lengths kept, name = label + numeric suffix); 160 small trees whose names are all adversarial through the newick round trips.  "
        "non-trivial = distinct (tree, chain/route) whose result differs from the input"
    )
    rng = ctx.subrng(f"spec{budget}")
    small = U.exhaustive_small_trees()
    cases = []
    # witnesses of repaired defects (status "fixed" in known_findings.d/C09.json) are replayed first:
    # they are never matched as known findings, so a regression is a VIOLATION whose replay is the old witness
    for w in _fixed_witnesses():
        if "ops" in w:
            # chain-style witness: runs as the first cases of the chain check below
            cases.append((U.unfrac_json(w["tree"]), [list(o) for o in w["ops"]]))
        else:
            # route-style witness (tree pair / pruning / query-io): same code path as check_witness
            out["evaluations"] += 1
            f = _replay_input(w)
            if f:
                _fail(out, f["what"], f["input"], f["expected"], f["got"], f["sig"])
    if budget >= 1:
        step = 1 if budget >= 8 else max(1, 4 // budget)
        for t in small[::step]:
            tips = U.n_tips(t)
            for p, n in U.n_internal_paths(t):
                if p and n[2]:
                    cases.append((t, [["rooted_at", n[0]]]))
                if not n[2]:
                    cases.append((t, [["rooted_with_tip", n[0]]]))
            for op in (["unrooted"], ["midpoint"], ["sorted", []], ["newick"], ["json"], ["copy"]):
                cases.append((t, [op]))
            cases.append((t, [["subtree", tips[:-1], False, False, True]]))
            cases.append((t, [["subtree", tips[1:], False, False, True]]))
    for _ in range(350 * budget):
        t, meta = _gen_tree(rng, positive=True)
        cases.append((t, None))
    # names that consist of a single newick punctuation character (printable names are in the property's domain)
    for ch in "(),:;[]"[: (7 if budget >= 1 else 0)]:
        t = ["", None, [[ch, Fraction(1), []], ["cc", Fraction(2), []], ["dd", Fraction(3), [["ee", Fraction(1), []], ["ff", Fraction(5, 2), []]]]]]
        cases.append((t, [["newick"]]))
        cases.append((t, [["json"]]))
    for t, ops in cases:
        tree = U.build_real(t)
        nested = U.real_nested(tree)
        chain = []
        depth = len(ops) if ops is not None else rng.randint(1, 4)
        for i in range(depth):
            op = ops[i] if ops is not None else _rand_op(rng, nested, corr=False)
            if op[0] == "subtree":
                # the property is about pruning to a subset of tips of the tree
                op = ["subtree", [x for x in op[1] if x != "not there"], False, op[3], op[4]]
                if len(op[1]) < 2:
                    continue
            if op[0] in ("rooted_at", "rooted_with_tip") and op[1] in ("no such node", "missing"):
                continue
            chain.append(op)
            out["evaluations"] += 1
            inp = dict(tree=U.frac_json(t), ops=list(chain))
            nf = len(out["failures"])
            res, err = _check_step(out, nested, tree, op, inp)
            bump(out, "spec_op", op[0] + (":" + err if err else ""))
            if res is None or len(out["failures"]) > nf:
                # after a violation the oracle of later steps would only repeat it
                break
            new_nested = U.real_nested(res)
            if new_nested != nested:
                out["nontrivial"].add(json.dumps([U.frac_json(t), chain]))
            tree, nested = res, new_nested
            if len(U.n_tips(nested)) < 3 or len(nested[2]) < 2:
                break
        bump(out, "spec_ntips", len(U.n_tips(t)))
        if len(out["samples"]) < 4 and len(chain) >= 3 and len(U.n_tips(t)) <= 6:
            out["samples"].append(dict(tree=U.frac_json(t), ops=chain))
    R.spec_tree_comparisons(ctx, out, rng, small, budget, _fail)
    R.spec_prune_routes(ctx, out, rng, small, budget, _fail)
    R.spec_queries_io(ctx, out, rng, small, budget, _fail)
    R.spec_nonunique_internal(ctx, out, rng, small, budget, _fail)
    C.spec_compositions(ctx, out, ctx.subrng(f"compose{budget}"), small, budget, _fail)
    return out


def _fixed_witnesses():
    from .common import VERIF

    fp = VERIF / "known_findings.d" / "C09.json"
    if not fp.exists():
        return []
    res = []
    for f in json.loads(fp.read_text()).get("findings", []):
        if f.get("property") == "C09" and f.get("status") == "fixed" and "witness" in f:
            res.append(f["witness"])
    return res


# --------------------------------------------------------------------------
# findings
# --------------------------------------------------------------------------
def match_finding(f, k):
    """signatures already carry the narrow class (op, manifestation, cause class); the composition check
    has one signature per (transformation chain, serialisation route, name class), so a finding may
    describe its class of signatures by full-match regular expressions (`sig_regex`)"""
    sig = f.get("sig") or ""
    if sig in k.get("sigs", []):
        return True
    return any(re.fullmatch(p, sig) for p in k.get("sig_regex", []))


def _replay_input(inp):
    out = new_outcome()
    if inp.get("compose") or inp.get("labels") or inp.get("names"):
        import tempfile
        from pathlib import Path

        with tempfile.TemporaryDirectory(prefix="verif_C09_replay_") as d:
            C.replay_input(out, _fail, inp, Path(d))
        want = inp.get("sig")
        for f in out["failures"]:
            if want is None or f["sig"] == want:
                return f
        return None
    if "a" in inp or "ops" not in inp:
        return _replay_route(inp)
    t = U.unfrac_json(inp["tree"])
    tree = U.build_real(t)
    nested = U.real_nested(tree)
    ops = inp["ops"]
    for i, op in enumerate(ops):
        if i == len(ops) - 1:
            _check_step(out, nested, tree, op, dict(tree=inp["tree"], ops=ops))
            break
        tree = _apply_real(tree, op)
        nested = U.real_nested(tree)
    return out["failures"][0] if out["failures"] else None


def _replay_route(inp):
    """re-run the route checks on the recorded input (tree pairs / pruning / io routes)"""
    import random

    class _Ctx:
        pass

    out = new_outcome()
    rng = random.Random(0)
    if "a" in inp:
        ta, tb = U.unfrac_json(inp["a"]), U.unfrac_json(inp["b"])
        a, b = U.build_real(ta), U.build_real(tb)
        rooted = len(ta[2]) == 2
        for m in R.ROOTED_METHODS if rooted else R.UNROOTED_METHODS:
            try:
                d1, d2 = a.tree_distance(b, method=m), b.tree_distance(a, method=m)
            except ValueError:
                continue
            want = R._independent(m, rooted, ta, tb)
            if d1 != d2 or (want not in (None, "unequal") and int(d1) != want):
                print("tree_distance", m, "a->b", d1, "b->a", d2, "independent", want)
                return dict(what="tree distance", expected=want, got=[d1, d2])
        R._other_comparisons(out, a, b, ta, tb, rooted, inp, _fail)
        return out["failures"][0] if out["failures"] else None
    if "tree" in inp:
        import tempfile
        from pathlib import Path

        t = U.unfrac_json(inp["tree"])
        if "built" in inp:
            R.nonunique_case(out, _fail, t, inp["built"], rng)
        elif "keep" in inp:
            R.prune_case(out, _fail, t, inp.get("kind", "replay"), list(inp["keep"]), rng)
        else:
            with tempfile.TemporaryDirectory(prefix="verif_C09_replay_") as d:
                R.io_case(out, _fail, t, rng, Path(d), 0)
        want = inp.get("sig")
        for f in out["failures"]:
            if want is None or f["sig"] == want:
                return f
    return None


def check_witness(ctx, w):
    return _replay_input(w)


def replay(ctx, data):
    f = data.get("failing_input") or {}
    inp = f.get("input")
    if not inp:
        return False
    r = _replay_input(inp)
    if r:
        print(r["what"], "expected", r["expected"], "got", r["got"])
    return r is not None
