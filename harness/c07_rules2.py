"""C07 helpers: one parameter's settings scoped over edge x locus on a REAL multi-locus likelihood
function vs Model/ParamRules2.lean (driver command `rules2`, Driver/C07Rules2.lean).

After every `set_param_rule`: the exported rules of the parameter IN EXPORT ORDER, its number of free
parameters, which cells share a setting object, the exception class.  Then the REAL round trip
(`fresh.apply_param_rules(rules of the parameter)`) vs the model's, and the model's `order_sound` flag vs
whether the real round trip reproduced rules, nfp and sharing (both directions: the tie of the exactness
claim `rules_roundtrip_2d_iff`).  A real round trip that does not reproduce the state is NOT reported here
(that is the open finding C07-param-rules-order-multidim-scopes); only model-vs-code disagreements are."""
from __future__ import annotations

from fractions import Fraction

from .c07_lf import TAXA_SETS, _Quiet, new_lf
from .common import add_failure, bump

# (model, parameter, loci); every rate parameter has valid_dimensions ('edge', 'bin', 'locus'), one bin
CONFIGS = [
    ("HKY85", "kappa", ["a", "b"]),
    ("HKY85", "kappa", ["a", "b", "c"]),
    ("GTR", "A/G", ["a", "b"]),
    ("GTR", "A/G", ["a", "b", "c"]),
    ("HKY85", "kappa", ["a"]),  # one locus: the locus dimension is dropped from the export (`discard`)
]
GRID = [0.125, 0.25, 0.5, 0.75, 1.0, 1.5, 2.0, 3.0, 6.0]


def make(cfg, taxa_idx, indep):
    """a new function; indep=True flips `independent_by_default` of THIS parameter definition (instance
    attribute) and re-assigns every cell on its own, which is what a definition that is independent by
    default starts with (no real scalar parameter with two scope dimensions is independent by default;
    this ties the `indepDefault` arm of the model to the real assign / export code)"""
    model, par, loci = cfg
    lf = new_lf(dict(model=model, loci=list(loci), taxa=taxa_idx, aln0=0))
    if indep:
        lf.defn_for[par].independent_by_default = True
        with _Quiet():
            lf.set_param_rule(par)
    return lf


def setup(cfg, taxa_idx, indep):
    model, par, loci = cfg
    lf = new_lf(dict(model=model, loci=list(loci), taxa=taxa_idx, aln0=0))
    edges = sorted(n for n in lf.tree.get_node_names() if n != "root")
    loci = sorted(lf.locus_names)
    with _Quiet():
        r0 = [r for r in lf.get_param_rules() if r["par_name"] == par][0]
    d = dict(nE=len(edges), nL=len(loci), lo=r0["lower"], val=r0["init"], hi=r0["upper"], indep=bool(indep))
    if indep:
        lf = make(cfg, taxa_idx, True)
    return lf, edges, loci, d


def _rand_dim(rng, n):
    r = rng.random()
    if r < 0.3:
        return None
    if r < 0.75:
        return sorted(rng.sample(range(n), rng.randint(1, n)))
    return [rng.randrange(n)]


def rand_op(rng, nE, nL):
    op = {}
    es, ls = _rand_dim(rng, nE), _rand_dim(rng, nL)
    if es is not None:
        op["edges"] = es
    if ls is not None:
        op["loci"] = ls
    if rng.random() < 0.4:
        op["is_independent"] = rng.random() < 0.4
    v = rng.choice(GRID)
    m = rng.random()
    if m < 0.25:
        op["is_constant"] = True
        if rng.random() < 0.8:
            op["value"] = v
    elif m < 0.6:
        op["init"] = v
    elif m < 0.7:
        pass  # neither value nor init: keeps / averages the current values
    else:
        if rng.random() < 0.7:
            op["init"] = v
        if rng.random() < 0.6:
            op["lower"] = rng.choice([0.125, 0.25, 0.5, 1.0])
        if rng.random() < 0.6:
            op["upper"] = rng.choice([0.75, 1.0, 2.0, 4.0, 8.0])
    # malformed: constant with bounds / init and value / unknown category / repeated category (twice or
    # three times: accepted or not depending on how many categories the OTHER dimension selects) /
    # empty lists (= whole dimension) / upper < lower / falsy zeros that slip through the asserts
    z = rng.random()
    if z < 0.03:
        op["is_constant"] = True
        op["lower"] = 0.5
    elif z < 0.05:
        op["init"] = 1.0
        op["value"] = 2.0
    elif z < 0.08:
        k, n = rng.choice([("edges", nE), ("loci", nL)])
        op[k] = sorted(set(op.get(k, [])) | {n + rng.randrange(2)})
    elif z < 0.16:
        k, n = rng.choice([("edges", nE), ("loci", nL)])
        cs = list(op.get(k) or [rng.randrange(n)])
        c = rng.choice(cs)
        for _ in range(rng.choice([1, 1, 2, 3])):
            cs.insert(rng.randrange(len(cs) + 1), c)
        op[k] = cs
    elif z < 0.18:
        op[rng.choice(["edges", "loci"])] = []
    elif z < 0.21:
        op.pop("is_constant", None)
        op.pop("value", None)
        op["lower"] = rng.choice([2.0, 4.0])
        op["upper"] = rng.choice([0.5, 1.0])
    elif z < 0.24:
        if op.get("is_constant"):
            op[rng.choice(["init", "lower", "upper"])] = 0.0
        elif "init" in op:
            op["value"] = 0.0
    return op


def _cats(r, single, plural, idx):
    cs = r.get(plural, r.get(single))
    if cs is None:
        return None
    if isinstance(cs, str):
        cs = [cs]
    return sorted(idx[c] for c in cs)


def classes_of(lf, par, edges, loci):
    """which cells share a setting OBJECT (edge major, locus minor), numbered by first appearance"""
    defn = lf.defn_for[par]
    dims = list(defn.valid_dimensions)
    some_key = next(iter(defn.assignments))
    seen, out = {}, []
    for e in edges:
        for l in loci:
            key = tuple(e if dn == "edge" else l if dn == "locus" else some_key[i] for i, dn in enumerate(dims))
            out.append(seen.setdefault(id(defn.assignments[key]), len(seen)))
    return out


def canon_classes(ids):
    seen = {}
    return [seen.setdefault(i, len(seen)) for i in ids]


def observe(lf, par, edges, loci):
    """exported rules of the parameter IN ORDER (categories as indices), nfp, sharing pattern"""
    eidx = {e: i for i, e in enumerate(edges)}
    lidx = {l: i for i, l in enumerate(loci)}
    with _Quiet():
        rules = [r for r in lf.get_param_rules() if r["par_name"] == par]
    out = []
    for r in rules:
        out.append(dict(
            edges=_cats(r, "edge", "edges", eidx),
            loci=_cats(r, "locus", "loci", lidx),
            is_independent=r.get("is_independent"),
            is_constant=bool(r.get("is_constant", False)),
            value=None if "value" not in r else float(r["value"]),
            init=None if "init" not in r else float(r["init"]),
            lower=None if r.get("lower") is None else float(r["lower"]),
            upper=None if r.get("upper") is None else float(r["upper"]),
        ))
    return dict(rules=out, nfp=lf.defn_for[par].get_num_free_params(), classes=classes_of(lf, par, edges, loci)), rules


def model_snap(m):
    f = lambda x: None if x is None else float(Fraction(*map(int, x.split("/"))))
    rules = [dict(edges=r["edges"], loci=r["loci"], is_independent=r["is_independent"], is_constant=r["is_constant"],
                  value=f(r["value"]), init=f(r["init"]), lower=f(r["lower"]), upper=f(r["upper"])) for r in m["rules"]]
    return dict(rules=rules, nfp=m["nfp"], classes=canon_classes(m["classes"]))


def rules_close(a, b, rtol=1e-12):
    """same rules in the SAME ORDER"""
    if len(a) != len(b):
        return False
    for x, y in zip(a, b):
        for k in ("edges", "loci", "is_independent", "is_constant"):
            if x[k] != y[k]:
                return False
        for k in ("value", "init", "lower", "upper"):
            if (x[k] is None) != (y[k] is None):
                return False
            if x[k] is not None and abs(x[k] - y[k]) > rtol * max(1.0, abs(x[k]), abs(y[k])):
                return False
    return True


def snaps_close(a, b):
    return rules_close(a["rules"], b["rules"]) and a["nfp"] == b["nfp"] and a["classes"] == b["classes"]


def apply_real(lf, par, edges, loci, op, rng=None):
    kw = {k: v for k, v in op.items() if k not in ("edges", "loci")}
    if "edges" in op:
        es = [edges[i] if i < len(edges) else f"no_such_edge_{i}" for i in op["edges"]]
        if len(es) == 1 and rng is not None and rng.random() < 0.5:
            kw["edge"] = es[0]
        else:
            kw["edges"] = es
    if "loci" in op:
        ls = [loci[i] if i < len(loci) else f"no_such_locus_{i}" for i in op["loci"]]
        if len(ls) == 1 and rng is not None and rng.random() < 0.5:
            kw["locus"] = ls[0]
        else:
            kw["loci"] = ls
    try:
        with _Quiet():
            lf.set_param_rule(par, **kw)
        return None
    except Exception as e:  # noqa
        return type(e).__name__


def to_req(d, ops):
    from .common import rat

    def rq(op):
        o = dict(op)
        for k in ("value", "init", "lower", "upper"):
            if k in o:
                o[k] = rat(o[k])
        return o

    return dict(nE=d["nE"], nL=d["nL"], lo=rat(d["lo"]), val=rat(d["val"]), hi=rat(d["hi"]), indep=d["indep"],
                ops=[rq(o) for o in ops])


def run_real(cfg, taxa_idx, indep, ops, rng=None):
    """the history and the round trip on the real code"""
    model, par, loci0 = cfg
    lf, edges, loci, d = setup(cfg, taxa_idx, indep)
    init, _ = observe(lf, par, edges, loci)
    steps = []
    for op in ops:
        err = apply_real(lf, par, edges, loci, op, rng)
        o, _ = observe(lf, par, edges, loci)
        steps.append(dict(err=err, **o))
    final, raw_rules = observe(lf, par, edges, loci)
    fresh = new_lf(dict(model=model, loci=list(loci0), taxa=taxa_idx, aln0=0))
    if indep:
        fresh.defn_for[par].independent_by_default = True
    try:
        with _Quiet():
            fresh.apply_param_rules(raw_rules)
        rt, _ = observe(fresh, par, edges, loci)
    except Exception as e:  # noqa
        rt = dict(err=type(e).__name__)
    return d, init, steps, final, rt


def box_cases():
    """every single-rule history on HKY85 / (Dog,Cat,Horse) / loci a,b: edge subset x locus subset x
    is_independent in {None, True}, one value"""
    from itertools import combinations

    subsets = lambda n: [None] + [list(c) for k in range(1, n + 1) for c in combinations(range(n), k)]
    for es in subsets(3):
        for ls in subsets(2):
            for ind in (None, True):
                op = dict(init=3.0)
                if es is not None:
                    op["edges"] = es
                if ls is not None:
                    op["loci"] = ls
                if ind is not None:
                    op["is_independent"] = ind
                yield (CONFIGS[0], 2, False, [op])
    # every ordered pair of single cells carved out of the shared default (the shape of the open finding:
    # whether the round trip works depends on where the carved cells sort)
    cells = [(e, l) for e in range(3) for l in range(2)]
    for e1, l1 in cells:
        for e2, l2 in cells:
            yield (CONFIGS[0], 2, False, [dict(edges=[e1], loci=[l1], init=3.0),
                                          dict(edges=[e2], loci=[l2], is_constant=True, value=2.0)])


def corr_rules2(ctx, out):
    """REAL multi-locus likelihood functions vs Model/ParamRules2.lean (see module docstring)"""
    rng = ctx.subrng("corr-rules2")
    cases = list(box_cases())
    for _ in range(ctx.budget(70, 1500)):
        cfg = CONFIGS[4] if rng.random() < 0.1 else rng.choice(CONFIGS[:4])
        taxa_idx = rng.randrange(len(TAXA_SETS))
        indep = rng.random() < 0.25
        lf_n = (len(TAXA_SETS[taxa_idx][0]) * 2 - 3, len(cfg[2]))
        ops = [rand_op(rng, *lf_n) for _ in range(rng.randint(1, 7))]
        cases.append((cfg, taxa_idx, indep, ops))
    reqs, reals = [], []
    for cfg, taxa_idx, indep, ops in cases:
        d, init, steps, final, rt = run_real(cfg, taxa_idx, indep, ops, rng)
        reqs.append(("rules2", to_req(d, ops)))
        reals.append((cfg, taxa_idx, d, ops, init, steps, final, rt))
    for (cfg, taxa_idx, d, ops, init, steps, final, rt), m in zip(reals, ctx.driver.batch(reqs)):
        out["evaluations"] += 1
        inp = dict(kind="rules2", model=cfg[0], par=cfg[1], loci=cfg[2], taxa=taxa_idx, defn=d, ops=ops)
        if "error" in m:
            add_failure(out, "corr", "rules2 model: driver error", inp, None, m, confirmed=False)
            continue
        bump(out, "rules2_cfg", f"{cfg[0]}:{d['nE']}x{d['nL']}:{'indep' if d['indep'] else 'shared'}")
        mi = model_snap(m["init"])
        if not snaps_close(init, mi):
            add_failure(out, "corr", "rules2: newly built function differs from the model's fresh state",
                        dict(inp, ops=[]), mi, init, confirmed=False)
            continue
        ok = True
        for i, (a, b) in enumerate(zip(steps, m["steps"])):
            bump(out, "rules2_step", "raises:" + a["err"] if a["err"] else "ok")
            if a["err"] or "err" in b:
                if (a["err"] or None) != b.get("err"):
                    add_failure(out, "corr", "rules2: set_param_rule raises differently from the model",
                                dict(inp, ops=ops[: i + 1]), b.get("err"), a["err"], confirmed=False)
                    ok = False
                    break
                continue
            mb = model_snap(b)
            if not snaps_close(a, mb):
                add_failure(out, "corr", "rules2: exported rules (in order) / nfp / sharing differ from the model",
                            dict(inp, ops=ops[: i + 1]), mb, {k: a[k] for k in ("rules", "nfp", "classes")},
                            confirmed=False)
                ok = False
                break
        if not ok:
            continue
        mrt = m["roundtrip"]
        if "err" in mrt or "err" in rt:
            if mrt.get("err") != rt.get("err"):
                add_failure(out, "corr", "rules2: round trip raises differently from the model", inp, mrt, rt,
                            confirmed=False)
            continue
        if not snaps_close(rt, model_snap(mrt)):
            add_failure(out, "corr", "rules2: round trip of the exported rules on a new function differs from the "
                        "model's", inp, model_snap(mrt), rt, confirmed=False)
            continue
        # exactness: the real round trip reproduces rules, nfp and sharing  <=>  the model's OrderSound
        real_ok = snaps_close(rt, final)
        bump(out, "rules2_order", ("sound" if m["order_sound"] else "unsound") + (":rect" if m["all_rect"] else ""))
        if real_ok != m["order_sound"]:
            add_failure(out, "corr", "rules2: OrderSound of the model disagrees with whether the real round trip "
                        "reproduced the state", inp, dict(order_sound=m["order_sound"]),
                        dict(real_roundtrip_ok=real_ok, final=final, roundtrip=rt), confirmed=False)
            continue
        if not real_ok:
            # the open finding; how visible is it?
            bump(out, "rules2_unsound_seen_by",
                 "nfp" if rt["nfp"] != final["nfp"] else
                 "rules" if not rules_close(rt["rules"], final["rules"]) else "sharing-only")
        bump(out, "rules2_ngroups", len(final["rules"]))
        if len(final["rules"]) > 1:
            out["nontrivial"].add(("rules2", len(out["nontrivial"])))
            n_same = sum(1 for x in out["samples"] if x.get("kind") == "rules2" and x["order_sound"] == m["order_sound"])
            if n_same < 3:
                out["samples"].append(dict(inp, order_sound=m["order_sound"], n_rules=len(final["rules"]),
                                           nfp=final["nfp"], roundtrip_nfp=rt["nfp"]))
