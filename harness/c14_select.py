"""C14 wave 3 — behavioural tie of the TRANSLATED selection of `_apply_to` / `_proxy_input` (lean/CogentModel/Gen/C14Select.lean, driver
command `select_gen`) against the real `apply_to`.

Every case runs the real loader + write_json composition serially over a list that mixes plain path strings, `DataMember`s of an input
data store (for which `_apply_to` hands `Path(m.unique_id)` to id_from_source) and, sometimes, one falsy element (''), with a
caller-supplied id_from_source that (a) answers differently for a Path / DataMember and for a str, (b) is not injective in some cases,
over a fresh output store or one pre-filled by a first run; plus the empty list.  Observed: the exception text, or the identifiers in the
order the writer received them.  Expected: the same from the translated definitions (`err` = "<Exc>: <literal message>", `sel` = the
submitted elements in order, each one wrapped in a proxy).
"""
from __future__ import annotations

from pathlib import Path

from .common import add_failure, bump


def _real(ctx, tag, elems, dm, alias_s, alias_p, outdir=None, mode="w"):
    """elems: member numbers, 0 = the falsy element ''"""
    from cogent3.app.data_store import DataMember, DataStoreDirectory
    from cogent3.app.io import write_json

    from . import c14_apps as A
    from .c14 import _ident

    base = ctx.scratch / f"c14_sel_{tag}"
    indir = base / "in"
    indir.mkdir(parents=True, exist_ok=True)
    for m in elems:
        if m:
            (indir / f"{_ident(m)}.txt").write_text("x")
    members = {}
    if dm:
        inp = DataStoreDirectory(indir, mode="r", suffix="txt")
        members = {A.member_index(x.unique_id): x for x in inp.completed}

    def id_from_source(src):
        if isinstance(src, (Path, DataMember)):
            return f"k{alias_p[A.member_index(getattr(src, 'unique_id', src))]}"
        if not src:
            return "k0"
        return f"k{alias_s[A.member_index(src)]}"

    inputs = ["" if m == 0 else members[m] if m in dm else str(indir / f"{_ident(m)}.txt") for m in elems]
    outdir = outdir or str(base / "out")
    ds = DataStoreDirectory(outdir, mode=mode, suffix="json")
    writer = write_json(data_store=ds)
    app = A.c14_load() + writer
    order, orig = [], writer.main

    def main(*a, **kw):
        order.append(kw.get("identifier"))
        return orig(*a, **kw)

    writer.main = main
    exc = None
    try:
        app.apply_to(inputs, id_from_source=id_from_source, logger=False, show_progress=False)
    except Exception as e:  # noqa
        exc = f"{type(e).__name__}: {e}"[:200]
    stored = sorted(str(m.unique_id) for m in ds.completed)
    return dict(exc=exc, order=order, outdir=outdir, stored=stored)


def corr_select_gen(ctx, out):
    rng = ctx.subrng("select_gen")
    jobs = []
    n_cases = ctx.budget(14, 120)
    for i in range(n_cases):
        if i == 0:
            ms = []
        else:
            ms = rng.sample(range(1, 30), rng.randint(1, 6))
        dm = {m for m in ms if rng.random() < 0.4}
        dup = i % 3 == 1
        alias_s = {m: (rng.choice(ms) if dup and rng.random() < 0.35 else m) for m in ms}
        alias_p = {m: 100 + (rng.choice(ms) if dup and rng.random() < 0.35 else m) for m in ms}
        elems = list(ms)
        if ms and i % 4 == 2:
            elems.insert(rng.randint(0, len(ms)), 0)  # a falsy element
        ident = lambda m: 0 if m == 0 else (alias_p[m] if m in dm else alias_s[m])  # noqa: E731
        pre, store = None, []
        if len(ms) >= 2 and rng.random() < 0.5:
            first = [m for m in ms if rng.random() < 0.5]
            if first and len({ident(m) for m in first}) == len(first):
                pre = _real(ctx, f"{i}", first, dm, alias_s, alias_p)
                store = [ident(m) for m in first]
        res = _real(ctx, f"{i}", elems, dm, alias_s, alias_p, outdir=pre["outdir"] if pre else None, mode="a" if pre else "w")
        jobs.append(dict(elems=elems, dm=sorted(dm), alias_s=alias_s, alias_p=alias_p, store=store, res=res, ident=[ident(m) for m in elems]))
    reqs = [("select_gen", dict(ids_self=[[m, a] for m, a in j["alias_s"].items()], ids_path=[[m, a] for m, a in j["alias_p"].items()],
                                dm=j["dm"], falsy=[0], store=j["store"], inputs=j["elems"])) for j in jobs]
    for j, mr in zip(jobs, ctx.driver.batch(reqs)):
        out["evaluations"] += 1
        inp = dict(kind="select_gen", elements=j["elems"], data_members=j["dm"], identifiers=j["ident"], in_store=j["store"])
        res = j["res"]
        kinds = ("falsy-" if 0 in j["elems"] else "") + ("dm-" if j["dm"] else "") + ("resumed-" if j["store"] else "")
        if "err" in mr:
            bump(out, "select_gen", kinds + mr["err"].split(":")[0] + ":" + mr["err"].split(": ")[1][:10])
            if res["exc"] != mr["err"]:
                add_failure(out, "corr", "translated _apply_to selection raises but the real apply_to behaves differently", inp, mr["err"],
                            res["exc"] or res["order"], confirmed=False, sig="corr:select_gen:raise")
            else:
                out["nontrivial"].add(("select_gen", tuple(j["elems"]), "err"))
            continue
        bump(out, "select_gen", kinds + "selected")
        want = [f"k{j['ident'][j['elems'].index(m)]}" for _, m in mr["sel"]]
        if res["exc"] or res["order"] != want or not all(p for p, _ in mr["sel"]):
            add_failure(out, "corr", "translated _apply_to selection / _proxy_input: the real apply_to did not process exactly the elements the "
                        "translated code submits, in that order, under those identifiers", inp, want, res["exc"] or res["order"], confirmed=False,
                        sig="corr:select_gen:selection")
        elif len(want) < len(j["elems"]):
            out["nontrivial"].add(("select_gen", tuple(j["elems"]), "skipped"))
