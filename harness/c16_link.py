"""C16 x C07 link (theorem optimise_never_lowers_lnL): the REAL `Calculator.optimise` (real maximise,
scripted optimisers injected) on REAL toy calculators built from OptPar/EvaluatedCell graphs, vs the
COMPOSED models: drv_c16 `maximise` on the table of from-scratch values, whose call sequence is then
replayed as `calculator(x)` calls through drv_c07."""
from __future__ import annotations

import contextlib
import io
import warnings

from .common import Driver, add_failure, bump, lake_build


def _gen(rng):
    from . import c07_calc as cc

    while True:
        g = cc.rand_graph(rng, n_cells=rng.randint(3, 14))
        for c in g["cells"]:
            if c["k"] == "opt":
                c["add"] = 0
        g["cells"][-1]["rec"] = False  # the result cell is a scalar (maximise compares it)
        nopt = cc.n_opt_of(g)
        x0 = [rng.randint(0, 5) for _ in range(nopt)]
        if cc.fresh_python(g, x0) is not None:
            break
    lo, hi = 0, rng.choice([4, 5, 6])
    pts = [list(x0)]
    seen = {tuple(x0)}
    for _ in range(rng.randint(2, 9)):
        p = list(rng.choice(pts))
        for i in rng.sample(range(nopt), rng.randint(1, nopt)):
            p[i] = rng.randint(-1, hi + 1)  # some points outside the bounds
        if tuple(p) not in seen:
            seen.add(tuple(p))
            pts.append(p)
    nq = rng.choice([0, 1, 2, 3, 5, 8, 12])
    qs = []
    for _ in range(nq):
        r = rng.random()
        if qs and r < 0.25:
            qs.append(qs[-1])
        elif len(qs) > 1 and r < 0.5:
            qs.append(qs[-2])  # exact reversal: the calculator's undo path
        else:
            qs.append(rng.randrange(len(pts)))
    r = rng.random()
    me = None if r < 0.3 else rng.randint(1, nq + 2)
    local = rng.choice([True, False, None])
    split = rng.randint(0, nq) if local is None else None
    prior = [[rng.randint(lo, hi) for _ in range(nopt)] for _ in range(rng.randint(0, 4))]
    prior.append(list(x0))  # the calculator is handed over AT the start vector
    return dict(graph=g, x0=x0, lo=lo, hi=hi, pts=pts, qs=qs, max_evaluations=me, local=local, split=split, prior=prior)


def _run_real(case):
    import numpy

    from cogent3.maths import optimisers as O
    from cogent3.maths.optimisers import ParameterOutOfBoundsError

    from . import c07_calc as cc

    calc = cc.build_real(case["graph"], case["x0"], bounds=(case["lo"], case["hi"]))
    with contextlib.redirect_stdout(io.StringIO()):
        for v in case["prior"]:
            try:
                calc(list(v))
            except (ParameterOutOfBoundsError, ArithmeticError):
                pass
    pts, qs = case["pts"], case["qs"]
    if case["local"] is None:
        parts = {"G": qs[: case["split"]], "L": qs[case["split"] :]}
    elif case["local"]:
        parts = {"G": None, "L": qs}
    else:
        parts = {"G": qs, "L": None}

    def mk(tag):
        class Scripted:
            def __init__(self, *a, **kw):
                pass

            def maximise(self, fn, x, **kw):
                buf = numpy.array(x, float)
                for q in parts[tag]:
                    buf[:] = pts[q]
                    fn(buf)
                return buf

        return Scripted

    before = cc.snapshot(calc)
    n0 = calc.evaluations
    og, ol = O.GlobalOptimiser, O.LocalOptimiser
    O.GlobalOptimiser, O.LocalOptimiser = mk("G"), mk("L")
    exc = None
    try:
        with warnings.catch_warnings(), contextlib.redirect_stdout(io.StringIO()):
            warnings.simplefilter("ignore")
            try:
                calc.optimise(local=case["local"], max_evaluations=case["max_evaluations"], show_progress=False)
            except O.MaximumEvaluationsReached:
                exc = "MaximumEvaluationsReached"
            except ValueError:
                exc = "ValueError"
    finally:
        O.GlobalOptimiser, O.LocalOptimiser = og, ol
    after = cc.snapshot(calc)
    return dict(before=before["cur"][-1], exc=exc, last=after["last"], cur=after["cur"], n_calls=calc.evaluations - n0)


def corr_link(ctx, out):
    from . import c07_calc as cc
    from . import c16

    ok, msg = lake_build(["drv_c07"])
    if not ok:
        add_failure(out, "corr", "drv_c07 does not build (needed for the C16 x C07 link stream)", None, None, msg[-300:],
                    confirmed=False)
        return
    d07 = Driver("drv_c07")
    rng = ctx.subrng("link")
    cases = [_gen(rng) for _ in range(ctx.budget(400, 5000))]
    reqs16 = []
    for c in cases:
        res = []
        for p in c["pts"]:
            v = cc.fresh_python(c["graph"], p)
            res.append("oob" if v is None else float(v[-1]))
        d = len(c["x0"])
        reqs16.append(c16._model_req(dict(
            d=d, bounded=True, lower=[float(c["lo"])] * d, upper=[float(c["hi"])] * d,
            pts=[[float(v) for v in p] for p in c["pts"]], res=res, x0=0, qs=c["qs"],
            max_evaluations=c["max_evaluations"], local=c["local"], split=c["split"], scalar=False)))
    rep16 = ctx.driver.batch(reqs16)
    reqs07 = []
    for c, r in zip(cases, rep16):
        calls = r.get("calls", []) if isinstance(r, dict) else []
        ops = [["call", v] for v in c["prior"]] + [["call", c["pts"][i]] for i in calls]
        reqs07.append(("hist", dict(graph=c["graph"], x0=c["x0"], ops=ops)))
    rep07 = d07.batch(reqs07)
    for c, r16, r07 in zip(cases, rep16, rep07):
        out["evaluations"] += 1
        if "error" in r16 or "error" in r07 or r07.get("init") == "raises":
            add_failure(out, "corr", "link stream: driver error", c, None, dict(c16=r16, c07=r07), confirmed=False)
            continue
        real = _run_real(c)
        fin = r16["final"]
        kind = fin["kind"]
        steps = r07["steps"]
        model_last = steps[-1]["last"] if steps else r07["init"]["last"]
        model_cur = steps[-1]["cur"] if steps else r07["init"]["cur"]
        want_exc = None
        if kind == "ValueError":
            want_exc = "ValueError"
        elif kind == "raised" or (kind == "done" and fin["exc"] is not None):
            want_exc = (fin["exc"] if kind == "done" else fin["exc"])["exc"]
        want = dict(exc=want_exc, last=model_last, cur=model_cur, n_calls=len(r16["calls"]))
        got = dict(exc=real["exc"], last=real["last"], cur=real["cur"], n_calls=real["n_calls"])
        bump(out, "link_outcome", kind if want_exc is None else f"{kind}:{want_exc}")
        if want != got:
            add_failure(out, "corr", "Calculator.optimise on a real toy calculator differs from the composed "
                        "C16 maximise model + C07 calculator model", c, want, got, confirmed=False)
            continue
        if kind == "done":
            # the theorem's conclusion, on the real run
            xb = c["pts"][fin["x"]]
            fresh = cc.fresh_python(c["graph"], real["last"])
            if real["last"] != xb or fresh is None or fresh != real["cur"] or real["cur"][-1] < real["before"]:
                add_failure(out, "spec", "after Calculator.optimise the calculator is not at the reported optimum / "
                            "is not a fresh evaluation there / reports less than before",
                            dict(kind="link", **c), dict(xb=xb, before=real["before"], fresh=fresh),
                            dict(last=real["last"], cur=real["cur"]), sig="link:optimise-lowers-or-stale")
                continue
            if len(r16["calls"]) >= 3:
                out["nontrivial"].add(("link", len(out["nontrivial"])))
