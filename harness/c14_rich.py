"""C14 — ties of the translated / rich model (Gen/C14Call.lean, Model/CallRich.lean) to the real code.

  * `corr_rich`: app(x) on the real define_app machinery for the python values the plain model has no notion of — list / tuple / set
    data (typed by the first element, empty => "empty data"), source proxies handed in directly (bare, around a record, around a
    container), next to None / NotCompleted / plain records / path strings — against BOTH the hand model `chainR` and the composition
    of the TRANSLATED `_call` (`genChain`); full message texts are compared piecewise.
  * `corr_add`: `a0 + a1 + …` on real app instances (plain-typed, serialisable-typed, loaders, writers, a non-composable app, a
    non-app, an app that is already connected, an app added to itself) against `addR` / translated `_add` / `composeFrom`.
  * translated get_default_chunksize against the real function.
"""
from __future__ import annotations

import json

from .common import add_failure, bump

CLS_TAG = {"NotCompleted": 0, "str": 1, "RecA": 2, "RecB": 3, "list": 4, "tuple": 5, "set": 6, "NoneType": 7, "bool": 8, "source_proxy": 9}
TY_TAG = dict(CLS_TAG, SerialisableType=100, IdentifierType=101)


def type_tags(names):
    out = []
    for n in names:
        n = getattr(n, "__name__", n)
        if n not in TY_TAG:
            raise ValueError(f"type name {n!r} has no tag")
        out.append(TY_TAG[n])
    return sorted(out)


def parts_of(message):
    """real message text -> the pieces of Model/CallPrims.Part"""
    last = (message or "").strip().split("\n")[-1]
    if last.startswith("RuntimeError: boom"):
        return [["tb", int(last[len("RuntimeError: boom"):])]]
    if last.startswith("user") and last[4:].isdigit():
        return [["lit", "user"], ["num", int(last[4:])]]
    if last.startswith("invalid data type, '") and "' not in " in last:
        cls, _, types = last[len("invalid data type, '"):].partition("' not in ")
        try:
            return [["lit", "invalid data type, '"], ["cls", CLS_TAG.get(cls, 999)], ["lit", "' not in "], ["types", type_tags(types.split(", "))]]
        except ValueError:
            pass
    return [["lit", message if "\n" not in (message or "") else last]]


def canon_real(r):
    from cogent3.app.composable import NotCompleted

    from .c14 import _src_idx
    from .c14_apps import origin_index

    if isinstance(r, NotCompleted):
        return {"nc": [r.type, origin_index(r.origin), parts_of(r.message), _src_idx(r.source)]}
    if r is None:
        return None
    if isinstance(r, bool):
        return {"bool": r}
    return {"obj": [r.ty, r.val, _src_idx(r.source)]}


def canon_model(v):
    """sort the type list inside a message (the real text joins a frozenset in arbitrary order)"""
    if isinstance(v, dict) and "nc" in v:
        t, o, m, s = v["nc"]
        m = [[p[0], sorted(p[1])] if p[0] == "types" else p for p in m]
        return {"nc": [t, o, m, s]}
    return v


def rich_steps(spec, comp, apps):
    """model steps (outermost first) with the type sets read from the real app objects"""
    steps = []
    if comp == "loader":
        ld = apps[0]
        steps.append(dict(name=0, kind="loader", skip=True, data_types=type_tags(ld._data_types), return_types=type_tags(ld._return_types),
                          rules=[[k, v] for k, v in spec["loader"]["rules"].items()], default=spec["loader"]["default"]))
        apps = apps[1:]
    for i, (st, a) in enumerate(zip(spec["steps"], apps), 1):
        steps.append(dict(name=i, kind="generic", skip=st["flavour"] in ("a", "ab"), data_types=type_tags(a._data_types),
                          return_types=type_tags(a._return_types), rules=[[k, v] for k, v in st["rules"].items()], default=st["default"]))
    return list(reversed(steps))


def build_rich(spec, comp):
    """returns (composed app, [the member apps, innermost first])"""
    from . import c14_apps as A

    members = []
    if comp == "loader":
        members.append(A.c14_load(plan={str(k): v for k, v in spec["loader"]["rules"].items()}, default=spec["loader"]["default"]))
    for i, st in enumerate(spec["steps"], 1):
        cls = getattr(A, f"c14_step{i}{st['flavour']}")
        members.append(cls(plan={str(k): v for k, v in st["rules"].items()}, default=st["default"]))
    app = members[0]
    for m in members[1:]:
        app = app + m
    return app, members


def gen_inputs(rng, spec, comp):
    """[(description, python value factory, model json)]"""
    from cogent3.app.composable import NotCompleted, source_proxy

    from . import c14_apps as A

    ms = list(spec["members"])
    name = A.member_name
    out = []

    def rec(m, ty=2, src="own"):
        s = m if src == "own" else src
        cls = A.RecA if ty == 2 else A.RecB
        return (lambda: cls(m, source=None if s is None else f"{name(s)}.txt")), [ty, m, s]

    def prox(inner_f, inner_j, src):
        def f():
            p = source_proxy(inner_f())
            p._src = f"{name(src)}.txt"
            return p
        return f, {"proxy": [inner_j, src]}

    out.append(("None", lambda: None, None))
    out.append(("NotCompleted", lambda: NotCompleted("FAIL", "c14_step4a", "user7", source="r005.txt"),
                {"nc": ["FAIL", 4, [["lit", "user"], ["num", 7]], 5]}))
    if comp == "loader":
        for m in ms[:2]:
            out.append((f"path {name(m)}", (lambda m=m: f"/data/{name(m)}.txt"), {"obj": [1, m, m]}))
        m, other = ms[0], rng.choice(ms)
        f, j = prox((lambda m=m: f"/data/{name(m)}.txt"), {"obj": [1, m, m]}, other)
        out.append((f"source_proxy(path {name(m)}) source {name(other)}", f, j))
        return out
    for m in ms[:2]:
        ty = rng.choice([2, 2, 3])
        f, j = rec(m, ty)
        out.append((f"record {TYN[ty]}({m})", f, {"obj": j}))
    # containers: list / tuple / set, empty or with 1..3 records, the FIRST element's class decides
    for _ in range(3):
        kind = rng.choice(["list", "tuple", "set"])
        n = rng.choice([0, 0, 1, 2, 3])
        if kind == "set" and n > 1:
            tys = [rng.choice([2, 3])] * n  # a set has no defined first element: keep its classes homogeneous
        else:
            tys = [rng.choice([2, 2, 3]) for _ in range(n)]
        elems = [rec(rng.choice(ms), ty, src=rng.choice(ms + [None])) for ty in tys]

        def mk(kind=kind, elems=elems):
            xs = [f() for f, _ in elems]
            return {"list": list, "tuple": tuple, "set": set}[kind](xs)

        js = [j for _, j in elems]
        out.append((f"{kind} of {[TYN[t] for t in tys]}", mk, ("container", kind, js)))
        if rng.random() < 0.5:
            src = rng.choice(ms)
            out.append((f"source_proxy({kind} of {[TYN[t] for t in tys]})", ("proxy_container", mk, src), ("proxy_container", kind, js, src)))
    m, other = ms[0], rng.choice(ms)
    f, j = rec(m, rng.choice([2, 3]), src=rng.choice(ms + [None]))
    pf, pj = prox(f, {"obj": j}, other)
    out.append((f"source_proxy(record) source {name(other)}", pf, pj))
    return out


TYN = {2: "RecA", 3: "RecB"}


def _materialise(fac, mj):
    """build the python value and the model JSON (for a set the element order is the iteration order of that very set)"""
    from cogent3.app.composable import source_proxy

    from . import c14_apps as A
    from .c14 import _src_idx

    def elems_json(container):
        return [[x.ty, x.val, _src_idx(x.source)] for x in container]

    if isinstance(mj, tuple) and mj[0] == "container":
        val = fac()
        return val, {"seq": [CLS_TAG[mj[1]], elems_json(val)]}
    if isinstance(mj, tuple) and mj[0] == "proxy_container":
        inner = fac[1]()
        p = source_proxy(inner)
        p._src = f"{A.member_name(mj[3])}.txt"
        return p, {"proxy": [{"seq": [CLS_TAG[mj[1]], elems_json(inner)]}, mj[3]]}
    return fac(), mj


def corr_rich(ctx, out):
    from .c14 import gen_pipeline

    rng = ctx.subrng("rich")
    reqs, reals, inps = [], [], []
    for i in range(ctx.budget(90, 1200)):
        spec = gen_pipeline(rng, rng.randint(1, 4), allow_sleep=False)
        spec["fn_step"] = False
        comp = "loader" if i % 3 == 0 else "steps"
        if comp == "steps" and not spec["steps"]:
            spec["steps"] = [dict(flavour="a", rules={}, default=["ret", 2, 1])]
        if i % 2 == 1:
            for st in spec["steps"]:
                if rng.random() < 0.5:
                    st["flavour"] = rng.choice(["na", "ns"])
        elif rng.random() < 0.3 and spec["steps"]:
            spec["steps"][0]["flavour"] = "ns"  # the innermost step takes anything: a container reaches main
        for desc, fac, mj in gen_inputs(rng, spec, comp):
            app, members = build_rich(spec, comp)
            steps = rich_steps(spec, comp, members)
            val, j = _materialise(fac, mj)
            try:
                real = canon_real(app(val))
            except Exception as e:  # noqa
                real = f"raised {type(e).__name__}: {e}"[:200]
            reqs.append(("callrich", dict(steps=steps, input=j)))
            reals.append(real)
            inps.append(dict(kind="rich_call", composition=comp, input=desc, model_input=j,
                             steps=[dict(flavour=s["flavour"], rules=s["rules"], default=s["default"]) for s in spec["steps"]], loader=spec["loader"] if comp == "loader" else None))
            bump(out, "rich_input", desc.split(" ")[0].split("(")[0])
    for (cmd, rq), real, mr, inp in zip(reqs, reals, ctx.driver.batch(reqs), inps):
        out["evaluations"] += 1
        hand, gen = canon_model(mr.get("hand")), canon_model(mr.get("gen"))
        if gen != real:
            add_failure(out, "corr", "app(x) differs from the composition of the TRANSLATED _call (Gen/C14Call.lean): the translator or the vocabulary "
                        "Model/CallPrims.lean misreads the source", inp, gen, real, confirmed=False)
        if hand != real:
            add_failure(out, "corr", "app(x) differs from the hand model chainR (Model/CallRich.lean)", inp, hand, real, confirmed=False)
        elif isinstance(real, dict) and "nc" in real:
            out["nontrivial"].add(("rich", json.dumps(inp, sort_keys=True, default=str)[:300]))
        if isinstance(real, dict) and "nc" in real:
            bump(out, "rich_result", "nc:" + "/".join(str(p[1]) if p[0] == "lit" else p[0] for p in real["nc"][2])[:40])
        else:
            bump(out, "rich_result", "ok" if isinstance(real, dict) else str(real)[:20])


def _sig(app, connected_ids):
    at = getattr(app, "app_type", None)
    return dict(app_type=getattr(at, "value", None) if at is not None else None,
                has_input=getattr(app, "input", None) is not None,
                data_types=type_tags(getattr(app, "_data_types", []) or []), return_types=type_tags(getattr(app, "_return_types", []) or []))


def corr_add(ctx, out):
    from . import c14_apps as A

    rng = ctx.subrng("add")
    reqs, reals, inps = [], [], []
    for i in range(ctx.budget(150, 2000)):
        n = rng.choice([2, 2, 3, 3, 4])
        names = [rng.choice(A.ADD_POOL) for _ in range(n)]
        if i % 5 == 0:  # the usual shape, so that long successful chains occur
            names = [rng.choice(["c14_load", "c14_t_load_a"])] + [rng.choice(["c14_t_a2a", "c14_step1a", "c14_t_ab2s", "c14_t_a2b", "c14_t_b2ab"]) for _ in range(n - 2)] \
                + [rng.choice(["c14_t_write_a", "c14_t_write_s", "c14_t_a2a"])]
        objs = [getattr(A, nm)() for nm in names]
        special = None
        r = rng.random()
        if r < 0.1:
            j = rng.randrange(1, n)
            objs[j] = rng.choice([3, "text", len])  # not an app at all
            names[j] = repr(objs[j])[:20]
            special = "non-app"
        elif r < 0.2:
            j = rng.randrange(1, n)
            objs[j] = objs[j - 1]  # an app added to itself
            names[j] = names[j - 1]
            special = "self"
        elif r < 0.3:
            j = rng.randrange(1, n)
            try:
                A.c14_t_a2a() + objs[j]  # already part of another composed function
                special = "connected"
            except Exception:  # noqa
                pass
        # left to right; single `+` requests for every step that is attempted
        cur = objs[0]
        outcome = ["connected"]
        for k, o in enumerate(objs[1:]):
            if not hasattr(type(cur), "__add__"):
                break  # a non-composable app on the left has no `+` at all (python's own TypeError, not `_add`)
            same = o is cur
            rq = ("add", dict(self=_sig(cur, None), other=_sig(o, None) if hasattr(o, "app_type") else dict(app_type=None, has_input=False, data_types=[], return_types=[]), same=same))
            try:
                res = cur + o
                real = ["connected"]
                if res is not o or o.input is not cur:
                    real = ["connected-but-wrong-object"]
            except (TypeError, ValueError, AttributeError) as e:
                real = ["raised", type(e).__name__]
            except Exception as e:  # noqa
                real = ["raised-other", type(e).__name__]
            reqs.append(rq)
            reals.append(real)
            inps.append(dict(kind="add", chain=names, at=k, special=special, self=names[k] if k == 0 else "+".join(names[: k + 1]), other=names[k + 1]))
            if real != ["connected"]:
                break
            cur = res
    for (cmd, rq), real, mr, inp in zip(reqs, reals, ctx.driver.batch(reqs), inps):
        out["evaluations"] += 1
        for which in ("hand", "gen"):
            m = mr[which]
            m2 = m[:2] if m[0] == "raised" else m
            if m2 != real:
                add_failure(out, "corr", f"`self + other` differs from {'addR (hand model)' if which == 'hand' else 'the TRANSLATED _add'}", dict(inp, sigs=rq),
                            m, real, confirmed=False)
        bump(out, "add_result", "connected" if real == ["connected"] else f"{real[-1]}#{mr['hand'][2] if mr['hand'][0] == 'raised' else '?'}")
        if real != ["connected"]:
            out["nontrivial"].add(("add", mr["hand"][2] if mr["hand"][0] == "raised" else -1, inp["other"]))


def corr_chunksize_gen(ctx, out):
    from cogent3.util import parallel as PAR

    grid = [(n, w) for n in range(0, 41) for w in range(1, 9)]
    for (n, w), m in zip(grid, ctx.driver.batch([("chunksize_gen", dict(n=n, w=w)) for n, w in grid])):
        out["evaluations"] += 1
        real = PAR.get_default_chunksize(range(n), w)
        if real != m:
            add_failure(out, "corr", "get_default_chunksize differs from its translation", dict(n=n, max_workers=w), m, real, confirmed=False)
