"""C07 helpers: random histories on REAL likelihood functions and the fresh-function oracles."""
from __future__ import annotations

import contextlib
import io
import random
import warnings

DATA = "/repo/tests/data/brca1.fasta"
TAXA_SETS = [
    (["Human", "Mouse", "Rat", "Cat"], "((Human,Mouse),Rat,Cat)"),
    (["Human", "Chimpanzee", "Rhesus", "Mouse", "Cow"], "((Human,Chimpanzee),Rhesus,(Mouse,Cow))"),
    (["Dog", "Cat", "Horse"], "(Dog,Cat,Horse)"),
]
MODELS = ["HKY85", "GTR", "F81", "TN93", "JC69", "K80", "GN"]
RTOL = 1e-9

_cache = {}


def _data():
    if "aln" not in _cache:
        import os

        from cogent3 import load_aligned_seqs

        repo = os.environ.get("VERIF_REPO", "/repo")
        _cache["aln"] = load_aligned_seqs(f"{repo}/tests/data/brca1.fasta", moltype="dna")
    return _cache["aln"]


def get_aln(taxa_idx, slice_idx):
    """a few hundred gap-free columns of brca1 for the taxa set; different slices = different alignments"""
    key = ("sub", taxa_idx, slice_idx)
    if key not in _cache:
        taxa, _ = TAXA_SETS[taxa_idx]
        sub = _data().take_seqs(taxa).omit_gap_pos()
        lo = [0, 150, 400, 37][slice_idx % 4]
        n = [240, 180, 300, 120][slice_idx % 4]
        _cache[key] = sub[lo : lo + n]
    return _cache[key]


ML_CONFIGS = [
    dict(model="BH", loci=["a", "b"], nodeg=True),
    dict(model="DT", loci=["a", "b"], nodeg=True),
    dict(model="BH", nodeg=True),
    dict(model="HKY85", loci=["a", "b"]),
    dict(model="GTR", loci=["a", "b", "c"]),
    dict(model="GN", loci=["a", "b"]),
    dict(model="HKY85", mkw=dict(with_rate=True, distribution="gamma"), bins=2),
    dict(model="TN93", mkw=dict(with_rate=True, distribution="gamma"), bins=3),
    dict(model="HKY85", mkw=dict(with_rate=True, distribution="gamma"), bins=2, loci=["a", "b"]),
    # site classes whose rates / factors follow a FREE distribution: the model then has an optimisable leaf
    # definition that is not a user parameter (`<param>_partition`): the optimiser moves it, rules do not name it
    dict(model="HKY85", mkw=dict(ordered_param="rate", distribution="free"), bins=2),
    dict(model="HKY85", mkw=dict(ordered_param="kappa", distribution="free"), bins=3),
    dict(model="F81", mkw=dict(ordered_param="rate", distribution="free"), bins=2, loci=["a", "b"]),
    dict(model="TN93", mkw=dict(ordered_param="rate", partitioned_params=["kappa_y"], distribution="free"), bins=2),
]


def get_aln_nodeg(taxa_idx, slice_idx):
    """as get_aln but without any gap / ambiguity character (discrete-time models reject them)"""
    key = ("nodeg", taxa_idx, slice_idx)
    if key not in _cache:
        taxa, _ = TAXA_SETS[taxa_idx]
        sub = _data().take_seqs(taxa).no_degenerates()
        lo = [0, 150, 400, 37][slice_idx % 4]
        n = [240, 180, 300, 120][slice_idx % 4]
        _cache[key] = sub[lo : lo + n]
    return _cache[key]


def case_alns(case, idx):
    """the alignment (or one per locus) number idx of the case"""
    get = get_aln_nodeg if case.get("nodeg") else get_aln
    if case.get("loci"):
        return [get(case["taxa"], idx + i) for i in range(len(case["loci"]))]
    return get(case["taxa"], idx)


def new_lf(case):
    from cogent3 import get_model, make_tree

    taxa, newick = TAXA_SETS[case["taxa"]]
    sm = get_model(case["model"], **(case.get("mkw") or {}))
    kw = {}
    if case.get("loci"):
        kw["loci"] = list(case["loci"])
    if case.get("bins"):
        kw["bins"] = case["bins"]
    lf = sm.make_likelihood_function(make_tree(newick), **kw)
    lf.set_alignment(case_alns(case, case["aln0"]))
    lf._c07_case = case
    return lf


def is_ml(case):
    return bool(case.get("loci") or case.get("bins") or case.get("nodeg"))


def param_names(lf):
    return [p for p in lf.get_param_names() if p not in ("mprobs", "length")]


def edge_names(lf):
    return [n for n in lf.tree.get_node_names() if n != "root"]


# --------------------------------------------------------------------------
# ops
# --------------------------------------------------------------------------
def rand_rule(rng, pars, edges):
    par = rng.choice(pars + ["length"]) if pars else "length"
    kw = {}
    r = rng.random()
    if r < 0.45:
        pass  # global scope
    elif r < 0.75:
        kw["edges"] = sorted(rng.sample(edges, rng.randint(1, len(edges))))
    else:
        kw["edge"] = rng.choice(edges)
    if "edges" in kw or rng.random() < 0.3:
        kw["is_independent"] = rng.random() < 0.5
    v = round(rng.choice([0.05, 0.3, 0.7, 1.0, 1.5, 2.5, 4.0]) * rng.uniform(0.8, 1.25), 6)
    if par == "length":
        v = round(v / 4, 6)
    m = rng.random()
    if m < 0.3:
        kw["is_constant"] = True
        kw["value"] = v
    elif m < 0.85:
        kw["init"] = v
    else:
        kw["init"] = v
        if rng.random() < 0.5:
            kw["lower"] = round(v / 3, 6)
        else:
            kw["upper"] = round(v * 3, 6)
    return ["rule", par, kw]


def rand_mprobs(rng):
    w = [rng.uniform(0.5, 2.0) for _ in range(4)]
    t = sum(w)
    return ["mprobs", {b: x / t for b, x in zip("TCAG", w)}]


def rand_simple_op(rng, pars, edges):
    r = rng.random()
    if r < 0.62:
        return rand_rule(rng, pars, edges)
    if r < 0.74:
        return rand_mprobs(rng)
    if r < 0.86:
        return ["aln", rng.randrange(4)]
    if r < 0.93:
        return ["bad", rng.choice(["unknown_par", "unknown_edge"])]
    return ["rule", "length", {"is_independent": False, "init": round(rng.uniform(0.05, 0.6), 6)}]


def rand_ops(rng, pars, edges, n, opt_budget):
    ops = []
    for _ in range(n):
        r = rng.random()
        if r < 0.55:
            ops.append(rand_simple_op(rng, pars, edges))
        elif r < 0.75:
            inner = [rand_simple_op(rng, pars, edges) for _ in range(rng.randint(1, 4))]
            if rng.random() < 0.3:
                inner.insert(
                    rng.randrange(len(inner) + 1),
                    ["block", [rand_simple_op(rng, pars, edges) for _ in range(rng.randint(1, 2))]],
                )
            ops.append(["block", inner])
        elif r < 0.83:
            ops.append(["calc", rng.randrange(10**9), rng.randint(3, 12)])
        elif r < 0.90:
            # several independent inputs changed, then an alignment that cannot be digested (inside one
            # postponed block or not): the recalculation raises part way; the caller repairs the alignment only
            body = [rand_rule(rng, pars, edges) for _ in range(rng.randint(1, 3))]
            if rng.random() < 0.4:
                body.append(rand_mprobs(rng))
            ops.append(["failrepair", body, rng.random() < 0.7, rng.randrange(4)])
        elif r < 0.95:
            # a multi-scope rule that is valid for some scopes and fails validation on ONE of them
            par = rng.choice(pars + ["length"]) if pars else "length"
            ops.append(["latefail", par, rng.choice(edges), rng.random() < 0.5])
        else:
            ops.append(["opt", dict(max_evaluations=rng.choice(opt_budget), local=True)])
    return ops


def rand_case(rng, n_ops, opt_budget=(5, 15, 30)):
    case = dict(model=rng.choice(MODELS), taxa=rng.randrange(len(TAXA_SETS)), aln0=rng.randrange(4))
    lf = new_lf(case)
    case["ops"] = rand_ops(rng, param_names(lf), edge_names(lf), n_ops, opt_budget)
    return case


# --------------------------------------------------------------------------
# applying ops to a real lf
# --------------------------------------------------------------------------
class _Quiet:
    def __enter__(self):
        self.w = warnings.catch_warnings()
        self.w.__enter__()
        warnings.simplefilter("ignore")
        self.r = contextlib.redirect_stdout(io.StringIO())
        self.r.__enter__()

    def __exit__(self, *a):
        self.r.__exit__(*a)
        self.w.__exit__(*a)


def _bad_op(lf, kind):
    pars = param_names(lf)
    if kind == "unknown_par":
        lf.set_param_rule("no_such_param", init=1.0)
    elif kind == "unknown_edge":
        lf.set_param_rule("length", edge="no_such_edge", init=0.1)
    else:
        lf.set_param_rule("length", init=50.0, upper=10.0)


def calc_walk(lf, seed, n, log):
    """drive a calculator made from lf through a random walk with reversals and out-of-bounds
    points; every returned value is compared with a brand new calculator evaluated at the same
    vector; finally the lf takes the calculator's values."""
    import numpy

    from cogent3.maths.optimisers import ParameterOutOfBoundsError

    rng = random.Random(seed)
    lc = lf.make_calculator()
    nopt = len(lc.opt_pars)
    if nopt == 0:
        return
    low, high = lc.get_bounds_vectors()
    x = list(lc.get_value_array())
    prev = list(x)
    for _ in range(n):
        r = rng.random()
        new = list(x)
        if r < 0.3:
            i = rng.randrange(nopt)
            new[i] = x[i] + rng.uniform(-0.3, 0.3)
        elif r < 0.5:
            for i in rng.sample(range(nopt), rng.randint(1, nopt)):
                new[i] = x[i] + rng.uniform(-0.2, 0.2)
        elif r < 0.75:
            new = list(prev)
        elif r < 0.87:
            new = list(prev)
            i = rng.randrange(nopt)
            new[i] = new[i] + rng.uniform(-0.2, 0.2)
        else:
            # out of bounds, but only for parameters with narrow bounds (lengths): driving a motif-prob
            # ratio to its bound pushes a probability under the 1e-6 floor that reports apply by design
            narrow = [i for i in range(nopt) if high[i] - low[i] < 20.5] or [None]
            i = rng.choice(narrow)
            if i is not None:
                new[i] = high[i] + 1.0 if rng.random() < 0.5 else low[i] - 1.0
        new = [float(min(max(v, lo - 2.0), hi + 2.0)) for v, lo, hi in zip(new, low, high)]
        try:
            got = float(lc(numpy.array(new)))
            failed = False
        except (ParameterOutOfBoundsError, ArithmeticError):
            got = None
            failed = True
        reported = [float(v) for v in lc.get_value_array()]
        # fresh calculator at the vector the calculator reports
        fresh = lf.make_calculator()
        try:
            want = float(fresh(numpy.array(reported)))
        except (ParameterOutOfBoundsError, ArithmeticError):
            want = None
        cur = float(lc.testfunction())
        log.append(dict(kind="calc_step", failed=failed, got=got, cur=cur, fresh_at_reported=want,
                        requested=new, reported=reported))
        prev, x = x, (new if not failed else reported)
    # finish inside the bounds (update_from_calculator refuses values outside them)
    inside = [float(min(max(v, lo), hi)) for v, lo, hi in zip(lc.get_value_array(), low, high)]
    try:
        lc(numpy.array(inside))
    except (ParameterOutOfBoundsError, ArithmeticError):
        pass
    lf.update_from_calculator(lc)


def apply_op(lf, op, log, postponed_depth=0):
    """returns 'ok' or the exception class name; nested blocks recurse"""
    k = op[0]
    try:
        with _Quiet():
            if k == "rule":
                lf.set_param_rule(op[1], **op[2])
            elif k == "mprobs":
                lf.set_motif_probs(op[1], **(op[2] if len(op) > 2 else {}))
            elif k == "aln":
                lf.set_alignment(case_alns(lf._c07_case, op[1]))
            elif k == "bad":
                _bad_op(lf, op[1])
            elif k == "opt":
                lf.optimise(show_progress=False, limit_action="ignore", **op[1])
            elif k == "calc":
                calc_walk(lf, op[1], op[2], log)
            elif k == "block":
                with lf.updates_postponed():
                    for o in op[1]:
                        r = apply_op(lf, o, log, postponed_depth + 1)
                        if r != "ok" and o[0] == "bad":
                            pass  # the user caught the exception inside the block
            else:
                raise ValueError(k)
        return "ok"
    except Exception as e:  # noqa
        return type(e).__name__


def flatten(ops):
    for op in ops:
        if op[0] == "block":
            yield from flatten(op[1])
        else:
            yield op


def observe(lf):
    """lnL, nfp and every (param, edge) value the function reports"""
    with _Quiet():
        d = dict(lnL=float(lf.lnL), nfp=int(lf.nfp))
        vals = {}
        for p in param_names(lf) + ["length"]:
            for e in edge_names(lf):
                try:
                    vals[f"{p}|{e}"] = float(lf.get_param_value(p, edge=e))
                except Exception as ex:  # noqa
                    vals[f"{p}|{e}"] = type(ex).__name__
        d["values"] = vals
        try:
            mp = lf.get_motif_probs()
            d["mprobs"] = {k: float(v) for k, v in mp.to_dict().items()}
        except Exception as ex:  # noqa
            d["mprobs"] = type(ex).__name__
        # the full optimiser parameter vector of a calculator made from the function
        # (make_calculator() runs update() on EVERY definition, whatever the dirty set says: lnL read after it is
        # the recomputed value, the one read above is what the function reported after the operation)
        try:
            lc = lf.make_calculator()
            d["optvec"] = sorted(float(x) for x in lc.get_value_array())
            d["calc_value"] = float(lc.testfunction())
            d["lnL_recomputed"] = float(lf.lnL)
        except Exception as ex:  # noqa
            d["optvec"] = type(ex).__name__
    return d


def hidden_optpars(lf):
    """leaf definitions with free parameters that are NOT user parameters (get_param_names / get_param_rules do
    not name them), e.g. the `rate_partition` of a free distribution over site classes"""
    from cogent3.recalculation.scope import _LeafDefn

    visible = set(lf.get_param_names())
    return [d.name for d in lf.defns if isinstance(d, _LeafDefn) and d.name not in visible
            and d.get_num_free_params() > 0]


def hidden_snapshot(lf):
    """{defn name: [(scope keys, is_constant, (lower, value, upper))]} one entry per distinct setting object"""
    import copy as _copy

    snap = {}
    for name in hidden_optpars(lf):
        groups = {}
        for scope_t, setting in lf.defn_for[name].assignments.items():
            groups.setdefault(id(setting), (setting, []))[1].append(scope_t)
        snap[name] = [(keys, bool(st.is_constant), _copy.deepcopy(st.get_bounds() if not st.is_constant else (None, st.value, None)))
                      for st, keys in groups.values()]
    return snap


def apply_hidden(lf, snap):
    """give a function the settings of the definitions rules cannot name"""
    import copy as _copy

    from cogent3.recalculation.setting import ConstVal, Var

    for name, groups in snap.items():
        defn = lf.defn_for[name]
        for keys, const, bounds in groups:
            st = ConstVal(_copy.deepcopy(bounds[1])) if const else Var(_copy.deepcopy(bounds))
            for k in keys:
                assert k in defn.assignments, k
                defn.assignments[k] = st
    if snap:
        with _Quiet():
            lf.update_intermediate_values()


def vec_close(a, b, tol=1e-9):
    if not isinstance(a, list) or not isinstance(b, list):
        return a == b
    return len(a) == len(b) and all(abs(x - y) <= tol * max(1.0, abs(x), abs(y)) for x, y in zip(a, b))


# --------------------------------------------------------------------------
# multi-locus / discrete-time / rate-heterogeneity cases
# --------------------------------------------------------------------------
def settable(lf):
    """[(param, valid dimensions, is_scalar)] of the leaf definitions a rule can address"""
    from cogent3.recalculation.definition import ParamDefn
    from cogent3.recalculation.scope import _LeafDefn

    res = []
    for p in lf.get_param_names():
        d = lf.defn_for.get(p)
        if isinstance(d, _LeafDefn):
            res.append((p, tuple(d.valid_dimensions), isinstance(d, ParamDefn)))
    return res


def rand_scope(rng, dims, lf):
    kw = {}
    cats = dict(edge=edge_names(lf), locus=list(lf.locus_names), bin=list(lf.bin_names))
    single = dict(edge="edge", locus="locus", bin="bin")
    plural = dict(edge="edges", locus="loci", bin="bins")
    for dname in dims:
        c = cats.get(dname) or []
        if len(c) < 2:
            continue
        r = rng.random()
        if r < 0.35:
            continue
        if r < 0.6:
            kw[single[dname]] = rng.choice(c)
        else:
            kw[plural[dname]] = sorted(rng.sample(c, rng.randint(2, len(c))))
    return kw


def rand_ml_op(rng, lf):
    pars = settable(lf)
    r = rng.random()
    if r < 0.12 and any(p == "mprobs" for p, _, _ in pars):
        w = [rng.uniform(0.5, 2.0) for _ in range(4)]
        t = sum(w)
        kw = {}
        if len(lf.locus_names) > 1 and rng.random() < 0.7:
            kw["locus"] = rng.choice(list(lf.locus_names))
        return ["mprobs", {b: x / t for b, x in zip("TCAG", w)}, kw]
    p, dims, scalar = rng.choice(pars)
    kw = rand_scope(rng, dims, lf)
    if kw and rng.random() < 0.8:
        kw["is_independent"] = rng.random() < 0.45
    if scalar:
        v = round(rng.choice([0.3, 0.7, 1.0, 1.5, 2.5]) * rng.uniform(0.8, 1.25), 6)
        if p == "length":
            v = round(v / 4, 6)
        m = rng.random()
        if m < 0.25:
            kw["is_constant"] = True
            kw["value"] = v
        elif m < 0.8:
            kw["init"] = v
        else:
            kw["init"] = v
            if rng.random() < 0.5:
                kw["lower"] = round(v / 3, 6)
            else:
                kw["upper"] = round(v * 3, 6)
    elif rng.random() < 0.2:
        kw["is_constant"] = True
    return ["rule", p, kw]


def rand_ml_case(rng, n_ops, opt_budget=(3, 8)):
    cfg = dict(rng.choice(ML_CONFIGS))
    case = dict(cfg, taxa=rng.choice([0, 2]) if cfg.get("model") in ("BH", "DT") else rng.randrange(len(TAXA_SETS)),
                aln0=rng.randrange(4))
    lf = new_lf(case)
    ops = []
    for _ in range(n_ops):
        r = rng.random()
        if r < 0.7:
            ops.append(rand_ml_op(rng, lf))
        elif r < 0.85:
            ops.append(["block", [rand_ml_op(rng, lf) for _ in range(rng.randint(1, 3))]])
        elif r < 0.93:
            ops.append(["calc", rng.randrange(10**9), rng.randint(2, 5)])
        else:
            ops.append(["opt", dict(max_evaluations=rng.choice(opt_budget), local=True)])
    if (cfg.get("mkw") or {}).get("distribution") == "free" and not any(o[0] in ("calc", "opt") for o in ops):
        # the calculator -> function hand-back is what these configurations are for
        ops.insert(rng.randrange(len(ops) + 1), rng.choice([["calc", rng.randrange(10**9), rng.randint(2, 5)],
                                                             ["opt", dict(max_evaluations=rng.choice(opt_budget), local=True)]]))
    case["ops"] = ops
    return case


def close(a, b, rtol=RTOL):
    if a is None or b is None:
        return a is b
    if a == b:
        return True
    return abs(a - b) <= rtol * max(1.0, abs(a), abs(b))


def bad_alignment(case, idx):
    """an alignment the likelihood function cannot digest: the right sequence names, but a character
    outside the model's alphabet, so the recalculation downstream of the alignment raises"""
    from cogent3 import make_aligned_seqs

    good = case_alns(case, idx)
    d = good.to_dict()
    k = sorted(d)[0]
    d[k] = "Q" + d[k][1:]
    return make_aligned_seqs(d, moltype="text")


def rules_canon(lf):
    import json

    with _Quiet():
        rules = lf.get_param_rules()

    def enc(v):
        if hasattr(v, "tolist"):
            return v.tolist()
        if isinstance(v, dict):
            return {str(k): enc(x) for k, x in v.items()}
        if isinstance(v, (list, tuple)):
            return [enc(x) for x in v]
        try:
            return float(v) if not isinstance(v, (str, bool, type(None))) else v
        except (TypeError, ValueError):
            return repr(v)

    return sorted(json.dumps({k: enc(v) for k, v in r.items()}, sort_keys=True) for r in rules)


def fresh_from_rules(case, lf, aln_idx, reorder=False, hidden=False):
    """oracle O2: a NEW function given the exported rules (reorder=True: diagnostic, the same rules
    with, per parameter, the rules of larger scope rectangles first; hidden=True: diagnostic, the settings
    of the optimisable definitions that rules cannot name are copied over as well)"""
    f = new_lf(dict(case, aln0=aln_idx))
    with _Quiet():
        rules = lf.get_param_rules()
        if reorder:
            rules = rules_large_scope_first(lf, rules)
        f.apply_param_rules(rules)
    if hidden:
        apply_hidden(f, hidden_snapshot(lf))
    return f


def rules_large_scope_first(lf, rules):
    n = dict(edge=len(edge_names(lf)), locus=len(lf.locus_names), bin=len(lf.bin_names))

    def size(r):
        t = 1
        for single, plural in (("edge", "edges"), ("locus", "loci"), ("bin", "bins")):
            if plural in r and r[plural] is not None:
                t *= len(r[plural])
            elif single in r and r[single] is not None:
                t *= 1
            else:
                t *= max(1, n[single])
        return t

    order = []
    for r in rules:
        if r["par_name"] not in order:
            order.append(r["par_name"])
    out = []
    for p in order:
        out += sorted([r for r in rules if r["par_name"] == p], key=lambda r: -size(r))
    return out


def fresh_constant(case, lf, aln_idx, obs):
    """oracle O3: a NEW function in which every (param, edge) is held constant at the value the
    history function reports, motif probs likewise: lnL must agree (nfp is 0 here by construction)"""
    f = new_lf(dict(case, aln0=aln_idx))
    with _Quiet():
        if isinstance(obs["mprobs"], dict):
            f.set_motif_probs(obs["mprobs"])
        for key, v in obs["values"].items():
            p, e = key.split("|")
            if isinstance(v, float):
                f.set_param_rule(p, edge=e, value=v, is_constant=True)
    return f
