"""Shared machinery of the C02 / C11 harnesses: random likelihood-function problems,
their construction with the real cogent3, extraction of the numeric inputs
(float64 P matrices, root probabilities, bin probabilities) as exact rationals and
the request/response handling of the Lean pruning driver (Driver/PruneCmds.lean)."""
from __future__ import annotations

import itertools
import math
from fractions import Fraction

from .common import rat, unrat

# --------------------------------------------------------------------------
# independent tables (written from the IUPAC standard, not read from cogent3)
# --------------------------------------------------------------------------
IUPAC_DNA = {
    "A": "A", "C": "C", "G": "G", "T": "T",
    "R": "AG", "Y": "CT", "S": "CG", "W": "AT", "K": "GT", "M": "AC",
    "B": "CGT", "D": "AGT", "H": "ACT", "V": "ACG", "N": "ACGT",
    "-": "ACGT", "?": "ACGT",
}
PROT = "ACDEFGHIKLMNPQRSTVWY"
IUPAC_PROT = {c: c for c in PROT}
IUPAC_PROT.update({"B": "DN", "Z": "EQ", "X": PROT, "-": PROT, "?": PROT})
STOPS = {"TAA", "TAG", "TGA"}

# NCBI translation tables (typed in from the NCBI "The Genetic Codes" page, first/second/third base in TCAG order);
# independent of cogent3.core.genetic_code
GC_TABLES = {
    1: "FFLLSSSSYY**CC*WLLLLPPPPHHQQRRRRIIIMTTTTNNKKSSRRVVVVAAAADDEEGGGG",
    2: "FFLLSSSSYY**CCWWLLLLPPPPHHQQRRRRIIMMTTTTNNKKSS**VVVVAAAADDEEGGGG",
    3: "FFLLSSSSYY**CCWWTTTTPPPPHHQQRRRRIIMMTTTTNNKKSSRRVVVVAAAADDEEGGGG",
    4: "FFLLSSSSYY**CCWWLLLLPPPPHHQQRRRRIIIMTTTTNNKKSSRRVVVVAAAADDEEGGGG",
    5: "FFLLSSSSYY**CCWWLLLLPPPPHHQQRRRRIIMMTTTTNNKKSSSSVVVVAAAADDEEGGGG",
    6: "FFLLSSSSYYQQCC*WLLLLPPPPHHQQRRRRIIIMTTTTNNKKSSRRVVVVAAAADDEEGGGG",
    11: "FFLLSSSSYY**CC*WLLLLPPPPHHQQRRRRIIIMTTTTNNKKSSRRVVVVAAAADDEEGGGG",
}
# codons whose synonymy / stop status differs between the tables above
GC_SENSITIVE = ["ATA", "ATG", "ATT", "TGA", "TGG", "TGT", "AGA", "AGG", "AGT", "CGA", "CTG", "CTA", "ACA", "TAA", "TAG", "CAA", "TAT"]


def translate(gc, codon):
    return GC_TABLES[gc]["TCAG".index(codon[0]) * 16 + "TCAG".index(codon[1]) * 4 + "TCAG".index(codon[2])]


_MODEL_CACHE = {}
_KINDS = None


def model_kinds():
    """{abbreviation: 'nucleotide'|'codon'|'protein'} for every model cogent3 offers"""
    global _KINDS
    if _KINDS is None:
        from cogent3.evolve.models import available_models

        _KINDS = {r[1]: r[0] for r in available_models().to_list()}
    return _KINDS


DISCRETE = ("BH", "DT")
BIG_BINS = False  # set by the harness in the thorough tier
DINUC = "DINUC"  # not in available_models(): built from substitution_model.TimeReversibleDinucleotide


OPT = "OPT"  # a word model built directly from a substitution_model class with explicit constructor options (c02_options.py)


def kind_of(name):
    if name == DINUC:
        return "dinucleotide"
    return model_kinds()[name]


def _option_model(cls, mprob_model, motifs=None, gc=None):
    from cogent3.evolve import substitution_model

    kw = dict(mprob_model=mprob_model, recode_gaps=True, model_gaps=False, predicates={"kappa": "transition"})
    if motifs is not None:
        kw["motifs"] = list(motifs)
    if cls == "codon":
        kw["predicates"]["omega"] = "replacement"
        return substitution_model.TimeReversibleCodon(gc=gc, **kw)
    if cls.startswith("dinuc"):
        return substitution_model.TimeReversibleDinucleotide(**kw)
    return substitution_model.TimeReversibleTrinucleotide(**kw)


def get_sm(name, **kw):
    kw = {k: (tuple(v) if isinstance(v, list) else v) for k, v in kw.items()}
    key = (name, tuple(sorted(kw.items())))
    if key not in _MODEL_CACHE:
        if name == OPT:
            _MODEL_CACHE[key] = _option_model(**kw)
        elif name == DINUC:
            from cogent3.evolve import substitution_model
            from cogent3.evolve.predicate import MotifChange

            preds = {"kappa": MotifChange("A", "G") | MotifChange("C", "T")}
            _MODEL_CACHE[key] = substitution_model.TimeReversibleDinucleotide(
                predicates=preds, recode_gaps=True, model_gaps=False, mprob_model="tuple", name="DINUC", **kw
            )
        else:
            from cogent3.evolve.models import get_model

            _MODEL_CACHE[key] = get_model(name, **kw)
    return _MODEL_CACHE[key]


def motif_len_of(kind):
    return {"nucleotide": 1, "protein": 1, "dinucleotide": 2, "codon": 3}[kind]


def compatible_states(kind, motifs, motif):
    """indices (into the model's motif list) compatible with the possibly degenerate `motif`"""
    table = IUPAC_PROT if kind == "protein" else IUPAC_DNA
    sets = [table[c] for c in motif]
    words = {"".join(p) for p in itertools.product(*sets)}
    return [i for i, m in enumerate(motifs) if m in words]


# --------------------------------------------------------------------------
# random problems
# --------------------------------------------------------------------------
# tip / internal-node name families in which names are proper prefixes, suffixes and substrings of each
# other (a lookup by startswith / endswith / `in` instead of equality must show up as a wrong likelihood)
TIP_FAMILIES = [
    ["t1", "t10", "t100", "t", "1t", "t11", "t01", "10t"],
    ["a", "ab", "abc", "b", "ba", "abcd", "c", "bc"],
    ["x1", "1x", "01", "10", "x", "x10", "1", "x1x"],
    ["Hum", "Human", "Hu", "man", "uma", "HumanB", "Humans", "H"],
]
NODE_FAMILIES = [["e", "e1", "e10", "e100", "e2", "1e", "e11"], ["n", "nn", "n0", "n00", "0n", "nn0", "n1"]]
TINY = [1e-6, 1e-8, 5e-9, 1e-9, 1e-12]


def rand_length(rng, zero_ok=True):
    r = rng.random()
    if r < 0.05:
        return 0.0 if zero_ok else rng.choice(TINY)
    if r < 0.15:
        return rng.choice(TINY)  # strictly positive but tiny: must be used as given
    if r < 0.25:
        return round(rng.uniform(1.0, 3.0), 4)
    return round(10 ** rng.uniform(-2.3, 0.0), 5)


def rand_tree(rng, ntips, unary=False, root_deg=None, zero_ok=True):
    """nested dict tree {name, len, children}; root has >= 2 children; polytomies allowed"""
    fam = rng.choice(TIP_FAMILIES)
    if ntips > len(fam):
        tnames = [f"t{i}" for i in range(ntips)]
    elif rng.random() < 0.6 and ntips >= 2:
        # make sure at least one prefix pair is present
        tnames = fam[:2] + rng.sample(fam[2:], ntips - 2)
    else:
        tnames = rng.sample(fam, ntips)
    rng.shuffle(tnames)
    inames = list(rng.choice(NODE_FAMILIES))
    rng.shuffle(inames)
    tips = [dict(name=tnames[i], len=None, children=[]) for i in range(ntips)]
    rng.shuffle(tips)
    nodes = tips
    k = 0
    # agglomerate random groups until few enough remain for the root
    if root_deg is None:
        root_deg = rng.choice([2, 3, 3, 3, 4]) if ntips > 3 else rng.choice([2, 3])
    root_deg = min(root_deg, ntips)
    while len(nodes) > root_deg:
        g = rng.choice([2, 2, 2, 3, 4])
        g = min(g, len(nodes) - root_deg + 1)
        if g < 2:
            break
        grp = [nodes.pop(rng.randrange(len(nodes))) for _ in range(g)]
        nodes.append(dict(name=inames[k] if k < len(inames) else f"n{k}x", len=None, children=grp))
        k += 1
    rng.shuffle(nodes)
    root = dict(name="root", len=None, children=nodes)

    def setlen(n):
        for c in n["children"]:
            c["len"] = rand_length(rng, zero_ok)
            setlen(c)

    setlen(root)
    if unary:
        # split one random edge with a unary node
        allnodes = []

        def walk(n):
            for c in n["children"]:
                allnodes.append((n, c))
                walk(c)

        walk(root)
        p, c = rng.choice(allnodes)
        f = rng.uniform(0.1, 0.9)
        mid = dict(name="u0", len=c["len"] * f, children=[c])
        c["len"] = c["len"] * (1 - f)
        p["children"][p["children"].index(c)] = mid
    return root


def newick(n, with_len=True):
    def go(x, top):
        if x["children"]:
            s = "(" + ",".join(go(c, False) for c in x["children"]) + ")" + ("" if top else x["name"])
        else:
            s = x["name"]
        if not top and with_len and x["len"] is not None:
            s += ":" + repr(float(x["len"]))
        return s

    return go(n, True) + ";"


def tree_tips(n):
    return [n["name"]] if not n["children"] else [t for c in n["children"] for t in tree_tips(c)]


def tree_edges(n):
    out = []
    for c in n["children"]:
        out.append(c["name"])
        out += tree_edges(c)
    return out


def count_internal(n):
    return 0 if not n["children"] else 1 + sum(count_internal(c) for c in n["children"])


def rand_alignment(rng, kind, motifs, tree, ncols, ambig_rate=0.12, gap_rate=0.08, dup_rate=0.3, gaps=True):
    """{tip: string}; columns evolve down the tree (so patterns repeat), then ambiguity codes and
    gaps are sprinkled in and some columns are duplicated"""
    tips = tree_tips(tree)
    mlen = len(motifs[0])
    table = IUPAC_PROT if kind == "protein" else IUPAC_DNA
    degenerate = [c for c in table if len(table[c]) > 1 and c not in "-?"]
    cols = []
    while len(cols) < ncols:
        if cols and rng.random() < dup_rate:
            cols.append(dict(rng.choice(cols)))
            continue
        col = {}
        stay = rng.choice([0.5, 0.8, 0.95])

        def go(n, state, pool):
            for c in n["children"]:
                # no substitution across an edge shorter than 1e-5 (incl. the tiny 1e-6..1e-12 ones): a column that
                # needs one has a likelihood at the rounding floor of the float64 matrix exponential, where
                # neither lnL nor its invariances are numerically meaningful
                short = c["len"] is not None and c["len"] < 1e-5
                s = state if short or rng.random() < stay else rng.choice(pool)
                if c["children"]:
                    go(c, s, pool)
                else:
                    col[c["name"]] = s

        pool = motifs
        if kind == "codon" and rng.random() < 0.4:
            # columns built from the codons whose amino acid depends on the genetic code
            pool = [m for m in GC_SENSITIVE if m in motifs] or motifs
        go(tree, rng.choice(pool), pool)
        for t in tips:
            r = rng.random()
            if r < gap_rate and not gaps:
                col[t] = "?" * mlen
            elif r < gap_rate:
                col[t] = rng.choice(["-" * mlen, "?" * mlen]) if mlen == 1 or rng.random() < 0.7 else _partial_gap(rng, col[t])
            elif r < gap_rate + ambig_rate:
                for _ in range(10):
                    m = list(col[t])
                    for p in rng.sample(range(mlen), rng.randint(1, mlen)):
                        m[p] = rng.choice(degenerate)
                    m = "".join(m)
                    if compatible_states(kind, motifs, m):
                        col[t] = m
                        break
        cols.append(col)
    return {t: "".join(c[t] for c in cols) for t in tips}


def _partial_gap(rng, motif):
    m = list(motif)
    for p in rng.sample(range(len(m)), rng.randint(1, len(m) - 1)):
        m[p] = rng.choice("-?")
    return "".join(m)


def rand_mprobs(rng, motifs):
    w = [rng.uniform(0.2, 1.0) ** 2 for _ in motifs]
    s = sum(w)
    return {m: x / s for m, x in zip(motifs, w)}


def rand_problem(rng, name, ntips=None, ncols=None, bins=None, new_type=None, scoped=None, unary=False, root_deg=None,
                 zero_ok=True, gc=None):
    """a JSON-able description of one likelihood-function problem"""
    kind = kind_of(name)
    if ntips is None:
        ntips = rng.randint(3, 7) if kind in ("nucleotide", "dinucleotide") else rng.randint(3, 5)
    tree = rand_tree(rng, ntips, unary=unary, root_deg=root_deg, zero_ok=zero_ok)
    base_kw = {"gc": gc} if gc is not None and kind == "codon" else {}
    sm = get_sm(name, **base_kw)
    motifs = [str(m) for m in sm.get_alphabet()]
    if ncols is None:
        ncols = rng.randint(4, 24) if kind in ("nucleotide", "dinucleotide") else rng.randint(3, 10)
    seqs = rand_alignment(rng, kind, motifs, tree, ncols, gaps=name not in DISCRETE)
    spec = dict(
        model=name, kind=kind, newick=newick(tree), tree=tree, seqs=seqs,
        moltype="protein" if kind == "protein" else "dna",
        new_type=bool(rng.random() < 0.5) if new_type is None else new_type,
        mprobs=rand_mprobs(rng, motifs) if rng.random() < 0.8 else None,
        rules=[], bins=1, model_kw=dict(base_kw),
    )
    if bins is None:
        if name in DISCRETE:
            bins = 1
        elif kind in ("codon", "protein") and not BIG_BINS:
            bins = 1  # a binned variant is a new model object (3-9 s to construct for codon models): thorough tier only
        else:
            bins = rng.choice([1, 1, 1, 2, 3, 4])
    if bins > 1 and name not in DISCRETE:
        spec["bins"] = bins
        spec["model_kw"] = dict(base_kw, ordered_param="rate", distribution=rng.choice(["gamma", "free"]))
    spec["scoped"] = bool(rng.random() < 0.4) if scoped is None else scoped
    spec["seed"] = rng.randrange(1 << 30)
    return spec


def rand_rules(rng, lf, spec):
    """random in-bounds values for every free rate parameter (optionally per-edge scoped), rate
    heterogeneity parameters and bin probabilities; returns the list of rules applied"""
    rules = []
    edges = tree_edges(spec["tree"])
    special = {"mprobs", "length", "bprobs", "rate", "psubs", "dpsubs"}
    names = [p for p in lf.get_param_names() if p not in special and not p.endswith("_shape")]
    big = spec["kind"] in ("codon", "protein")
    nscoped = 0
    for p in names:
        hi = 3.0 if p == "omega" else 8.0
        rules.append(dict(par_name=p, init=round(math.exp(rng.uniform(math.log(0.08), math.log(hi))), 6)))
        if spec["scoped"] and rng.random() < 0.6 and len(edges) > 1 and not (big and nscoped >= 2):
            nscoped += 1
            # (re-scoping a parameter is slow for the parameter-rich codon models: at most 2 parameters x 2 edges there)
            for e in rng.sample(edges, rng.randint(1, min(2, len(edges) - 1) if big else len(edges) - 1)):
                rules.append(dict(par_name=p, edge=e, init=round(math.exp(rng.uniform(math.log(0.08), math.log(hi))), 6)))
    if spec["bins"] > 1:
        k = spec["bins"]
        w = [rng.uniform(0.3, 1.0) for _ in range(k)]
        rules.append(dict(par_name="bprobs", init=[x / sum(w) for x in w]))
    for p in lf.get_param_names():
        if p.endswith("_shape"):
            rules.append(dict(par_name=p, init=round(rng.uniform(0.2, 4.0), 5)))
    return rules


def apply_rules(lf, rules):
    import numpy

    for r in rules:
        r = dict(r)
        if isinstance(r.get("init"), list):
            r["init"] = numpy.array(r["init"])
        lf.set_param_rule(**r)


class deadline:
    """`with deadline(20): ...` raises TimeoutError in the main thread when the body (python-level loops of the
    implementation included) runs longer; a no-op outside the main thread"""

    def __init__(self, seconds):
        self.seconds = seconds
        self.armed = False

    def __enter__(self):
        import signal
        import threading

        if threading.current_thread() is threading.main_thread():
            def onalarm(signum, frame):
                raise TimeoutError(f"no result within {self.seconds} s")

            self.old = signal.signal(signal.SIGALRM, onalarm)
            signal.setitimer(signal.ITIMER_REAL, self.seconds)
            self.armed = True
        return self

    def __exit__(self, *exc):
        import signal

        if self.armed:
            signal.setitimer(signal.ITIMER_REAL, 0)
            signal.signal(signal.SIGALRM, self.old)
        return False


def build_lf(spec, rng=None):
    """the real likelihood function for a problem description (rules are generated on first use)"""
    import cogent3

    sm = get_sm(spec["model"], **spec.get("model_kw", {}))
    tree = cogent3.make_tree(spec["newick"])
    kw = {}
    if spec.get("bins", 1) > 1:
        kw["bins"] = spec["bins"]
    if spec.get("hmm"):
        kw["sites_independent"] = False  # PatchSiteDistribution / SiteHmm instead of the plain bin mixture
    if spec.get("loci"):
        kw["loci"] = [l["name"] for l in spec["loci"]]
    lf = sm.make_likelihood_function(tree, **kw)
    if spec.get("loci"):
        lf.set_alignment([cogent3.make_aligned_seqs(l["seqs"], moltype=spec["moltype"], new_type=spec.get("new_type", False))
                          for l in spec["loci"]])
        for l in spec["loci"]:
            if l.get("mprobs"):
                lf.set_motif_probs(l["mprobs"], locus=l["name"])
    else:
        aln = cogent3.make_aligned_seqs(spec["seqs"], moltype=spec["moltype"], new_type=spec.get("new_type", False))
        lf.set_alignment(aln)
    if spec.get("mprobs"):
        lf.set_motif_probs(spec["mprobs"])
    if not spec.get("rules") and rng is not None:
        # candidate rules; those the model refuses (e.g. a parameter derived from a bin
        # distribution is not settable) are dropped from the description
        kept = []
        for r in rand_rules(rng, lf, spec):
            try:
                apply_rules(lf, [r])
                kept.append(r)
            except (ValueError, KeyError, AssertionError):
                pass
        spec["rules"] = kept
    else:
        apply_rules(lf, spec.get("rules", []))
    return lf


# --------------------------------------------------------------------------
# extraction of the implementation's own numeric inputs
# --------------------------------------------------------------------------
def _root_probs(lf, bin_name, locus=None):
    name = "wprobs" if "wprobs" in lf.defn_for else "mprobs"
    kw = {"edge": "root"}
    if locus is not None:
        kw["locus"] = locus
    if bin_name is not None:
        kw["bin"] = bin_name
    try:
        return lf.get_param_value(name, **kw)
    except Exception:
        kw.pop("bin", None)
        return lf.get_param_value(name, **kw)


def extract(lf, spec, profiles="oracle", locus=None):
    """everything the pruning model needs, as python floats / ints:
    tree (with edge indices), per-bin P matrices and root probabilities, bin probabilities,
    alignment columns as symbol indices and the symbol profiles.
    profiles='oracle': compatible-state sets from the IUPAC tables above;
    profiles='impl': the rows of the implementation's own leaf arrays."""
    import numpy

    motifs = [str(m) for m in lf._motifs]
    kind = spec["kind"]
    mlen = len(motifs[0])
    tree = lf.tree
    edges = []
    tips = []

    def walk(node, is_root):
        e = -1
        if not is_root:
            e = len(edges)
            edges.append(node.name)
        if node.is_tip():
            tips.append(node.name)
            return {"l": len(tips) - 1, "e": e}
        return {"c": [walk(c, False) for c in node.children], "e": e}

    tj = walk(tree, True)
    bin_names = list(lf.bin_names) if lf.bin_names and len(lf.bin_names) > 1 else [None]
    bins = []
    for b in bin_names:
        Ps = []
        for e in edges:
            kw = {} if b is None else {"bin": b}
            if locus is not None:
                kw["locus"] = locus
            Ps.append(numpy.array(lf.get_psub_for_edge(e, **kw).array, dtype=float))
        bins.append(dict(P=Ps, pi=numpy.array(_root_probs(lf, b, locus), dtype=float)))
    bprobs = [float(x) for x in lf.get_param_value("bprobs")] if bin_names != [None] else [1.0]
    # alignment columns (what the implementation was given)
    seqs = spec["seqs"]
    ncols = len(next(iter(seqs.values()))) // mlen
    symbols, symidx, cols = [], {}, []
    lht = lf.get_param_value("lht", **({} if locus is None else {"locus": locus})) if profiles == "impl" else None
    for c in range(ncols):
        col = []
        for t in tips:
            motif = seqs[t][c * mlen : (c + 1) * mlen]
            if motif not in symidx:
                if profiles == "oracle":
                    comp = set(compatible_states(kind, motifs, motif))
                    prof = [1 if i in comp else 0 for i in range(len(motifs))]
                else:
                    prof = None
                symidx[motif] = len(symbols)
                symbols.append([motif, prof])
            col.append(symidx[motif])
        cols.append(col)
    if profiles == "impl":
        # per-leaf rows: symbols become (tip, unique motif) pairs
        symbols, symidx, cols = [], {}, []
        leaves = {t: lht.get_edge(t) for t in tips}
        for c in range(ncols):
            col = []
            for t in tips:
                u = int(leaves[t].index[c])
                key = (t, u)
                if key not in symidx:
                    symidx[key] = len(symbols)
                    symbols.append([f"{t}:{leaves[t].uniq[u]}", [float(x) for x in leaves[t].input_likelihoods[u]]])
                col.append(symidx[key])
            cols.append(col)
    return dict(m=len(motifs), motifs=motifs, tree=tj, edges=edges, tips=tips, bins=bins, bprobs=bprobs,
                symbols=symbols, cols=cols, ncols=ncols)


def n_labelings(ex, col):
    """number of labelings the restricted brute force enumerates for this column (per bin)"""
    m = ex["m"]

    def go(t):
        if "l" in t:
            return sum(1 for x in ex["symbols"][col[t["l"]]][1] if x != 0)
        n = m
        for c in t["c"]:
            n *= go(c)
        return n

    return go(ex["tree"])


def lean_request(ex, brute=()):
    return (
        "lf",
        dict(
            m=ex["m"], tree=ex["tree"], bprobs=[rat(x) for x in ex["bprobs"]],
            bins=[dict(P=[[[rat(float(x)) for x in row] for row in P] for P in b["P"]], pi=[rat(float(x)) for x in b["pi"]]) for b in ex["bins"]],
            symbols=[[rat(x) for x in prof] for _, prof in ex["symbols"]],
            cols=ex["cols"], brute=list(brute),
        ),
    )


def log_fraction(f: Fraction) -> float:
    if f <= 0:
        return float("-inf")
    return math.log(f.numerator) - math.log(f.denominator)


def close(got: float, exact: Fraction, rel=1e-9) -> bool:
    if got != got:
        return False
    if math.isinf(got):
        return False
    return abs(Fraction(got) - exact) <= abs(exact) * Fraction(rel) + Fraction(1, 10**300)


def py_brute_force(ex, col, bin_index=0):
    """independent float brute force over internal-node labelings (numpy-free, for replays/debugging)"""
    m = ex["m"]
    b = ex["bins"][bin_index]
    internal = []

    def collect(t):
        if "c" in t:
            internal.append(t)
            for c in t["c"]:
                collect(c)

    collect(ex["tree"])
    total = 0.0
    for states in itertools.product(range(m), repeat=len(internal)):
        st = {id(n): s for n, s in zip(internal, states)}
        w = float(b["pi"][st[id(ex["tree"])]])
        for n in internal:
            s = st[id(n)]
            for c in n["c"]:
                P = b["P"][c["e"]]
                if "l" in c:
                    prof = ex["symbols"][col[c["l"]]][1]
                    w *= sum(float(P[s][j]) * prof[j] for j in range(m))
                else:
                    w *= float(P[s][st[id(c)]])
            if w == 0.0:
                break
        total += w
    return total
