"""plain picklable functions for the direct util.parallel checks of C14 (no cogent3 import: cheap workers)"""
import time


def slow_square(x):
    # tasks finish out of submission order
    time.sleep(0.02 * ((7 * x) % 5))
    return (x, x * x)
