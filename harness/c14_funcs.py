"""plain picklable functions for the direct util.parallel checks of C14 (no cogent3 import: cheap workers)"""
import time


def slow_square(x):
    # tasks finish out of submission order
    time.sleep(0.02 * ((7 * x) % 5))
    return (x, x * x)


def even_square(x):
    # every task takes the same time: with w workers, w tasks finish together
    time.sleep(0.03)
    return (x, x * x)
