"""C11 — likelihood is invariant under relabelling, reordering and re-rooting."""
from __future__ import annotations

import copy
import math

from . import c02 as C02
from . import c02_util as U
from . import c11_ext as X
from . import c11_scope as S
from .common import add_failure, bump, new_outcome, rat, unrat

PROP = "C11"
PROPS_FILES = ["CogentModel/Props/C11.lean", "CogentModel/Props/C11b.lean", "CogentModel/Props/C11Scope.lean"]
LEAN_TARGETS = ["CogentModel.Props.C11", "CogentModel.Props.C11b", "CogentModel.Props.C11Scope"]
DRIVER = "drv_c11"
TRUSTED = [
    "the pruning model lean/CogentModel/Model/Prune.lean (shared with C02), tied by exact-rational shadow evaluation on "
    "the original AND the transformed problems of this check",
    "the relations themselves are run on the real implementation: lnL(transformed problem) vs lnL(original), "
    "|delta| <= 1e-8*|lnL| (x k for k-fold column repetition)",
    "cogent3's own PhyloNode.rooted_at / rooted_with_tip / unrooted produce the re-rooted trees; their SHAPE (which edge every node "
    "hangs below, children up to order, lengths, refusals) is compared with the executable model rootedAt / unrootedM "
    "(Model/PruneInvariance.lean), for which rooted_at_is_reroot / lh_rooted_at / lh_unrooted_bifurcating_root are proved",
    "the renamed-states problem is built by the harness: letters through the IUPAC sets, motif probabilities, and rate parameters "
    "solved (least squares on the model's predicate masks, per parameter scope) so that the renamed generator is proportional to the original one",
]
ASSUMPTIONS = [
    "reversibility (detailed balance of every edge's P w.r.t. the root distribution) and P(s)P(t)=P(s+t) are hypotheses of the "
    "theorems; the correspondence measures them exactly (driver command `hyp`) on the extracted float64 matrices of up to 8 (quick) / "
    "200 (thorough) problems per run and reports residuals > 1e-9 for reversible models; histograms in the evidence file",
    "float rounding bounded by the stated tolerance, not modelled: |delta lnL| <= 1e-8*|lnL| + sum over columns of 2e-14/lh(column) "
    "(absolute error of the float64 matrix exponential relative to the column likelihood); problems with a column likelihood <= 0 are skipped and counted",
]

REL = 1e-8
NONREV = ("GN", "ssGN", "GNC", "BH", "DT")


# --------------------------------------------------------------------------
# transformations of a problem description
# --------------------------------------------------------------------------
def _tree_from_cogent(node, top=True):
    return dict(name="root" if top else node.name, len=None if top else (float(node.length) if node.length is not None else None),
                children=[_tree_from_cogent(c, False) for c in node.children])


def _with_tree(spec, tree):
    s = copy.deepcopy(spec)
    s["tree"] = tree
    s["newick"] = U.newick(tree)
    return s


def t_columns(spec, rng):
    """permute the columns in motif-sized blocks"""
    mlen = U.motif_len_of(spec["kind"])
    n = len(next(iter(spec["seqs"].values()))) // mlen
    perm = list(range(n))
    rng.shuffle(perm)
    s = copy.deepcopy(spec)
    s["seqs"] = {k: "".join(v[i * mlen : (i + 1) * mlen] for i in perm) for k, v in spec["seqs"].items()}
    return s, 1


def t_seq_order(spec, rng):
    s = copy.deepcopy(spec)
    items = list(spec["seqs"].items())
    rng.shuffle(items)
    s["seqs"] = dict(items)
    return s, 1


def t_children(spec, rng):
    tree = copy.deepcopy(spec["tree"])

    def go(n):
        rng.shuffle(n["children"])
        for c in n["children"]:
            go(c)

    go(tree)
    return _with_tree(spec, tree), 1


def t_repeat(spec, rng):
    k = rng.choice([2, 3, 5])
    mlen = U.motif_len_of(spec["kind"])
    s = copy.deepcopy(spec)
    if rng.random() < 0.5:
        s["seqs"] = {t: v * k for t, v in spec["seqs"].items()}
    else:
        s["seqs"] = {t: "".join(v[i : i + mlen] * k for i in range(0, len(v), mlen)) for t, v in spec["seqs"].items()}
    return s, k


def t_relabel(spec, rng):
    tips = U.tree_tips(spec["tree"])
    taken = set(U.tree_edges(spec["tree"])) | {"root"}
    fams = [f for f in U.TIP_FAMILIES if not (set(f) & (taken - set(tips)))]
    fam = [n for n in rng.choice(fams or U.TIP_FAMILIES)]
    new = rng.sample(fam, len(tips)) if len(tips) <= len(fam) else [f"s{i}x" for i in range(len(tips))]
    ren = dict(zip(tips, new))
    tree = copy.deepcopy(spec["tree"])

    def go(n):
        if not n["children"]:
            n["name"] = ren[n["name"]]
        for c in n["children"]:
            go(c)

    go(tree)
    s = _with_tree(spec, tree)
    s["seqs"] = {ren[t]: v for t, v in spec["seqs"].items()}
    s["rules"] = X.rename_rules(spec["rules"], ren)
    return s, 1


def t_relabel_permute(spec, rng):
    """rename by a PERMUTATION of the existing tip names (swap, 3-cycle or a full derangement) through cogent3's own
    TreeNode.reassign_names (with and without nodes=), the alignment rows and edge-scoped rules renamed the same way"""
    import cogent3

    tips = U.tree_tips(spec["tree"])
    kind = rng.choice(["swap", "cycle3", "derangement"])
    if kind == "swap" or len(tips) < 3:
        a, b = rng.sample(tips, 2)
        ren = {a: b, b: a}
    elif kind == "cycle3":
        a, b, c = rng.sample(tips, 3)
        ren = {a: b, b: c, c: a}
    else:
        sh = tips[:]
        rng.shuffle(sh)
        ren = {sh[i]: sh[(i + 1) % len(sh)] for i in range(len(sh))}
    tree = cogent3.make_tree(spec["newick"])
    with_nodes = rng.random() < 0.5
    if with_nodes:
        tree.reassign_names(ren, nodes=list(tree.tips()))
    else:
        tree.reassign_names(ren)
    s = _with_tree(spec, _tree_from_cogent(tree))
    full = {t: ren.get(t, t) for t in tips}
    s["seqs"] = {full[t]: v for t, v in spec["seqs"].items()}
    s["rules"] = X.rename_rules(spec["rules"], full)
    s["how"] = f"{kind}:{'nodes' if with_nodes else 'all'}"
    return s, 1


def _strip_edge_rules(spec):
    s = copy.deepcopy(spec)
    s["rules"] = [r for r in spec["rules"] if "edge" not in r]
    return s


def reroot_targets(spec):
    """every root placement cogent3 offers by name: rooted_at each internal node, rooted_with_tip each tip"""
    out = []

    def walk(n, top):
        for c in n["children"]:
            if c["children"]:
                out.append(("rooted_at", c["name"]))
            elif not top:
                out.append(("rooted_with_tip", c["name"]))
            walk(c, False)

    walk(spec["tree"], True)
    return out


def t_reroot_to(spec, how, name):
    """cogent3's own rooted_at / rooted_with_tip; edge names (hence edge-scoped parameters) are kept"""
    import cogent3

    tree = cogent3.make_tree(spec["newick"])
    new = tree.rooted_at(name) if how == "rooted_at" else tree.rooted_with_tip(name)
    s = _with_tree(spec, _tree_from_cogent(new))
    s["how"] = how
    s["target"] = name
    return s, 1


def t_reroot(spec, rng):
    cands = reroot_targets(spec)
    if not cands:
        return None
    return t_reroot_to(spec, *rng.choice(cands))


def t_unrooted(spec, rng, flip=False):
    """TreeNode.unrooted(): a bifurcating root is dissolved, the removed edge's length goes onto the sister edge.
    Edge-scoped parameters are dropped on both sides (the two merged edges must share their process)."""
    import cogent3

    if len(spec["tree"]["children"]) != 2 or not any(c["children"] for c in spec["tree"]["children"]):
        return None
    orig = _strip_edge_rules(spec)
    if flip:
        # the same problem with the root's two children in the other order (tip-clade <-> clade-tip)
        tree = copy.deepcopy(orig["tree"])
        tree["children"].reverse()
        orig = _with_tree(orig, tree)
    new = cogent3.make_tree(orig["newick"]).unrooted()
    s = _with_tree(orig, _tree_from_cogent(new))
    s["merged_zero"] = any(c["len"] == 0.0 for c in spec["tree"]["children"])
    return s, 1, orig


def t_midpoint(spec, rng):
    """TreeNode.root_at_midpoint(): may splice a new node into an edge; node names are not kept, so
    edge-scoped parameters are dropped on both sides"""
    import cogent3

    orig = _strip_edge_rules(spec)
    new = cogent3.make_tree(spec["newick"]).root_at_midpoint()
    s = _with_tree(orig, _tree_from_cogent(new))
    s["has_zero"] = any(l == 0.0 for l in _lengths(spec["tree"]))
    return s, 1, orig


def _lengths(n):
    return [c["len"] for c in n["children"]] + [l for c in n["children"] for l in _lengths(c)]


def _edges(tree):
    pairs = []

    def walk(n):
        for c in n["children"]:
            pairs.append((n, c))
            walk(c)

    walk(tree)
    return pairs


def t_split_edge(spec, edge, piece, upper=True):
    """split the named edge in two through a unary node; `piece` is the absolute length of one half
    (the upper one if `upper`); both halves inherit the edge's scoped parameters"""
    tree = copy.deepcopy(spec["tree"])
    p, c = [(p, c) for p, c in _edges(tree) if c["name"] == edge][0]
    total = c["len"]
    if piece >= total:
        piece = total / 2
    up = piece if upper else total - piece
    mid = dict(name="splitnode", len=up, children=[c])
    c["len"] = total - up
    p["children"][p["children"].index(c)] = mid
    s = _with_tree(spec, tree)
    s["rules"] = list(spec["rules"]) + [dict(r, edge="splitnode") for r in spec["rules"] if r.get("edge") == edge]
    s["split_edge"] = edge
    s["split_total"] = total
    s["split_piece"] = min(up, total - up)
    return s, 1


def _rand_piece(rng, total):
    r = rng.random()
    if r < 0.5:
        return rng.choice(U.TINY)
    if r < 0.65:
        return total * rng.choice([1e-3, 1e-6])
    if r < 0.8:
        return total * 0.5
    return total * rng.uniform(0.05, 0.95)


def t_split(spec, rng):
    p, c = rng.choice(_edges(spec["tree"]))
    return t_split_edge(spec, c["name"], _rand_piece(rng, c["len"]), rng.random() < 0.5)


def t_root_on_edge(spec, rng):
    """put the root INSIDE an edge (possibly within 1e-8..1e-12 of a node): split, then rooted_at the new node"""
    p, c = rng.choice(_edges(spec["tree"]))
    if c["len"] == 0.0:
        return None
    s1, _ = t_split_edge(spec, c["name"], _rand_piece(rng, c["len"]), rng.random() < 0.5)
    s2, _ = t_reroot_to(s1, "rooted_at", "splitnode")
    s2["how"] = "root_on_edge"
    for k in ("split_edge", "split_total", "split_piece"):
        s2[k] = s1[k]
    return s2, 1


TRANSFORMS = {
    "columns": t_columns, "seq_order": t_seq_order, "children": t_children, "repeat": t_repeat,
    "relabel": t_relabel, "relabel_permute": t_relabel_permute, "reroot": t_reroot, "split": t_split, "unrooted": t_unrooted,
    "midpoint": t_midpoint, "root_on_edge": t_root_on_edge,
    "state_perm": X.t_state_perm, "contract": X.t_contract, "bifurcating": X.t_bifurcating, "scope_explicit": X.t_scope_explicit,
}
# relations that change the topology or read the rules edge by edge work on the problem with its clade / edge-list scoped
# rules resolved to per-edge rules (independent resolution, X.scope_edges); that the two problems are the same one is the
# relation scope_explicit
ON_RESOLVED = ("split", "unrooted", "midpoint", "root_on_edge", "state_perm", "contract", "bifurcating")
REVERSIBLE_ONLY = ("reroot", "unrooted", "midpoint", "root_on_edge")
CONTINUOUS_ONLY = ("split", "unrooted", "midpoint", "root_on_edge", "contract", "bifurcating")
SHADOWED = ("reroot", "split", "children", "unrooted", "midpoint", "root_on_edge", "state_perm", "contract", "bifurcating")


def applicable(spec, name):
    if name in REVERSIBLE_ONLY and spec["model"] in NONREV:
        return False
    if name in CONTINUOUS_ONLY and spec["model"] in U.DISCRETE:
        return False
    return True


def jobs_for(base, rng, full):
    """the list of (relation name, thunk) run on one base problem"""
    jobs = []
    rb = X.resolved(base)

    def on(t, f):
        """run transform f on the resolved problem when the relation needs per-edge rules, and say which problem is the original"""
        if rb is base or t not in ON_RESOLVED:
            return lambda: f(base)

        def thunk():
            r = f(rb)
            return r if r is None or len(r) > 2 else (r[0], r[1], rb)

        return thunk

    for t in ("columns", "seq_order", "children", "children", "repeat", "relabel", "relabel_permute", "relabel_permute", "unrooted", "midpoint",
              "root_on_edge", "root_on_edge", "state_perm", "state_perm", "contract", "contract", "bifurcating", "scope_explicit"):
        if applicable(base, t):
            jobs.append((t, on(t, lambda b, t=t: TRANSFORMS[t](b, rng))))
    if applicable(base, "unrooted"):
        jobs.append(("unrooted", on("unrooted", lambda b: t_unrooted(b, rng, flip=True))))
    if applicable(base, "reroot"):
        for how, name in reroot_targets(base):
            jobs.append(("reroot", (lambda how=how, name=name: t_reroot_to(base, how, name))))
    if applicable(base, "split"):
        edges = _edges(base["tree"])
        pend = [c for _, c in edges if not c["children"]]
        inner = [c for _, c in edges if c["children"]]
        chosen = edges and [c for _, c in edges] if full else ([rng.choice(pend)] + ([rng.choice(inner)] if inner else []) + [rng.choice(edges)[1], rng.choice(edges)[1]])
        for c in chosen:
            jobs.append(("split", on("split", lambda b, c=c: t_split_edge(b, c["name"], _rand_piece(rng, c["len"]), rng.random() < 0.5))))
    return jobs


# --------------------------------------------------------------------------
def _rel_sig(tname, base, spec2):
    """failure class: relation, model kind, bins; a split of an edge whose length in the tree is exactly 0.0 is its own class"""
    t = tname
    if tname in ("split", "root_on_edge") and spec2.get("split_total") == 0.0:
        t = "split-of-zero-length-edge"
    elif tname in ("split", "root_on_edge") and spec2.get("split_piece", 1.0) <= 1e-6:
        t = tname + "-tiny-piece"
    elif tname == "unrooted" and spec2.get("merged_zero"):
        t = "unrooted-with-zero-length-edge"
    elif tname == "reroot":
        t = "reroot-" + str(spec2.get("how"))
    elif tname == "relabel_permute":
        t = "relabel_permute-" + str(spec2.get("how", "")).split(":")[0]
    elif tname == "contract":
        t = "contract-" + ("star" if spec2.get("contracted_all") else "root-child" if spec2.get("contracted_at_root") else "deeper")
    return (f"rel:{t}:{base['kind']}:bins={'y' if base.get('bins', 1) > 1 else 'n'}"
            + (":tied-rate-terms" if base.get("adversarial") and "zero-length-edge" not in t else "")
            + (":user-model:" + str(base["user_layout"]) if base.get("user_layout") and "zero-length-edge" not in t else "")
            + (":scoped-by-tips" if base.get("scope_rules") and not base.get("resolved_scopes") and "zero-length-edge" not in t else ""))


def _slack(lf):
    """rounding allowance: every float64 P entry carries an absolute error of about 1e-15 from the matrix
    exponential, so a column likelihood lh has relative error up to ~2e-14/lh and lnL an absolute error up to the
    sum of that over the columns (negligible for nucleotide problems, matters for 61-state columns ~1e-10)"""
    fl = [float(x) for x in lf.get_full_length_likelihoods()]
    if any((not x > 0.0) or x != x for x in fl):
        return float("inf")
    return sum(2e-14 / x for x in fl)


def _lnl(spec):
    lf = U.build_lf(spec, None)
    return lf, float(lf.lnL)


def _holds(l2, want, slack):
    if slack == float("inf"):
        return None  # a column likelihood at or below the rounding floor: the comparison is not meaningful
    return abs(l2 - want) <= REL * abs(want) + 1e-12 + slack


NEAR_DEFECTIVE = [
    {"A>C": 1.0, "C>T": 1.0, "_other": 1e-4},
    {"A>G": 3.0, "C>T": 3.0, "T>A": 3.0, "_other": 1.0},
    {"A>C": 1.0, "C>G": 1.0, "G>T": 1.0, "_other": 1e-3},
]


def _adversarial_rules(rng, name):
    """in-bounds settings with tied / equal / nearly vanishing rate terms: the generator is defective or nearly so, which
    is where an unchecked eigen-decomposition goes wrong while P(s)P(t) = P(s+t) must still hold"""
    sm = U.get_sm(name)
    pnames = [p for p in sm.get_param_list()]
    r = rng.random()
    if name == "GN" and r < 0.85:
        pat = rng.choice(NEAR_DEFECTIVE)
        other = pat["_other"] * rng.choice([1.0, 1.0, 0.5, 2.0])
        return [dict(par_name=p, init=pat.get(p, other)) for p in pnames]
    pool = rng.choice([[1.0], [1.0, 3.0], [1e-4, 1.0], [1e-3, 1e-3, 1.0, 2.0], [0.5, 0.5, 2.0], [1e-6, 1.0, 1e6]])
    return [dict(par_name=p, init=rng.choice(pool)) for p in pnames]


def _pairs(ctx, rng, plan, out, collect=None, only=None, adversarial=False, force_scope=False, user=None):
    """for every base problem run the applicable relations on the real implementation.
    plan: [(model name, max number of relations or None for all)]"""
    for name, limit in plan:
        kind = U.kind_of(name)
        small = kind in ("codon", "protein")
        base = U.rand_problem(rng, name, ntips=rng.randint(3, 5) if small else (rng.randint(5, 7) if force_scope else None),
                              ncols=rng.randint(3, 8) if small else None, root_deg=2 if rng.random() < 0.45 else None)
        if user:
            base["user_layout"] = user.get(name)
        if not base["mprobs"]:
            # motif probabilities estimated from the alignment use a pseudocount, i.e. are a different *parameter value*
            # after repeating columns; the relations are between runs with identical parameters
            base["mprobs"] = U.rand_mprobs(rng, [str(m) for m in U.get_sm(name).get_alphabet()])
        try:
            if adversarial and kind == "nucleotide" and name not in U.DISCRETE:
                base["rules"] = _adversarial_rules(rng, name)
                base["scoped"] = False
                base["adversarial"] = True
                bump(out, "adversarial_parameters", name)
                lf0 = U.build_lf(base, None)
            else:
                lf0 = U.build_lf(base, rng)  # generates the rules
                if (force_scope or rng.random() < 0.8) and X.add_scope_rules(base, rng):
                    lf0 = U.build_lf(base, None)
                    bump(out, "scope_rules", X.scope_kind(base))
                    for r in base["rules"]:
                        if "tip_names" in r:
                            bump(out, "outgroup_vs_lca_as_rooted", X.outgroup_layout(base["tree"], r))
            l0 = float(lf0.lnL)
            slack0 = _slack(lf0)
        except Exception as e:
            add_failure(out, "spec", "likelihood function construction raised", C02._slim(base), "a likelihood function",
                        f"{type(e).__name__}: {e}", sig=f"build-raised:{kind}:{type(e).__name__}")
            continue
        if collect is not None:
            collect.append(base)
        bump(out, "root_layout", _root_layout(base["tree"]))
        jobs = jobs_for(base, rng, ctx.thorough or adversarial)
        if only:
            jobs = [j for j in jobs if j[0] in only]
        if limit is not None and len(jobs) > limit:
            jobs = rng.sample(jobs, limit)
        ref = {}
        ncollected = 0
        for tname, thunk in jobs:
            inp = dict(relation=tname, original=C02._slim(base))
            try:
                r = thunk()
            except Exception as e:
                add_failure(out, "spec", f"building the transformed problem ({tname}) raised", inp, "a tree",
                            f"{type(e).__name__}: {e}", sig=f"rel-raised:{tname}:{kind}:{type(e).__name__}")
                continue
            if r is None:
                bump(out, "skipped", tname)
                continue
            spec2, k = r[0], r[1]
            orig = r[2] if len(r) > 2 else base
            out["evaluations"] += 1
            bump(out, "relation", tname if tname != "reroot" else "reroot-" + spec2.get("how", ""))
            bump(out, "kind", kind)
            bump(out, "model", name)
            if "contracted" in spec2:
                bump(out, "max_node_degree_after_contraction", max(len(n["children"]) for n in [spec2["tree"]] + [c for _, c in _edges(spec2["tree"])]))
            if "split_piece" in spec2:
                bump(out, "split_piece_log10", "zero" if spec2["split_piece"] == 0 else int(math.floor(math.log10(spec2["split_piece"]))))
            inp = dict(relation=tname, k=k, original=C02._slim(orig), transformed=C02._slim(spec2))
            try:
                if orig is not base:
                    key = (orig["newick"], repr(orig["rules"]))
                    if key not in ref:
                        lfo, lo = _lnl(orig)
                        ref[key] = (lo, _slack(lfo))
                    lref, sref = ref[key]
                else:
                    lref, sref = l0, slack0
                lf2, l2 = _lnl(spec2)
                slack = k * sref + _slack(lf2)
            except Exception as e:
                add_failure(out, "spec", f"transformed problem ({tname}) raised", inp, "a likelihood function",
                            f"{type(e).__name__}: {e}", sig=f"rel-raised:{tname}:{kind}:{type(e).__name__}")
                continue
            want = k * lref
            ok = _holds(l2, want, slack)
            if ok is None:
                bump(out, "ill_conditioned_skipped", tname)
            elif not ok:
                add_failure(out, "spec", f"lnL changes under {tname}", inp, want, l2, sig=_rel_sig(tname, orig, spec2))
            else:
                out["nontrivial"].add((name, base["seed"], tname, spec2.get("target"), spec2.get("split_edge"), spec2.get("split_piece")))
            if collect is not None and ncollected < 3 and tname in SHADOWED:
                collect.append(spec2)
                ncollected += 1
            if len(out["samples"]) < 8 and tname in ("reroot", "split", "unrooted", "midpoint", "root_on_edge") and rng.random() < 0.2:
                out["samples"].append(dict(relation=tname, model=name, original=orig["newick"], transformed=spec2["newick"],
                                           lnL=lref, lnL_transformed=l2))
        # negative control: non-reversible models are expected to change under re-rooting
        if name in ("GN", "ssGN"):
            r = t_reroot(base, rng)
            if r is not None:
                try:
                    _, l2 = _lnl(r[0])
                    bump(out, "nonreversible_reroot_changes_lnL", abs(l2 - l0) > REL * abs(l0))
                except Exception:
                    pass


def _root_layout(tree):
    cs = tree["children"]
    if len(cs) != 2:
        return f"polytomy{len(cs)}"
    return "-".join("clade" if c["children"] else "tip" for c in cs)


def _plan(ctx, rng, n_nuc, n_codon, n_prot, n_dinuc, big_limit=5):
    kinds = U.model_kinds()
    nuc = X.canned([m for m, k in kinds.items() if k == "nucleotide"])
    codon = [m for m, k in kinds.items() if k == "codon"]
    prot = [m for m, k in kinds.items() if k == "protein"]
    rng.shuffle(nuc)
    plan = [(nuc[i % len(nuc)], None) for i in range(n_nuc)]
    for i in range(n_codon):
        plan.append((codon[(ctx.seed * n_codon + i) % len(codon)], None if ctx.thorough else big_limit))
    for i in range(n_prot):
        plan.append((prot[(ctx.seed * n_prot + i) % len(prot)], None if ctx.thorough else 2 * big_limit))
    plan += [(U.DINUC, None if ctx.thorough else 2 * big_limit)] * n_dinuc
    return plan


def spec_check(ctx, budget):
    out = new_outcome(
        "relations on the real implementation: lnL(original) vs lnL(transformed) for columns permuted in motif blocks, "
        "sequence order, children order at every node (twice), every column (or the whole alignment) repeated k in {2,3,5} "
        "times, tips renamed, root moved with rooted_at EVERY internal node and rooted_with_tip EVERY tip (reversible models; "
        "edge-scoped parameters kept by edge name), TreeNode.unrooted() of bifurcating roots (tip-clade, clade-tip, clade-clade "
        "child orders) and root_at_midpoint() (edge-scoped parameters dropped on both sides), root placed INSIDE an edge, an "
        "edge split through a unary node (a pendant, an internal and two random edges; every edge in thorough) with pieces "
        "1e-6/1e-8/5e-9/1e-9/1e-12, very unequal and equal splits; tip and node names from families of mutual prefixes / "
        "suffixes / substrings (t1,t10,t100,t,1t / a,ab,abc / Hum,Human ...); branch lengths incl. 0.0 and tiny positive ones; "
        "nucleotide models all, codon/protein rotating with the seed (all in thorough), a dinucleotide model; trees 3-7 tips with "
        "polytomies, ambiguity, gaps, 1-4 bins, scoped parameters; the four nucleotides renamed by a random permutation that is an "
        "automorphism of the model's parameter structure (letters incl. ambiguity codes, motif probabilities and rate parameters per scope "
        "move together; twice); one internal edge (or EVERY internal edge: star tree) given length 0 by a rule vs the tree with those nodes "
        "dissolved (twice); cogent3's own bifurcating() with the new edges at length 0; "
        "rate parameters scoped by tip_names + outgroup_name (clade / stem / both) or edges=[...] on most problems and in a dedicated pass under "
        "EVERY root placement, with scope_explicit = the same rule given edge by edge for the edge set computed on the undirected tree; "
        "user-built TimeReversibleNucleotide models from seven predicate-set layouts (those the library accepts) under the re-rooting relations; "
        "tolerance 1e-8*|lnL|; non-trivial = (model, problem, relation, target) that held"
    )
    rng = ctx.subrng(f"spec{budget}")
    U.BIG_BINS = ctx.thorough
    if ctx.thorough:
        plan = _plan(ctx, rng, 12 * budget, 2 * budget, budget, 2)
    elif budget <= 1:
        plan = _plan(ctx, rng, 14, 2, 2, 1)
    else:
        plan = _plan(ctx, rng, 10 * budget, max(2, budget // 2), max(1, budget // 2), 2)
    _pairs(ctx, rng, plan, out)
    # tied / near-defective in-bounds parameters: every edge split (and the root inside an edge / moved, for the reversible
    # models) for the continuous-time nucleotide models, non-reversible GN / ssGN included
    kinds = U.model_kinds()
    nuc = X.canned([m for m, k in kinds.items() if k == "nucleotide" and m not in U.DISCRETE])
    n_adv = (8 if budget <= 1 else 4 * budget) * (3 if ctx.thorough else 1)
    adv = [(("GN", "GN", "GN", "ssGN")[(i // 2) % 4] if i % 2 == 0 else nuc[(i + ctx.seed) % len(nuc)], None) for i in range(n_adv)]
    _pairs(ctx, rng, adv, out, only=("split", "root_on_edge", "reroot", "midpoint"), adversarial=True)
    # parameters scoped by a clade specification (tip_names + outgroup_name, clade / stem) or an edge list, 5-7 tips: EVERY root
    # placement, the independently resolved scope, children order, tips renamed (the rule's names renamed with them)
    with_params = [m for m in nuc if getattr(U.get_sm(m), "predicate_masks", None)]
    n_sc = (6 if budget <= 1 else 3 * budget) * (3 if ctx.thorough else 1)
    sc = [(with_params[(i + ctx.seed) % len(with_params)], None) for i in range(n_sc)]
    _pairs(ctx, rng, sc, out, only=("reroot", "scope_explicit", "children", "relabel", "relabel_permute"), force_scope=True)
    # user-built models: every predicate-set layout (symmetric / nested / one-directional terms balanced within a parameter,
    # mirrored across parameters, single, cyclic); whatever the library hands out as TimeReversible must pass the relations
    for rep in range(1 if budget <= 1 else budget):
        acc = X.user_models(rng, out)
        _pairs(ctx, rng, [(name, None if ctx.thorough else 8) for _, name in acc], out,
               only=("reroot", "root_on_edge", "midpoint", "unrooted", "state_perm", "children", "split"), user=dict((n, l) for l, n in acc))
    return out


def _mat_rat(P):
    return [[rat(float(x)) for x in row] for row in P]


def _hypotheses(ctx, specs, rng, out, limit):
    """the HYPOTHESES of lh_reroot_* (detailed balance of every edge's P w.r.t. the root distribution) and of
    lh_edge_split (P1 * P2 == P, with the model's own matMul) measured in exact arithmetic by the driver (`hyp`) on the
    float64 matrices of real likelihood functions: reversible models must meet them to 1e-9 (else the theorems do not
    speak about that run: reported), the non-reversible GN/ssGN serve as the control that the measure discriminates"""
    done = 0
    for spec in specs:
        if done >= limit:
            break
        if spec["model"] in U.DISCRETE or any(k in spec for k in ("split_edge", "how", "merged_zero", "has_zero", "contracted", "added_edges")):
            continue
        done += 1
        spec = X.resolved(spec)
        rev = spec["model"] not in NONREV
        try:
            lf = U.build_lf(spec, None)
            ex = U.extract(lf, spec, profiles="impl")
            cands = [c for _, c in _edges(spec["tree"]) if c["len"]]
            ex2 = edge = None
            if cands:
                edge = rng.choice(cands)["name"]
                s2, _ = t_split_edge(spec, edge, _rand_piece(rng, [c for c in cands if c["name"] == edge][0]["len"]), rng.random() < 0.5)
                ex2 = U.extract(U.build_lf(s2, None), s2, profiles="impl")
        except Exception as e:
            add_failure(out, "corr", "hypothesis measurement: building the likelihood function raised", C02._slim(spec), "a likelihood function",
                        f"{type(e).__name__}: {e}", confirmed=False)
            continue
        reqs, meta = [], []
        for b, bn in enumerate(ex["bins"]):
            pi = [rat(float(x)) for x in bn["pi"]]
            for e, P in zip(ex["edges"], bn["P"]):
                req = dict(m=ex["m"], pi=pi, P=_mat_rat(P))
                if ex2 is not None and e == edge:
                    b2 = ex2["bins"][b]
                    req["P1"] = _mat_rat(b2["P"][ex2["edges"].index("splitnode")])
                    req["P2"] = _mat_rat(b2["P"][ex2["edges"].index(edge)])
                reqs.append(("hyp", req))
                meta.append((b, e))
        for (b, e), r in zip(meta, ctx.driver.batch(reqs)):
            out["evaluations"] += 1
            if "error" in r:
                add_failure(out, "corr", "driver error (hyp)", C02._slim(spec), "reply", r["error"], confirmed=False)
                break
            db, rows = float(unrat(r["db"])), float(unrat(r["rows"]))
            lg = lambda x: "exact" if x == 0 else max(-20, int(math.floor(math.log10(x))))
            bump(out, "detailed_balance_residual_log10:" + ("reversible" if rev else "nonreversible"), lg(db))
            bump(out, "row_sum_residual_log10", lg(rows))
            if rows > 1e-9 or (rev and db > 1e-9):
                add_failure(out, "corr", "theorem hypothesis (detailed balance / row-stochastic P) not met by the implementation's matrices",
                            dict(C02._slim(spec), edge=e, bin=b), "<= 1e-9", dict(detailed_balance=db, row_sum=rows), confirmed=False)
            elif rev:
                out["nontrivial"].add((spec["model"], spec["seed"], "hyp-db", e, b))
            if r.get("split") is not None:
                sp = float(unrat(r["split"]))
                bump(out, "split_product_residual_log10", lg(sp))
                if sp > 1e-9:
                    add_failure(out, "corr", "theorem hypothesis P1*P2 == P (lh_edge_split) not met by the implementation's matrices",
                                dict(C02._slim(spec), edge=e, bin=b), "<= 1e-9", sp, confirmed=False)
                else:
                    out["nontrivial"].add((spec["model"], spec["seed"], "hyp-split", e, b))


def generate(ctx):
    """wave 3: re-translate get_edge_names / _process_scope_info (translator/c11_scope2lean.py -> Gen/C11Scope.lean)"""
    return S.generate(ctx)


def correspondence(ctx):
    out = new_outcome(
        "the shared pruning model vs the implementation (C02's shadow, leaf arrays from the implementation) on original "
        "and transformed (re-rooted incl. unary old roots, unrooted, midpoint-rooted, edge-split, child-reordered) problems; "
        "plus the theorem hypotheses measured exactly on the implementation's matrices (driver `hyp`: detailed balance of every "
        "edge/bin P w.r.t. the root distribution, row sums, P(upper piece)*P(lower piece) == P(edge) through the model's matMul "
        "for one split edge per problem; reversible models must meet them to 1e-9, GN/ssGN are the control); "
        "the executable tree operations rootedAt / unrootedM vs cogent3's rooted_at (every node incl. tips, which both refuse, and the root) / "
        "rooted_with_tip (every tip) / unrooted() on random trees with polytomies, unary nodes and unary roots (shape up to sibling order, "
        "edge under every node, lengths incl. the merged one); the modelled calcQ vs the real StationaryQ.calcQ (the method with arbitrary "
        "inputs, and every nucleotide + one protein model, where the symmetry of the exchangeabilities is measured); "
        "the TRANSLATED get_edge_names / _process_scope_info (Gen/C11Scope.lean, driver `scope`, tree primitives answered from tables "
        "filled by cogent3's own primitives) vs the real functions on random trees: tip_names of tips / internal nodes / missing names / "
        "1-3 names, outgroup a tip / internal node / missing / none, clade and stem given or defaulted, edge= and edges= mixed in; "
        "edge lists compared in order, refusals by kind; "
        "non-trivial = >= 2 unique columns / hypothesis met on a reversible problem"
    )
    rng = ctx.subrng("corr")
    U.BIG_BINS = ctx.thorough
    rel = new_outcome()
    plan = _plan(ctx, rng, 100, 10, 6, 2) if ctx.thorough else _plan(ctx, rng, 8, 1, 1, 1)
    specs = []
    _pairs(ctx, rng, [(m, 4) for m, _ in plan], rel, collect=specs, only=SHADOWED)
    for k, v in rel["dist"].items():
        if k in ("relation",):
            out["dist"]["transformed_" + k] = v
    # relational failures found on the way are genuine spec failures
    out["failures"] += [f for f in rel["failures"] if f["kind"] == "spec"]
    C02.evaluate(ctx, specs, None, "impl", 0, out, "corr")
    X.shape_tie(ctx, rng, out, 150 if ctx.thorough else 12)
    X.calcq_tie(ctx, rng, out, 400 if ctx.thorough else 40)
    S.scope_tie(ctx, rng, out, 300 if ctx.thorough else 30)
    _hypotheses(ctx, specs, rng, out, 200 if ctx.thorough else 8)
    return out


# --------------------------------------------------------------------------
def match_finding(f, k):
    if f.get("sig") not in k.get("sigs", []):
        return False
    r = k.get("restrict") or {}
    inp = f.get("input") or {}
    model = (inp.get("original") or inp).get("model")
    if r.get("models") and model not in r["models"]:
        return False
    if r.get("relations") and inp.get("relation") not in r["relations"]:
        return False
    return True


def _recheck(inp):
    out = new_outcome()
    try:
        lf0, l0 = _lnl(inp["original"])
    except ValueError:
        if str(inp["original"].get("model", "")).startswith(X.USER_PREFIX):
            return None  # the library refuses to build this user-defined model as time-reversible: nothing to compare
        raise
    try:
        lf2, l2 = _lnl(inp["transformed"])
    except Exception as e:
        kind = inp["original"]["kind"]
        add_failure(out, "spec", f"transformed problem ({inp['relation']}) raised", inp, "a likelihood function",
                    f"{type(e).__name__}: {e}", sig=f"rel-raised:{inp['relation']}:{kind}:{type(e).__name__}")
        return out["failures"][0]
    want = inp.get("k", 1) * l0
    if _holds(l2, want, inp.get("k", 1) * _slack(lf0) + _slack(lf2)) is False:
        base = inp["original"]
        add_failure(out, "spec", f"lnL changes under {inp['relation']}", inp, want, l2,
                    sig=_rel_sig(inp["relation"], base, inp["transformed"]))
        return out["failures"][0]
    return None


def check_witness(ctx, w):
    return _recheck(w)


def replay(ctx, data):
    f = data.get("failing_input") or {}
    inp = f.get("input")
    if not inp or "original" not in inp:
        return False
    r = _recheck(inp)
    if r:
        print("still fails:", r["what"], "expected", r["expected"], "got", r["got"])
    return r is not None
