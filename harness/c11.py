"""C11 — likelihood is invariant under relabelling, reordering and re-rooting."""
from __future__ import annotations

import copy
import math

from . import c02 as C02
from . import c02_util as U
from .common import add_failure, bump, new_outcome

PROP = "C11"
PROPS_FILES = ["CogentModel/Props/C11.lean"]
LEAN_TARGETS = ["CogentModel.Props.C11"]
DRIVER = "drv_c11"
TRUSTED = [
    "the pruning model lean/CogentModel/Model/Prune.lean (shared with C02), tied by exact-rational shadow evaluation on "
    "the original AND the transformed problems of this check",
    "the relations themselves are run on the real implementation: lnL(transformed problem) vs lnL(original), "
    "|delta| <= 1e-8*|lnL| (x k for k-fold column repetition)",
    "cogent3's own PhyloNode.rooted_at / rooted_with_tip produce the re-rooted trees (checked to keep tip set, edge names and lengths)",
]
ASSUMPTIONS = [
    "reversibility (detailed balance of every edge's P w.r.t. the root distribution) and P(s)P(t)=P(s+t) are hypotheses of the "
    "theorems; the harness measures them on the extracted float64 matrices and reports the residuals",
    "float rounding bounded by the stated tolerance, not modelled",
]

REL = 1e-8
NONREV = ("GN", "ssGN", "GNC", "BH", "DT")


# --------------------------------------------------------------------------
# transformations of a problem description
# --------------------------------------------------------------------------
def _tree_from_cogent(node, top=True):
    return dict(name="root" if top else node.name, len=None if top else (float(node.length) if node.length is not None else None),
                children=[_tree_from_cogent(c, False) for c in node.children])


def _with_tree(spec, tree):
    s = copy.deepcopy(spec)
    s["tree"] = tree
    s["newick"] = U.newick(tree)
    return s


def t_columns(spec, rng):
    """permute the columns in motif-sized blocks"""
    mlen = U.motif_len_of(spec["kind"])
    n = len(next(iter(spec["seqs"].values()))) // mlen
    perm = list(range(n))
    rng.shuffle(perm)
    s = copy.deepcopy(spec)
    s["seqs"] = {k: "".join(v[i * mlen : (i + 1) * mlen] for i in perm) for k, v in spec["seqs"].items()}
    return s, 1


def t_seq_order(spec, rng):
    s = copy.deepcopy(spec)
    items = list(spec["seqs"].items())
    rng.shuffle(items)
    s["seqs"] = dict(items)
    return s, 1


def t_children(spec, rng):
    tree = copy.deepcopy(spec["tree"])

    def go(n):
        rng.shuffle(n["children"])
        for c in n["children"]:
            go(c)

    go(tree)
    return _with_tree(spec, tree), 1


def t_repeat(spec, rng):
    k = rng.choice([2, 3, 5])
    mlen = U.motif_len_of(spec["kind"])
    s = copy.deepcopy(spec)
    if rng.random() < 0.5:
        s["seqs"] = {t: v * k for t, v in spec["seqs"].items()}
    else:
        s["seqs"] = {t: "".join(v[i : i + mlen] * k for i in range(0, len(v), mlen)) for t, v in spec["seqs"].items()}
    return s, k


def t_relabel(spec, rng):
    tips = U.tree_tips(spec["tree"])
    new = [f"s{i}x" for i in range(len(tips))]
    rng.shuffle(new)
    ren = dict(zip(tips, new))
    tree = copy.deepcopy(spec["tree"])

    def go(n):
        if not n["children"]:
            n["name"] = ren[n["name"]]
        for c in n["children"]:
            go(c)

    go(tree)
    s = _with_tree(spec, tree)
    s["seqs"] = {ren[t]: v for t, v in spec["seqs"].items()}
    s["rules"] = [dict(r, edge=ren.get(r["edge"], r["edge"])) if "edge" in r else r for r in spec["rules"]]
    return s, 1


def t_reroot(spec, rng):
    """cogent3's own rooted_at / rooted_with_tip; edge names (hence edge-scoped parameters) are kept"""
    import cogent3

    tree = cogent3.make_tree(spec["newick"])
    internal = [n.name for n in tree.postorder() if n.children and n is not tree]
    if internal and rng.random() < 0.6:
        new = tree.rooted_at(rng.choice(internal))
        how = "rooted_at"
    else:
        cands = [t.name for t in tree.tips() if t.parent is not tree]
        if not cands:
            return None
        new = tree.rooted_with_tip(rng.choice(cands))
        how = "rooted_with_tip"
    # sanity of the tree operation itself (the relation is about the likelihood, not about C09)
    old_edges = {n.name: n.length for n in tree.postorder() if n is not tree}
    new_edges = {n.name: n.length for n in new.postorder() if n is not new}
    if old_edges != new_edges:
        return None
    s = _with_tree(spec, _tree_from_cogent(new))
    s["how"] = how
    return s, 1


def t_split(spec, rng):
    """split one edge in two through a unary node; both halves inherit the edge's scoped parameters"""
    tree = copy.deepcopy(spec["tree"])
    pairs = []

    def walk(n):
        for c in n["children"]:
            pairs.append((n, c))
            walk(c)

    walk(tree)
    p, c = rng.choice(pairs)
    f = rng.choice([0.5, rng.uniform(0.05, 0.95)])
    total = c["len"]
    mid = dict(name="splitnode", len=total * f, children=[c])
    c["len"] = total - mid["len"]
    p["children"][p["children"].index(c)] = mid
    s = _with_tree(spec, tree)
    s["rules"] = list(spec["rules"]) + [dict(r, edge="splitnode") for r in spec["rules"] if r.get("edge") == c["name"]]
    s["split_edge"] = c["name"]
    s["split_total"] = total
    return s, 1


TRANSFORMS = {
    "columns": t_columns, "seq_order": t_seq_order, "children": t_children, "repeat": t_repeat,
    "relabel": t_relabel, "reroot": t_reroot, "split": t_split,
}


def applicable(spec, name):
    if name == "reroot":
        return spec["model"] not in NONREV
    if name == "split":
        return spec["model"] not in U.DISCRETE
    return True


# --------------------------------------------------------------------------
def _rel_sig(tname, base, spec2):
    """failure class: relation, model kind, bins; a split of an edge whose length in the tree is exactly 0.0 is its own class"""
    t = tname
    if tname == "split" and spec2.get("split_total") == 0.0:
        t = "split-of-zero-length-edge"
    return f"rel:{t}:{base['kind']}:bins={'y' if base.get('bins', 1) > 1 else 'n'}"


def _lnl(spec):
    lf = U.build_lf(spec, None)
    return lf, float(lf.lnL)


def _pairs(ctx, rng, plan, out, collect=None):
    """for every base problem run the applicable relations on the real implementation"""
    for name, which in plan:
        kind = U.kind_of(name)
        small = kind in ("codon", "protein")
        base = U.rand_problem(rng, name, ntips=rng.randint(3, 5) if small else None, ncols=rng.randint(3, 8) if small else None)
        if not base["mprobs"]:
            # motif probabilities estimated from the alignment use a pseudocount, i.e. are a different *parameter value*
            # after repeating columns; the relations are between runs with identical parameters
            base["mprobs"] = U.rand_mprobs(rng, [str(m) for m in U.get_sm(name).get_alphabet()])
        try:
            lf0 = U.build_lf(base, rng)  # generates the rules
            l0 = float(lf0.lnL)
        except Exception as e:
            add_failure(out, "spec", "likelihood function construction raised", C02._slim(base), "a likelihood function",
                        f"{type(e).__name__}: {e}", sig=f"build-raised:{kind}:{type(e).__name__}")
            continue
        if collect is not None:
            collect.append(base)
        names = [t for t in (which or TRANSFORMS) if applicable(base, t)]
        for tname in names:
            r = TRANSFORMS[tname](base, rng)
            if r is None:
                bump(out, "skipped", tname)
                continue
            spec2, k = r
            out["evaluations"] += 1
            bump(out, "relation", tname)
            bump(out, "kind", kind)
            bump(out, "model", name)
            inp = dict(relation=tname, k=k, original=C02._slim(base), transformed=C02._slim(spec2))
            try:
                lf2, l2 = _lnl(spec2)
            except Exception as e:
                add_failure(out, "spec", f"transformed problem ({tname}) raised", inp, "a likelihood function",
                            f"{type(e).__name__}: {e}", sig=f"rel-raised:{tname}:{kind}:{type(e).__name__}")
                continue
            want = k * l0
            if not (abs(l2 - want) <= REL * abs(want) + 1e-12):
                add_failure(out, "spec", f"lnL changes under {tname}", inp, want, l2, sig=_rel_sig(tname, base, spec2))
            else:
                out["nontrivial"].add((name, base["seed"], tname))
            if collect is not None and tname in ("reroot", "split", "children"):
                collect.append(spec2)
            if len(out["samples"]) < 6 and tname in ("reroot", "split"):
                out["samples"].append(dict(relation=tname, model=name, original=base["newick"], transformed=spec2["newick"],
                                           lnL=l0, lnL_transformed=l2))
        # negative control: non-reversible models are expected to change under re-rooting
        if name in ("GN", "ssGN") and base["mprobs"]:
            r = t_reroot(base, rng)
            if r is not None:
                try:
                    _, l2 = _lnl(r[0])
                    bump(out, "nonreversible_reroot_changes_lnL", abs(l2 - l0) > REL * abs(l0))
                except Exception:
                    pass


def _plan(ctx, rng, n_nuc, n_codon, n_prot, n_dinuc):
    kinds = U.model_kinds()
    nuc = [m for m, k in kinds.items() if k == "nucleotide"]
    codon = [m for m, k in kinds.items() if k == "codon"]
    prot = [m for m, k in kinds.items() if k == "protein"]
    rng.shuffle(nuc)
    plan = [(nuc[i % len(nuc)], None) for i in range(n_nuc)]
    for i in range(n_codon):
        m = codon[(ctx.seed * n_codon + i) % len(codon)]
        plan.append((m, rng.sample(list(TRANSFORMS), 3) if not ctx.thorough else None))
    for i in range(n_prot):
        plan.append((prot[(ctx.seed * n_prot + i) % len(prot)], None))
    plan += [(U.DINUC, None)] * n_dinuc
    return plan


def spec_check(ctx, budget):
    out = new_outcome(
        "relations on the real implementation: lnL(original) vs lnL(transformed) for columns permuted in motif blocks, "
        "sequence order, children order at every node, every column (or the whole alignment) repeated k in {2,3,5} "
        "times, tips renamed, root moved with rooted_at/rooted_with_tip (reversible models; edge-scoped parameters kept by "
        "edge name), an edge split through a unary node (continuous-time models); nucleotide models all, codon/protein "
        "rotating with the seed (all in thorough), a dinucleotide model; trees 3-7 tips with polytomies, ambiguity, gaps, "
        "1-4 bins, scoped parameters; tolerance 1e-8*|lnL|; non-trivial = (model, problem, relation) that held"
    )
    rng = ctx.subrng(f"spec{budget}")
    U.BIG_BINS = ctx.thorough
    if budget <= 1:
        plan = _plan(ctx, rng, 12, 3, 2, 1)
    else:
        plan = _plan(ctx, rng, (30 if ctx.thorough else 10) * budget, max(2, 2 * budget if ctx.thorough else budget // 2), max(1, budget), 2)
    _pairs(ctx, rng, plan, out)
    return out


def correspondence(ctx):
    out = new_outcome(
        "the shared pruning model vs the implementation (C02's shadow, leaf arrays from the implementation) on original "
        "and transformed (re-rooted incl. unary old roots, edge-split, child-reordered) problems; non-trivial = >= 2 unique columns"
    )
    rng = ctx.subrng("corr")
    U.BIG_BINS = ctx.thorough
    rel = new_outcome()
    plan = _plan(ctx, rng, 100, 10, 6, 2) if ctx.thorough else _plan(ctx, rng, 8, 1, 1, 1)
    specs = []
    _pairs(ctx, rng, [(m, ["reroot", "split", "children"]) for m, _ in plan], rel, collect=specs)
    for k, v in rel["dist"].items():
        if k in ("relation",):
            out["dist"]["transformed_" + k] = v
    # relational failures found on the way are genuine spec failures
    out["failures"] += [f for f in rel["failures"] if f["kind"] == "spec"]
    C02.evaluate(ctx, specs, None, "impl", 0, out, "corr")
    return out


# --------------------------------------------------------------------------
def match_finding(f, k):
    if f.get("sig") not in k.get("sigs", []):
        return False
    r = k.get("restrict") or {}
    inp = f.get("input") or {}
    model = (inp.get("original") or inp).get("model")
    if r.get("models") and model not in r["models"]:
        return False
    if r.get("relations") and inp.get("relation") not in r["relations"]:
        return False
    return True


def _recheck(inp):
    out = new_outcome()
    _, l0 = _lnl(inp["original"])
    try:
        _, l2 = _lnl(inp["transformed"])
    except Exception as e:
        kind = inp["original"]["kind"]
        add_failure(out, "spec", f"transformed problem ({inp['relation']}) raised", inp, "a likelihood function",
                    f"{type(e).__name__}: {e}", sig=f"rel-raised:{inp['relation']}:{kind}:{type(e).__name__}")
        return out["failures"][0]
    want = inp.get("k", 1) * l0
    if not (abs(l2 - want) <= REL * abs(want) + 1e-12):
        base = inp["original"]
        add_failure(out, "spec", f"lnL changes under {inp['relation']}", inp, want, l2,
                    sig=_rel_sig(inp["relation"], base, inp["transformed"]))
        return out["failures"][0]
    return None


def check_witness(ctx, w):
    return _recheck(w)


def replay(ctx, data):
    f = data.get("failing_input") or {}
    inp = f.get("input")
    if not inp or "original" not in inp:
        return False
    r = _recheck(inp)
    if r:
        print("still fails:", r["what"], "expected", r["expected"], "got", r["got"])
    return r is not None
