"""C07: the call pattern of set_param_rule / set_motif_probs / set_alignment / user blocks on a REAL
likelihood function (assign_all calls and updates_postponed enter/exit events, recorded by wrapping the
instance) vs the op lists Model/ControllerLf.lean compiles them to."""
from __future__ import annotations

from contextlib import contextmanager

from .common import add_failure, bump


def _instrument(lf, events):
    orig_assign = lf.assign_all
    orig_up = lf.updates_postponed

    def rec_assign(par_name, *a, **kw):
        scope = a[0] if a else kw.get("scope_spec")
        locus = tuple(scope.get("locus", [])) if isinstance(scope, dict) else ()
        events.append(("assign", par_name, locus))
        return orig_assign(par_name, *a, **kw)

    @contextmanager
    def rec_up():
        events.append(("enter",))
        try:
            with orig_up():
                yield
        except BaseException:
            events.append(("xexit",))
            raise
        else:
            events.append(("exit",))

    lf.assign_all = rec_assign
    lf.updates_postponed = rec_up


def _leafnum(table, key):
    if key not in table:
        table[key] = len(table)
    return table[key]


def _simple_req(lf, table, op):
    """(driver request for one simple op, callable performing it on the real function)"""
    from . import c07_lf as L

    k = op[0]
    loci = list(lf.locus_names)
    if k == "param":
        return dict(op="setParam", leaf=_leafnum(table, (op[1], ()))), lambda: lf.set_param_rule(op[1], init=op[2])
    if k == "mprobs":
        locus = op[2]
        key = ("mprobs", (locus,) if locus else ())
        kw = {"locus": locus} if locus else {}
        return dict(op="setMotifProbs", leaves=[_leafnum(table, key)]), lambda: lf.set_motif_probs(op[1], **kw)
    if k == "aln":
        from_data = bool(lf.mprobs_from_alignment)
        req = dict(op="setAlignment", loci=[
            dict(aln=_leafnum(table, ("alignment", (l,))),
                 mprobs=_leafnum(table, ("mprobs", (l,))) if from_data else None) for l in loci])
        return req, lambda: lf.set_alignment(L.case_alns(lf._c07_case, op[1]))
    raise ValueError(k)


def corr_lf_ops(ctx, out):
    from . import c07_lf as L

    rng = ctx.subrng("corr-lfops")
    mp = lambda: dict(zip("TCAG", (lambda w: [x / sum(w) for x in w])([rng.uniform(0.5, 2) for _ in range(4)])))
    cases = [dict(model="HKY85", taxa=0, aln0=0), dict(model="GTR", taxa=2, aln0=1),
             dict(model="HKY85", loci=["a", "b"], taxa=0, aln0=0), dict(model="GN", loci=["a", "b", "c"], taxa=2, aln0=0),
             dict(model="F81", taxa=1, aln0=2)]
    reqs, reals = [], []
    for case in cases:
        for rep in range(ctx.budget(3, 20)):
            with L._Quiet():
                lf = L.new_lf(case)
            events = []
            _instrument(lf, events)
            table = {}
            pars = L.param_names(lf)
            loci = list(lf.locus_names)
            for _ in range(rng.randint(2, 5)):
                def rand_simple():
                    r = rng.random()
                    if r < 0.3 and pars:
                        return ["param", rng.choice(pars), round(rng.uniform(0.5, 3), 3)]
                    if r < 0.6:
                        return ["mprobs", mp(), rng.choice(loci) if len(loci) > 1 and rng.random() < 0.6 else None]
                    return ["aln", rng.randrange(4)]
                blk = rng.random()
                del events[:]
                if blk < 0.55:
                    op = rand_simple()
                    rq, do = _simple_req(lf, table, op)
                    with L._Quiet():
                        do()
                    req, kind = rq, op[0]
                else:
                    body = [rand_simple() for _ in range(rng.randint(1, 3))]
                    raises = blk > 0.8
                    rqs = []
                    try:
                        with L._Quiet():
                            with lf.updates_postponed():
                                for op in body:
                                    rq, do = _simple_req(lf, table, op)  # mprobs_from_alignment is read at call time
                                    rqs.append(rq)
                                    do()
                                if raises:
                                    raise KeyError("left by an exception")
                    except KeyError:
                        pass
                    req, kind = dict(block="raises" if raises else "normal", body=rqs), "block-raises" if raises else "block"
                real = []
                for e in events:
                    if e[0] == "assign":
                        real.append(["assign", _leafnum(table, (e[1], e[2]))])
                    else:
                        real.append([e[0]])
                reqs.append(("compile", req))
                reals.append((case, kind, req, real))
    for (case, kind, req, real), m in zip(reals, ctx.driver.batch(reqs)):
        out["evaluations"] += 1
        bump(out, "lfops", kind)
        if real != m:
            add_failure(out, "corr", "assign_all / updates_postponed call pattern of a likelihood-function operation "
                        "differs from Model/ControllerLf.lean", dict(case=case, op=req), m, real, confirmed=False)
        elif len(real) > 1:
            out["nontrivial"].add(("lfops", len(out["nontrivial"])))
