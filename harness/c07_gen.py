"""C07: self-test of the translator (translator/c07_rules2lean.py): the GENERATED definitions of
lean/CogentModel/Gen/C07Rules.lean are executed by the driver on the same arguments as the python
originals they were translated from."""
from __future__ import annotations

from .common import add_failure, bump, rat, unrat

VALS = [0.0, 0.5, 1.0, 1.5, 2.0, 3.0, 4.0, 6.0, 8.0, 10.0]


def _stub_cls():
    from cogent3.recalculation.scope import _LeafDefn
    from cogent3.recalculation.setting import Var

    class Stub:
        """a bare object carrying exactly what the translated statements read; the METHODS are cogent3's"""
        numeric = True
        const_by_default = False
        name = "x"
        array_template = None

        def __init__(self, settings, dflt, scope):
            self.assignments = dict(enumerate(settings))
            self._dflt = dflt
            self._scope = scope

        def get_default_setting(self):
            return Var(self._dflt)

        def check_setting_is_valid(self, setting):
            pass

        def interpret_scopes(self, independent=None, **kw):
            return [list(self._scope)]

    for m in ("get_current_bounds", "get_mean_current_value", "assign_all", "unwrap_value"):
        setattr(Stub, m, getattr(_LeafDefn, m))
    return Stub


def _tail_real(kw):
    """the REAL set_param_rule on a stub: what it hands to self.assign_all"""
    import cogent3.evolve.parameter_controller as pcm

    owner = [c for c in vars(pcm).values() if isinstance(c, type) and "set_param_rule" in vars(c)][0]
    rec = {}

    class S:
        def _process_scope_info(self, **kw):
            return None

        def assign_all(self, par_name, scopes, *args, **kws):
            rec["args"] = list(args)
            rec["scopes"] = scopes

    try:
        owner.set_param_rule(S(), "x", **kw)
    except AssertionError:
        return "AssertionError"
    return rec["args"]


def rand_rules_case(rng):
    n = rng.randint(1, 5)
    lo, hi = rng.choice([(0.0, 10.0), (-2.0, 20.0), (0.5, 8.0)])
    dv = rng.choice([v for v in VALS if lo <= v <= hi])
    settings = []
    for _ in range(n):
        r = rng.random()
        if r < 0.3:
            settings.append(dict(c=rng.choice(VALS)))
        else:
            a, b = sorted(rng.sample(VALS, 2)) if r < 0.9 else (rng.choice(VALS),) * 2
            settings.append(dict(lo=a, hi=b, v=rng.choice([x for x in VALS if a <= x <= b])))
    scope = sorted(rng.sample(range(n), rng.randint(1, n)))
    opt = lambda p: rng.choice(VALS) if rng.random() < p else None  # noqa
    return dict(lo=lo, val=dv, hi=hi, settings=settings, scope=scope, value=opt(0.5), lower=opt(0.35), upper=opt(0.35),
                init=opt(0.5), const=rng.choice([None, None, False, True]), is_constant=rng.random() < 0.35,
                is_independent=rng.choice([None, True, False]))


def _req(c):
    f = lambda x: None if x is None else rat(x)  # noqa
    return dict(lo=rat(c["lo"]), val=rat(c["val"]), hi=rat(c["hi"]),
                settings=[{k: rat(v) for k, v in s.items()} for s in c["settings"]], scope=c["scope"],
                value=f(c["value"]), lower=f(c["lower"]), upper=f(c["upper"]), init=f(c["init"]), const=c["const"],
                is_constant=c["is_constant"], is_independent=c["is_independent"])


def _real_rules(c):
    from cogent3.recalculation.setting import ConstVal, Var

    Stub = _stub_cls()

    def mk():
        return Stub([ConstVal(s["c"]) if "c" in s else Var((s["lo"], s["v"], s["hi"])) for s in c["settings"]],
                    (c["lo"], c["val"], c["hi"]), c["scope"])

    res = {}
    res["bounds"] = dict(ok=list(mk().get_current_bounds(c["scope"])))
    res["mean"] = dict(ok=mk().get_mean_current_value(c["scope"]))
    st = mk()
    try:
        st.assign_all(None, c["value"], c["lower"], c["upper"], c["const"], None)
        s = st.assignments[c["scope"][0]]
        res["setting"] = dict(ok=dict(c=s.value) if s.is_constant else dict(lo=s.lower, v=s.value, hi=s.upper))
    except ValueError:
        res["setting"] = dict(err="ValueError")
    t = _tail_real(dict(is_independent=c["is_independent"], is_constant=c["is_constant"], value=c["value"],
                        lower=c["lower"], init=c["init"], upper=c["upper"]))
    res["tail"] = dict(err=t) if isinstance(t, str) else dict(ok=t)
    return res


def _num_eq(a, b):
    """a: python value (float / None / bool / containers), b: driver value (rational strings)"""
    if isinstance(a, dict):
        return isinstance(b, dict) and a.keys() == b.keys() and all(_num_eq(a[k], b[k]) for k in a)
    if isinstance(a, (list, tuple)):
        return isinstance(b, list) and len(a) == len(b) and all(_num_eq(x, y) for x, y in zip(a, b))
    if a is None or isinstance(a, (bool, str)):
        return a == b
    if b is None or isinstance(b, bool):
        return False
    return abs(float(unrat(b)) - float(a)) <= 1e-12 * max(1.0, abs(float(a)))


def corr_gen(ctx, out):
    """(1) the four translated rule functions vs cogent3's own functions called on a bare stub object;
    (2) histories executed by the translated ParameterController methods vs the REAL ParameterController
    (assignments to leaf AND derived definitions, nested blocks left normally / by an exception,
    update_intermediate_values(), make_calculator() + update_from_calculator() hand-backs, also inside blocks)"""
    from . import c07_ctl as ct

    rng = ctx.subrng("corr-gen")
    cases = [rand_rules_case(rng) for _ in range(ctx.budget(400, 5000))]
    for c, m in zip(cases, ctx.driver.batch([("genrules", _req(c)) for c in cases])):
        out["evaluations"] += 1
        real = _real_rules(c)
        for key in ("bounds", "mean", "setting", "tail"):
            bump(out, "gen_" + key, "raises" if "err" in real[key] else "ok")
            if not _num_eq(real[key], m.get(key)):
                add_failure(out, "corr", f"translated `{key}` function differs from the python original", c,
                            m.get(key), real[key], confirmed=False)
                break
        else:
            if "err" in real["setting"] or len(c["scope"]) > 1:
                out["nontrivial"].add(("gen-rules", len(out["nontrivial"])))
    reqs, reals = [], []
    for _ in range(ctx.budget(250, 4000)):
        c = ct.rand_ctl_case(rng)
        # sprinkle the two operations only the translated model knows
        n_nodes = len(c["nodes"])
        derived = [i for i, nd in enumerate(c["nodes"]) if nd["k"] == "derived"]
        ops = []
        for op in c["ops"]:
            r = rng.random()
            if r < 0.12:
                ops.append(["updall"])
            elif r > 0.9:
                ops.append(["handback", rng.randint(0, 5)])
            elif r < 0.24 and derived:
                ops.append(["assignd", rng.choice(derived), rng.randint(0, 6)])
            ops.append(op)
        c["ops"] = ops
        rq, init, steps = ct.run_real_ctl(c)
        reqs.append(("genctl", rq))
        reals.append((init, steps))
    for (_, rq), (init, steps), m in zip(reqs, reals, ctx.driver.batch(reqs)):
        out["evaluations"] += 1
        if "error" in m or init != m["init"]:
            add_failure(out, "corr", "translated controller: initial values differ", rq, m.get("init", m), init,
                        confirmed=False)
            continue
        for i, (a, b) in enumerate(zip(steps, m["steps"])):
            bump(out, "genctl_op", rq["ops"][i][0] + (":raises" if a["raised"] else ""))
            b = {k: v for k, v in b.items() if k != "exc"}
            if a != b:
                add_failure(out, "corr", "REAL ParameterController state after an op differs from the translated methods",
                            dict(rq, ops=rq["ops"][: i + 1]), b, a, confirmed=False)
                break
        else:
            if any(s["raised"] for s in steps) or any(o[0] == "updall" for o in rq["ops"]):
                out["nontrivial"].add(("gen-ctl", len(out["nontrivial"])))


# --------------------------------------------------------------------------
# _NonLeafDefn.update: the translated statements vs the REAL class, on definitions that are updated AGAIN after their
# inputs were re-partitioned (same / different number of groups) and / or changed value
# --------------------------------------------------------------------------
NL_DIMS = {"bin": ["b0", "b1"], "edge": ["e0", "e1", "e2"], "locus": ["l0", "l1"]}


def nl_calc(*a):
    acc = 1
    for x in a:
        acc = (acc * 31 + x + 7) % 1000003
    return acc


def _rand_partition(rng, keys, k=None):
    """keys -> ordinal, every ordinal 0..k-1 used"""
    k = k or rng.randint(1, len(keys))
    ords = list(range(k)) + [rng.randrange(k) for _ in range(len(keys) - k)]
    rng.shuffle(ords)
    return dict(zip(keys, ords)), k


def rand_nl_case(rng):
    import itertools

    dims = sorted(rng.sample(sorted(NL_DIMS), rng.randint(1, 3)))
    args = []
    for _ in range(rng.randint(1, 3)):
        ad = tuple(sorted(rng.sample(dims, rng.randint(0, len(dims)))))
        args.append({"dims": ad, "keys": list(itertools.product(*[NL_DIMS[d] for d in ad]))})
    used = sorted({d for a in args for d in a["dims"]})  # what _NonLeafDefn.__init__ computes
    scopes = list(itertools.product(*[NL_DIMS[d] for d in used]))
    if len(scopes) > 2 and rng.random() < 0.3:
        scopes = rng.sample(scopes, rng.randint(2, len(scopes)))
    rng.shuffle(scopes)  # dict insertion order
    rounds = []
    prev_k = [None] * len(args)
    for r in range(rng.randint(2, 4)):
        rd = []
        for i, a in enumerate(args):
            same_k = prev_k[i] if (prev_k[i] and rng.random() < 0.6) else None
            index, k = _rand_partition(rng, a["keys"], same_k)
            prev_k[i] = k
            rd.append({"index": index, "values": [None if rng.random() < 0.04 else rng.randint(0, 50) for _ in range(k)]})
        rounds.append(rd)
    stale = None if rng.random() < 0.5 else [[rng.randrange(3) for _ in args] for _ in scopes]
    return {"dims": used, "args": args, "scopes": scopes, "rounds": rounds, "stale": stale}


def _nl_classes():
    from cogent3.recalculation.scope import _Defn, _NonLeafDefn

    class Inp(_Defn):
        def __init__(self, dims, name):
            super().__init__()
            self.valid_dimensions = tuple(dims)
            self.name = name

    class NL(_NonLeafDefn):
        name = "nl"
        recycling = False

        def make_calc_function(self):
            return nl_calc

    return Inp, NL


def _nl_build(c, Inp, NL):
    inps = [Inp(a["dims"], f"in{i}") for i, a in enumerate(c["args"])]
    d = NL(*inps)
    for i, t in enumerate(c["scopes"]):
        d.assignments[t] = None if c["stale"] is None else tuple(c["stale"][i])
    return inps, d


def _nl_set_inputs(inps, rd):
    for inp, r in zip(inps, rd):
        inp.index = dict(r["index"])
        k = len(r["values"])
        inp.uniq = [object() for _ in range(k)]
        inp.values = list(r["values"])


def _nl_snap(d, order):
    from cogent3.recalculation.scope import Undefined

    return {"asg": [list(d.assignments[t]) for t in order], "uniq": [list(x) for x in d.uniq],
            "index": [d.index[t] for t in order],
            "values": [None if isinstance(v, Undefined) else v for v in d.values]}


def corr_nonleaf(ctx, out):
    """every round: the inputs of ONE real _NonLeafDefn object get a new partition (often with the same number of groups)
    and new values, update() is called on the same object; compared with (a) a NEWLY BUILT definition over the same
    inputs (the property itself, at the level of one definition), (b) the translated update() run by the driver from
    the mapping the object held before"""
    rng = ctx.subrng("corr-nonleaf")
    Inp, NL = _nl_classes()
    reqs, reals, descr = [], [], []
    for _ in range(ctx.budget(150, 2000)):
        c = rand_nl_case(rng)
        out["evaluations"] += 1
        if tuple(c["dims"]) != _nl_build(c, Inp, NL)[1].valid_dimensions:
            add_failure(out, "corr", "_NonLeafDefn.valid_dimensions is not the sorted union of the inputs' dimensions", c["dims"],
                        c["dims"], None, confirmed=False)
            continue
        order = sorted(c["scopes"])
        inps, d = _nl_build(c, Inp, NL)
        prev = [[] if c["stale"] is None else list(d.assignments[t]) for t in order]
        for r, rd in enumerate(c["rounds"]):
            _nl_set_inputs(inps, rd)
            try:
                d.update()
                got = _nl_snap(d, order)
            except Exception as e:  # noqa: BLE001
                got = {"err": type(e).__name__}
            finps, fd = _nl_build(dict(c, stale=None), Inp, NL)
            _nl_set_inputs(finps, rd)
            fd.update()
            fresh = _nl_snap(fd, order)
            inp_descr = {"dims": c["dims"], "scopes": order, "inputs": [a["dims"] for a in c["args"]],
                         "rounds": [[{"index": sorted(x["index"].items()), "values": x["values"]} for x in rr]
                                    for rr in c["rounds"][: r + 1]]}
            bump(out, "gennl_round", "first" if r == 0 else (
                "same-number-of-groups" if all(len(x["values"]) == len(y["values"]) for x, y in zip(rd, c["rounds"][r - 1]))
                else "other-number-of-groups"))
            if got != fresh:
                add_failure(out, "spec", "a _NonLeafDefn updated again after its inputs were re-partitioned differs from a "
                            "newly built definition over the same inputs", inp_descr, fresh, got,
                            sig="nl:update-vs-fresh-defn")
                break
            rq = {"n": len(order), "asg": prev,
                  "args": [{"ord": [x["index"][tuple(t[c["dims"].index(dd)] for dd in a["dims"])] for t in order],
                            "values": x["values"]} for a, x in zip(c["args"], rd)]}
            reqs.append(("gennl", rq))
            reals.append(got)
            descr.append(inp_descr)
            prev = got["asg"]
    for (_, rq), real, dsc, m in zip(reqs, reals, descr, ctx.driver.batch(reqs)):
        out["evaluations"] += 1
        if m != real:
            add_failure(out, "corr", "translated `_NonLeafDefn.update` differs from the python original", dict(dsc, req=rq),
                        m, real, confirmed=False)
        elif len(set(real["index"])) < len(real["index"]) and len(real["uniq"]) > 1:
            out["nontrivial"].add(("gen-nl", len(out["nontrivial"])))
