"""C07: self-test of the translator (translator/c07_rules2lean.py): the GENERATED definitions of
lean/CogentModel/Gen/C07Rules.lean are executed by the driver on the same arguments as the python
originals they were translated from."""
from __future__ import annotations

from .common import add_failure, bump, rat, unrat

VALS = [0.0, 0.5, 1.0, 1.5, 2.0, 3.0, 4.0, 6.0, 8.0, 10.0]


def _stub_cls():
    from cogent3.recalculation.scope import _LeafDefn
    from cogent3.recalculation.setting import Var

    class Stub:
        """a bare object carrying exactly what the translated statements read; the METHODS are cogent3's"""
        numeric = True
        const_by_default = False
        name = "x"
        array_template = None

        def __init__(self, settings, dflt, scope):
            self.assignments = dict(enumerate(settings))
            self._dflt = dflt
            self._scope = scope

        def get_default_setting(self):
            return Var(self._dflt)

        def check_setting_is_valid(self, setting):
            pass

        def interpret_scopes(self, independent=None, **kw):
            return [list(self._scope)]

    for m in ("get_current_bounds", "get_mean_current_value", "assign_all", "unwrap_value"):
        setattr(Stub, m, getattr(_LeafDefn, m))
    return Stub


def _tail_real(kw):
    """the REAL set_param_rule on a stub: what it hands to self.assign_all"""
    import cogent3.evolve.parameter_controller as pcm

    owner = [c for c in vars(pcm).values() if isinstance(c, type) and "set_param_rule" in vars(c)][0]
    rec = {}

    class S:
        def _process_scope_info(self, **kw):
            return None

        def assign_all(self, par_name, scopes, *args, **kws):
            rec["args"] = list(args)
            rec["scopes"] = scopes

    try:
        owner.set_param_rule(S(), "x", **kw)
    except AssertionError:
        return "AssertionError"
    return rec["args"]


def rand_rules_case(rng):
    n = rng.randint(1, 5)
    lo, hi = rng.choice([(0.0, 10.0), (-2.0, 20.0), (0.5, 8.0)])
    dv = rng.choice([v for v in VALS if lo <= v <= hi])
    settings = []
    for _ in range(n):
        r = rng.random()
        if r < 0.3:
            settings.append(dict(c=rng.choice(VALS)))
        else:
            a, b = sorted(rng.sample(VALS, 2)) if r < 0.9 else (rng.choice(VALS),) * 2
            settings.append(dict(lo=a, hi=b, v=rng.choice([x for x in VALS if a <= x <= b])))
    scope = sorted(rng.sample(range(n), rng.randint(1, n)))
    opt = lambda p: rng.choice(VALS) if rng.random() < p else None  # noqa
    return dict(lo=lo, val=dv, hi=hi, settings=settings, scope=scope, value=opt(0.5), lower=opt(0.35), upper=opt(0.35),
                init=opt(0.5), const=rng.choice([None, None, False, True]), is_constant=rng.random() < 0.35,
                is_independent=rng.choice([None, True, False]))


def _req(c):
    f = lambda x: None if x is None else rat(x)  # noqa
    return dict(lo=rat(c["lo"]), val=rat(c["val"]), hi=rat(c["hi"]),
                settings=[{k: rat(v) for k, v in s.items()} for s in c["settings"]], scope=c["scope"],
                value=f(c["value"]), lower=f(c["lower"]), upper=f(c["upper"]), init=f(c["init"]), const=c["const"],
                is_constant=c["is_constant"], is_independent=c["is_independent"])


def _real_rules(c):
    from cogent3.recalculation.setting import ConstVal, Var

    Stub = _stub_cls()

    def mk():
        return Stub([ConstVal(s["c"]) if "c" in s else Var((s["lo"], s["v"], s["hi"])) for s in c["settings"]],
                    (c["lo"], c["val"], c["hi"]), c["scope"])

    res = {}
    res["bounds"] = dict(ok=list(mk().get_current_bounds(c["scope"])))
    res["mean"] = dict(ok=mk().get_mean_current_value(c["scope"]))
    st = mk()
    try:
        st.assign_all(None, c["value"], c["lower"], c["upper"], c["const"], None)
        s = st.assignments[c["scope"][0]]
        res["setting"] = dict(ok=dict(c=s.value) if s.is_constant else dict(lo=s.lower, v=s.value, hi=s.upper))
    except ValueError:
        res["setting"] = dict(err="ValueError")
    t = _tail_real(dict(is_independent=c["is_independent"], is_constant=c["is_constant"], value=c["value"],
                        lower=c["lower"], init=c["init"], upper=c["upper"]))
    res["tail"] = dict(err=t) if isinstance(t, str) else dict(ok=t)
    return res


def _num_eq(a, b):
    """a: python value (float / None / bool / containers), b: driver value (rational strings)"""
    if isinstance(a, dict):
        return isinstance(b, dict) and a.keys() == b.keys() and all(_num_eq(a[k], b[k]) for k in a)
    if isinstance(a, (list, tuple)):
        return isinstance(b, list) and len(a) == len(b) and all(_num_eq(x, y) for x, y in zip(a, b))
    if a is None or isinstance(a, (bool, str)):
        return a == b
    if b is None or isinstance(b, bool):
        return False
    return abs(float(unrat(b)) - float(a)) <= 1e-12 * max(1.0, abs(float(a)))


def corr_gen(ctx, out):
    """(1) the four translated rule functions vs cogent3's own functions called on a bare stub object;
    (2) histories executed by the translated ParameterController methods vs the REAL ParameterController
    (assignments to leaf AND derived definitions, nested blocks left normally / by an exception,
    update_intermediate_values(), make_calculator() + update_from_calculator() hand-backs, also inside blocks)"""
    from . import c07_ctl as ct

    rng = ctx.subrng("corr-gen")
    cases = [rand_rules_case(rng) for _ in range(ctx.budget(400, 5000))]
    for c, m in zip(cases, ctx.driver.batch([("genrules", _req(c)) for c in cases])):
        out["evaluations"] += 1
        real = _real_rules(c)
        for key in ("bounds", "mean", "setting", "tail"):
            bump(out, "gen_" + key, "raises" if "err" in real[key] else "ok")
            if not _num_eq(real[key], m.get(key)):
                add_failure(out, "corr", f"translated `{key}` function differs from the python original", c,
                            m.get(key), real[key], confirmed=False)
                break
        else:
            if "err" in real["setting"] or len(c["scope"]) > 1:
                out["nontrivial"].add(("gen-rules", len(out["nontrivial"])))
    reqs, reals = [], []
    for _ in range(ctx.budget(250, 4000)):
        c = ct.rand_ctl_case(rng)
        # sprinkle the two operations only the translated model knows
        n_nodes = len(c["nodes"])
        derived = [i for i, nd in enumerate(c["nodes"]) if nd["k"] == "derived"]
        ops = []
        for op in c["ops"]:
            r = rng.random()
            if r < 0.12:
                ops.append(["updall"])
            elif r > 0.9:
                ops.append(["handback", rng.randint(0, 5)])
            elif r < 0.24 and derived:
                ops.append(["assignd", rng.choice(derived), rng.randint(0, 6)])
            ops.append(op)
        c["ops"] = ops
        rq, init, steps = ct.run_real_ctl(c)
        reqs.append(("genctl", rq))
        reals.append((init, steps))
    for (_, rq), (init, steps), m in zip(reqs, reals, ctx.driver.batch(reqs)):
        out["evaluations"] += 1
        if "error" in m or init != m["init"]:
            add_failure(out, "corr", "translated controller: initial values differ", rq, m.get("init", m), init,
                        confirmed=False)
            continue
        for i, (a, b) in enumerate(zip(steps, m["steps"])):
            bump(out, "genctl_op", rq["ops"][i][0] + (":raises" if a["raised"] else ""))
            b = {k: v for k, v in b.items() if k != "exc"}
            if a != b:
                add_failure(out, "corr", "REAL ParameterController state after an op differs from the translated methods",
                            dict(rq, ops=rq["ops"][: i + 1]), b, a, confirmed=False)
                break
        else:
            if any(s["raised"] for s in steps) or any(o[0] == "updall" for o in rq["ops"]):
                out["nontrivial"].add(("gen-ctl", len(out["nontrivial"])))
