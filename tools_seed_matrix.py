#!/usr/bin/env python3
"""Runs every confirmed seeded change (seeded/<name>/patch.diff) against its property's quick check on a
scratch worktree of /repo (never /repo itself) and records the outcome in seeded/RESULTS.json.
usage: tools_seed_matrix.py [NAME ...]   (default: all)"""
import json
import os
import re
import subprocess
import sys
from concurrent.futures import ThreadPoolExecutor
from pathlib import Path

HERE = Path(__file__).resolve().parent


def run_one(name):
    d = HERE / "seeded" / name
    prop = json.loads((d / "meta.json").read_text()).get("property") or name.split("-")[0]
    prop = prop if re.fullmatch(r"C\d\d", prop) else name.split("-")[0]
    wt = f"/tmp/wt_matrix_{name}"
    subprocess.run(["git", "-C", "/repo", "worktree", "remove", "--force", wt], capture_output=True)
    if subprocess.run(["git", "-C", "/repo", "worktree", "add", "-q", wt, "HEAD"], capture_output=True).returncode:
        return name, dict(result="worktree failed")
    try:
        ap = subprocess.run(["git", "-C", wt, "apply", "--recount", str(d / "patch.diff")], capture_output=True, text=True)
        if ap.returncode:
            ap = subprocess.run(["git", "-C", wt, "apply", "--3way", str(d / "patch.diff")], capture_output=True, text=True)
        if ap.returncode:
            return name, dict(result="patch no longer applies to /repo HEAD (code was repaired around it)")
        env = dict(os.environ, VERIF_REPO=wt, PYTHONPATH=f"{wt}/src", VERIF_EVIDENCE_DIR=f"/tmp/seed_ev/{name}", VERIF_REPLAY_DIR=f"/tmp/seed_replays/{name}")
        os.makedirs(env["VERIF_EVIDENCE_DIR"], exist_ok=True)
        os.makedirs(env["VERIF_REPLAY_DIR"], exist_ok=True)
        p = subprocess.run(["./check", prop, "--tier", "quick"], cwd=HERE, env=env, capture_output=True, text=True, timeout=3000)
        viol = [l for l in p.stdout.splitlines() if l.startswith("VIOLATION")]
        if p.returncode == 1 and viol:
            how = "caught: no-failing-input-found (broken correspondence/proof)" if viol[0].rstrip().endswith("no-failing-input-found") else "caught with a concrete failing input"
            detail = ""
            try:
                rp = viol[0].split("replay=")[1].split()[0]
                rd = json.loads(Path(rp).read_text())
                fi = rd.get("failing_input") or {}
                detail = (fi.get("sig") or fi.get("what") or "")[:120]
            except Exception:
                pass
            return name, dict(result=how + (f" ({detail})" if detail else ""), rc=p.returncode)
        if p.returncode == 0:
            return name, dict(result="MISSED", rc=0)
        return name, dict(result=f"check exit {p.returncode}", rc=p.returncode, tail=p.stderr[-300:])
    finally:
        subprocess.run(["git", "-C", "/repo", "worktree", "remove", "--force", wt], capture_output=True)


def main():
    names = sys.argv[1:] or sorted(p.parent.name for p in (HERE / "seeded").glob("*/patch.diff"))
    res_p = HERE / "seeded" / "RESULTS.json"
    res = json.loads(res_p.read_text()) if res_p.exists() else {}
    # changes of one property run one after another (checks with a translator step rewrite shared Gen/ files);
    # different properties run in parallel
    groups = {}
    for n in names:
        groups.setdefault(n.split("-")[0], []).append(n)

    def run_group(ns):
        out = [run_one(n) for n in ns]
        # the translated model parts of this property were regenerated from mutated worktrees: re-translate them
        # from the unchanged /repo so that nothing stale is left behind
        prop = ns[0].split("-")[0]
        code = (
            "import importlib\nfrom harness import common\n"
            f"m = importlib.import_module('harness.{prop.lower()}')\n"
            "ctx = common.Ctx('%s', 'quick', 0)\n" % prop
            + "hasattr(m, 'generate') and m.generate(ctx)\nctx.cleanup()\n"
        )
        env = dict(os.environ, PYTHONPATH=str(HERE), PYTHONDONTWRITEBYTECODE="1")
        env.pop("VERIF_REPO", None)
        subprocess.run(["/venv/bin/python", "-W", "ignore", "-c", code], cwd=HERE, env=env, capture_output=True)
        return out

    with ThreadPoolExecutor(max_workers=int(os.environ.get("SEED_JOBS", "3"))) as ex:
        for rs in ex.map(run_group, groups.values()):
            for name, r in rs:
                res[name] = r
                print(name, r["result"], flush=True)
            res_p.write_text(json.dumps(res, indent=1, sort_keys=True))


if __name__ == "__main__":
    main()
