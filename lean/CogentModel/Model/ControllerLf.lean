import CogentModel.Model.Controller
/-
  C07 — the likelihood-function level operations, expressed over the ParameterController model
  (`Model/Controller.lean`).  Every one of them is a fixed pattern of `assign_all` calls and
  `updates_postponed` blocks:

  * `set_param_rule(par, value=…)` on a leaf definition → `assign_all` → one `assign`;
  * `set_motif_probs(mprobs)` → `model.set_param_controller_motif_probs` → `set_param_rule("mprobs", value=…)`
    (one `assign` on the motif-prob leaf; position-specific models: one per position, each propagating);
  * `set_alignment(aligns)`: `with self.updates_postponed(): for locus, align in …:
        self.assign_all("alignment", {"locus": [locus]}, value=align, const=True)
        if self.mprobs_from_alignment: self.set_motif_probs_from_data(align, locus=locus, auto=True, …)`
    i.e. one block containing, per locus, an `assign` on that locus' alignment leaf followed
    (optionally) by an `assign` of the motif probabilities counted from that alignment;
  * a user's `with lf.updates_postponed():` block around any of these, left normally or by an
    exception.
  A definition with several scope values (per-locus alignment / motif probs) is one leaf per value.
  Import-free.
-/
namespace CogentModel.Ctl
variable {V : Type} [Inhabited V]

/-- operations that are not themselves user blocks -/
inductive Simple (V : Type) where
  | setParam (k : Nat) (v : V)                                  -- set_param_rule on leaf k
  | setMotifProbs (ms : List (Nat × V))                         -- set_motif_probs
  /-- per locus: (alignment leaf, alignment, motif-prob leaf and the probs counted from the
  alignment when `mprobs_from_alignment`) -/
  | setAlignment (loci : List (Nat × V × Option (Nat × V)))     -- set_alignment

inductive LfOp (V : Type) where
  | simple (s : Simple V)
  | postponed (body : List (Simple V))          -- with lf.updates_postponed(): body
  | postponedRaises (body : List (Simple V))    -- the same, left by an exception after `body`

def assigns (l : List (Nat × V)) : List (Op V) := l.map (fun p => Op.assign p.1 p.2)

def locusOps : Nat × V × Option (Nat × V) → List (Op V)
  | (a, aln, none) => [Op.assign a aln]
  | (a, aln, some (m, mp)) => [Op.assign a aln, Op.assign m mp]

def compileSimple : Simple V → List (Op V)
  | .setParam k v => [Op.assign k v]
  | .setMotifProbs ms => assigns ms
  | .setAlignment loci => [Op.enter] ++ loci.flatMap locusOps ++ [Op.exit]

def compileLf : LfOp V → List (Op V)
  | .simple s => compileSimple s
  | .postponed body => [Op.enter] ++ body.flatMap compileSimple ++ [Op.exit]
  | .postponedRaises body => [Op.enter] ++ body.flatMap compileSimple ++ [Op.xexit]

/-- a history of likelihood-function operations on the controller -/
def runLf (g : Graph V) (s : St V) (hist : List (LfOp V)) : St V := run g s (hist.flatMap compileLf)

end CogentModel.Ctl
