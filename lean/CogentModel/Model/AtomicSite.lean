import CogentModel.Model.AtomicProg
/-
  C19 — the CALL SITES of `atomic_write` inside cogent3 (how the writers use the class) and the bare-object protocol.

  `translator/c19_writers2lean.py` translates every call `atomic_write(…)` under src/cogent3 into one `Site` of
  `Gen/C19Writers.lean` on every run.  `Site.cfg` says which configuration of Model/AtomicWrite.lean a site induces for a
  write job; `Site.covered` are the hypotheses under which that configuration is `Job.cfg` — THE model the crash and fault
  theorems of Props/C19.lean are about (own temp dir, no archive, inside a with-block, no file-system calls of the writer's own).

  `runBare` is the other way the class can be driven: `aw = atomic_write(p); aw.write(ch)*; aw.close()` (no `__enter__`:
  the first `write` opens the temp file through `_get_fileobj` WITHOUT the guard of `__enter__`; `close()` is
  `__exit__(None, None, None)`; nothing runs if a `write` raises).  It is what `open_zip(…, "w")` hands to its caller.

  Import-free apart from Model/AtomicProg (compiled into drv_c19).
-/
namespace CogentModel.AtomicSite
open CogentModel.AtomicWrite CogentModel.AtomicProg

inductive Protocol where
  | withBlock    -- `with atomic_write(…) [as f]:` / `x = atomic_write(…)` … `with x:`
  | returned     -- `return atomic_write(…)`: the object escapes to the caller
  | bareObject   -- anything else
  deriving DecidableEq, Repr

structure Site where
  file : String
  func : String
  protocol : Protocol
  /-- a `tmpdir=` argument is passed -/
  tmpdirArg : Bool
  /-- an `in_zip=` argument is passed -/
  inZipArg : Bool
  /-- an except / finally clause around the with-block issues file-system calls -/
  handlerEffects : Bool
  /-- the with-block issues file-system calls of its own -/
  bodyEffects : Bool
  /-- the with-block closes the file itself -/
  closeInBody : Bool
  mode : String
  deriving DecidableEq, Repr

/-- the hypotheses of the outcome theorems, as properties of a call site -/
def Site.covered (s : Site) : Bool :=
  s.protocol == .withBlock && !s.tmpdirArg && !s.inZipArg && !s.handlerEffects && !s.bodyEffects && !s.closeInBody

/-- the configuration a call site induces for a write job (commit and guard are properties of the class, translated
    separately: Gen/C19Program) -/
def Site.cfg (s : Site) (j : Job) : Cfg :=
  { commit := .replace, guarded := true, withBlock := s.protocol == .withBlock, bodyUnlink := s.handlerEffects || s.bodyEffects,
    closeInBody := s.closeInBody, dir := j.dir, name := j.name, t := j.t, u := j.u, chunks := j.chunks,
    zipMember := if s.inZipArg then j.zipMember else none }

/-- the job as a covered site sees it -/
def plainJob (j : Job) : Job := { j with closeInBody := false, zipMember := none }

/-- does the site own its temp dir (no `tmpdir=` argument)? -/
def Site.own (s : Site) : Bool := !s.tmpdirArg

/-! ### the bare-object protocol -/

/-- the methods a bare object is driven by: `write` while no file is open yet (`_get_fileobj` opens it) and `close` -/
structure BareCode where
  init : Stmt
  /-- `atomic_write.write` with `self._file is None`: the calls before `fileobj.write(text)` -/
  firstWrite : Stmt
  /-- `atomic_write.close` = `self.__exit__(None, None, None)` -/
  close : Stmt
  deriving DecidableEq, Repr

/-- the part after the constructor when there is at least one write: the first `write` opens the temp file (unguarded),
    the writes, then `close()` -/
def runBareOpened (g : BareCode) (c : Cfg) (own : Bool) (r0 : Res) : Res :=
  let r1 := run c ⟨own, true⟩ g.firstWrite r0.fault
  if r1.raised then ⟨r0.trace ++ r1.trace, true, r1.fault⟩ else
  let r2 := runWrites c c.chunks r1.fault
  if r2.raised then ⟨r0.trace ++ r1.trace ++ r2.trace, true, r2.fault⟩ else
  let r3 := run c ⟨own, true⟩ g.close r2.fault
  ⟨r0.trace ++ r1.trace ++ r2.trace ++ r3.trace, r3.raised, r3.fault⟩

/-- `aw = atomic_write(p[, tmpdir=D]); for ch in chunks: aw.write(ch); aw.close()` under one injected fault.
    An exception out of the constructor, the open or a write propagates at once: no method of the object runs any more.
    Without any write `close()` finds `self._file is None` (AttributeError inside the try of `__exit__`): raised, not
    modelled further. -/
def runBare (g : BareCode) (c : Cfg) (own : Bool) (f : Option Nat) : Res :=
  let r0 := run c ⟨own, true⟩ g.init f
  if r0.raised then r0 else
  if c.chunks.isEmpty then ⟨r0.trace, true, r0.fault⟩ else runBareOpened g c own r0

/-- hand model of the three methods -/
def handBare : BareCode :=
  ⟨hand.init, .prim .openTmp,
   .tryFinally (.seq (.prim .closeTmp) (.ifZip (.seq (.prim .zipAppend) (.prim .zipClose)) (.prim .replaceDest))) handCleanup⟩


/-! ### the `tmpdir=` route: crash and fault states -/

/-- open, the writes and the close on the `tmpdir=` route -/
def preTmp (c : Cfg) : List Instr := [⟨.openW c.tmpfile, .enter⟩] ++ writes c c.chunks ++ [closeInstr c]

def cleanupTmp (c : Cfg) : Instr := ⟨.unlink c.tmpfile, .commitUnlink⟩

/-- the file system after exactly the first `k` calls of a `tmpdir=` write (the process died just before call `k`) -/
def crashStateTmp (c : Cfg) (fs : FS) (k : Nat) : FS := (exec fs ((programTmp c .unlinkFile).take k)).1

/-- what `atomic_write(…, tmpdir=D)` does after call `k` raised: `_cleanup` = `suppress(OSError): tmp.unlink()`, after the
    `close()` of `__exit__` when the failing call was inside the with-block; nothing after the (suppressed) final unlink -/
def handlerTmp (c : Cfg) (k : Nat) : List Instr :=
  if k = 0 then [cleanupTmp c]
  else if k ≤ c.chunks.length then [⟨.close c.tmpfile, .exitClose⟩, cleanupTmp c]
  else if k < c.chunks.length + 3 then [cleanupTmp c] else []

def faultTraceTmp (c : Cfg) (k : Nat) : List Instr := (programTmp c .unlinkFile).take (k + 1) ++ handlerTmp c k

/-- call `k` raises (without effect), then the handler runs -/
def faultStateTmp (c : Cfg) (fs : FS) (k : Nat) : FS := (exec (crashStateTmp c fs k) (handlerTmp c k)).1

/-! ### the bare-object protocol under a fault -/

/-- the calls issued by the bare-object protocol when call `k` raises: before `close()` NOTHING runs after the failing call
(no `__enter__` guard, no `__exit__`); from `close()` on it is `__exit__`, as inside a with-block -/
def bareFaultTrace (c : Cfg) (k : Nat) : List Instr :=
  if k < c.chunks.length + 2 then (program c).take (k + 1) else faultTrace c k


end CogentModel.AtomicSite
