/-
  The serialisation routes of `SqliteAnnotationDbMixin` at the level of the record lists
  (`core/annotation_db.py` `to_rich_dict` l.993, `from_dict` / `_update_db_from_rich_dict`,
  `to_json`, `__deepcopy__`, `__getstate__` / `__setstate__`, `write`):

  * `to_rich_dict`: per table, every row becomes a dict of its NON-NULL columns (`spans` as a list);
    `from_dict(data)`: `db = cls(**init_args)` — which OPENS `init_args["source"]` — and then every
    record is INSERTED into the tables of that db (`_update_db_from_rich_dict`).
    `to_json`/`deserialise_object` wrap the same two functions.
  * `__deepcopy__` / pickle (python ≥ 3.11): `new = cls(source=self.source)`, then
    `new.db.deserialize(self._db.serialize())` — the byte image REPLACES whatever the new connection held.
  * `write(path)`: sqlite backup of every table into a new file; `cls(source=path)` opens it.

  sqlite's `serialize` / `deserialize` / `backup` are trusted to carry the row lists unchanged; what is
  modelled is which db the rows end up in and whether they replace or extend what is there.
-/
import CogentModel.Model.AnnotDb
namespace CogentModel.AnnotDb

inductive Val where
  | str (s : String)
  | int (n : Int)
  | spans (l : List (Int × Int))
  deriving DecidableEq, Repr, Inhabited

abbrev Rich := List (String × Val)

def optField (k : String) (v : Option String) : Rich :=
  match v with
  | none => []
  | some s => [(k, .str s)]

/-- one row of `to_rich_dict`: `{k: v for k, v in zip(record.keys(), record) if v is not None}` -/
def recToRich (r : Rec) : Rich :=
  optField "seqid" r.seqid ++ optField "biotype" r.biotype ++ optField "name" r.name ++
  optField "strand" r.strand ++ optField "attributes" r.attrs ++
  [("spans", .spans r.spans), ("start", .int r.start), ("stop", .int r.stop)]

def getStr (d : Rich) (k : String) : Option String :=
  match d.lookup k with
  | some (.str s) => some s
  | _ => none

/-- the row `_add_record_sql` inserts for one rich record (absent keys become NULL) -/
def richToRec (d : Rich) : Rec :=
  { seqid := getStr d "seqid", biotype := getStr d "biotype", name := getStr d "name",
    strand := getStr d "strand", attrs := getStr d "attributes",
    spans := (match d.lookup "spans" with | some (.spans l) => l | _ => []),
    start := (match d.lookup "start" with | some (.int n) => n | _ => 0),
    stop := (match d.lookup "stop" with | some (.int n) => n | _ => 0) }

/-- `to_rich_dict()["tables"]` -/
def toRich (db : Db) : List (String × List Rich) := db.tables.map fun t => (t.1, t.2.map recToRich)

/-- `_update_db_from_rich_dict` into the db that `cls(**init_args)` opened -/
def fromRichInto (opened : Db) (rich : List (String × List Rich)) : Db :=
  rich.foldl (fun acc t => addToTable acc t.1 (t.2.map richToRec)) opened

/-- `from_dict(to_rich_dict())` / `deserialise_object(to_json())`.  `opened` is what
`cls(source=init_args["source"])` holds when it is created: nothing for `:memory:`, the rows already
in the file for a file-backed db — i.e. the source db itself. -/
def jsonRoundTrip (db : Db) (fileBacked : Bool) : Db :=
  fromRichInto (if fileBacked then db else Db.empty db.kind) (toRich db)

/-- `new.db.deserialize(image)`: the connection's content is replaced by the image -/
def deserializeInto (_opened image : Db) : Db := image

/-- `__deepcopy__`, and pickle's `__getstate__` + `__setstate__` -/
def deepcopyDb (db : Db) (fileBacked : Bool) : Db :=
  deserializeInto (if fileBacked then db else Db.empty db.kind) db

/-- `write(path)` then `cls(source=path)` on a new path -/
def writeLoad (db : Db) : Db := deserializeInto (Db.empty db.kind) db

end CogentModel.AnnotDb
