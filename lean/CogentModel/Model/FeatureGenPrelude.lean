/-
  Prelude of the GENERATED feature code (`Gen/C04Feature.lean`, written by translator/c04_feature2lean.py):
  the semantics of the python / numpy primitives the translator maps to, nothing of cogent3's own logic.
  (`orDefault`, `mapExcept`, `minOfSpans`/`maxOfSpans`, `MSpan`, `FErr`, `liftErr` come from Model/FeatureView.lean.)
-/
import CogentModel.Model.FeatureView
namespace CogentModel.FeatureView

/-- `span.lost` -/
def MSpan.isLost : MSpan → Bool
  | .lost _ => true
  | .span _ _ => false

/-- `span.start` (a lost span has none: 0) -/
def MSpan.start : MSpan → Int
  | .span s _ => s
  | .lost _ => 0

/-- `span.end` -/
def MSpan.stop : MSpan → Int
  | .span _ e => e
  | .lost _ => 0

/-- `span.length` (`end - start`, set by the Span constructor; the given length of a LostSpan) -/
def MSpan.length : MSpan → Int
  | .span s e => e - s
  | .lost n => n

/-- a FeatureMap: its spans and `parent_length` -/
structure FMapG where
  spans : List MSpan
  parentLength : Int
  deriving DecidableEq, Repr, Inhabited

/-- `for i, v in enumerate(a.ravel()): a.ravel()[i] = f(v)` on an array of rows: every coordinate in row order,
the first exception wins -/
def mapCoords (f : Int → Except FErr Int) (rows : List (Int × Int)) : Except FErr (List (Int × Int)) :=
  mapExcept (fun p =>
    match f p.1, f p.2 with
    | .error e, _ => .error e
    | _, .error e => .error e
    | .ok a, .ok b => .ok (a, b)) rows

/-- python's `<=` on 2-tuples of ints (lexicographic) -/
def rowLe (p q : Int × Int) : Bool := p.1 < q.1 || (p.1 = q.1 && p.2 ≤ q.2)

def insertRow (p : Int × Int) : List (Int × Int) → List (Int × Int)
  | [] => [p]
  | q :: qs => if rowLe p q then p :: q :: qs else q :: insertRow p qs

/-- `sorted(rows)` for rows that are pairs of ints (a total order: every correct sort gives this list) -/
def sortRows : List (Int × Int) → List (Int × Int)
  | [] => []
  | p :: ps => insertRow p (sortRows ps)

end CogentModel.FeatureView
