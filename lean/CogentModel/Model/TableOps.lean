/-
  C20 — column-store model of `cogent3.util.table.Table` (hand-written mirror of the code).

  A table is an ordered list of named columns (`Columns`: name -> numpy array).  Every relational
  method of the real class works column-wise: it computes a list of row indices (or a boolean mask)
  and applies numpy fancy indexing `col[indices]` to every column.  The model does the same:
  `takeRows idx cols`.  The *spec* (Spec/TableRows.lean) works on the list of row tuples instead.

  Import-free (compiled into the native driver).
-/
import CogentModel.Spec.PySlice
namespace CogentModel.TableOps

/-! ## cells -/

/-- one table cell.  `float` carries the exact rational value of a float64 (no NaN/inf);
`missing` is Python `None`. -/
inductive Cell where
  | missing
  | bool (b : Bool)
  | int (n : Int)
  | float (q : Rat)
  | str (s : String)
  deriving DecidableEq, Repr, Inhabited

/-- Python `==` / `hash` classes of scalar cells (dict keys, set members):
`True == 1 == 1.0`, `None` equals only itself, strings by content. -/
inductive Key where
  | none
  | num (q : Rat)
  | str (s : String)
  deriving DecidableEq, Repr

def Cell.key : Cell → Key
  | .missing => .none
  | .bool b => .num (if b then 1 else 0)
  | .int n => .num (n : Rat)
  | .float q => .num q
  | .str s => .str s

/-! ## generic column store -/
section Generic
variable {α : Type}

/-- `Columns._num_rows` -/
def nrows : List (List α) → Nat
  | [] => 0
  | c :: _ => c.length

/-- all columns have the same length -/
def WF (cols : List (List α)) : Prop := ∀ c ∈ cols, c.length = nrows cols

/-- the i-th row tuple (`Columns.iter_rows` / `.array[i]`) -/
def rowAt (dflt : α) (cols : List (List α)) (i : Nat) : List α := cols.map fun c => c.getD i dflt

/-- abstraction function: the list of row tuples displayed by `Table.to_list()` -/
def rowsOf (dflt : α) (cols : List (List α)) : List (List α) :=
  (List.range (nrows cols)).map (rowAt dflt cols)

/-- numpy fancy indexing `col[idx]` applied to every column -/
def takeRows (dflt : α) (idx : List Nat) (cols : List (List α)) : List (List α) :=
  cols.map fun c => idx.map fun i => c.getD i dflt

/-- `table[:, columns]` with columns given by position -/
def selectCols (sel : List Nat) (cols : List (List α)) : List (List α) :=
  sel.map fun j => cols.getD j []

/-- restriction of one row tuple to the selected positions -/
def proj (dflt : α) (sel : List Nat) (r : List α) : List α := sel.map fun j => r.getD j dflt

/-! ### hash join (`inner_join`) -/

/-- `other_row_index[key].append(row_index)` on an insertion-ordered dict -/
def indexInsert {κ} [DecidableEq κ] (k : κ) (j : Nat) : List (κ × List Nat) → List (κ × List Nat)
  | [] => [(k, [j])]
  | (k', js) :: rest =>
    if k' = k then (k', js ++ [j]) :: rest else (k', js) :: indexInsert k j rest

/-- the loop `for row_index, row in enumerate(subtable.columns.array)` building the dict -/
def buildIndexFrom {κ} [DecidableEq κ] (start : Nat) (idx : List (κ × List Nat)) :
    List κ → List (κ × List Nat)
  | [] => idx
  | k :: ks => buildIndexFrom (start + 1) (indexInsert k start idx) ks

def lookup {κ} [DecidableEq κ] (k : κ) : List (κ × List Nat) → Option (List Nat)
  | [] => none
  | (k', js) :: rest => if k' = k then some js else lookup k rest

/-- the probe loop over the rows of `self`: returns (`self_selected`, `other_selected`) -/
def probeFrom {κ} [DecidableEq κ] (idx : List (κ × List Nat)) (start : Nat) :
    List κ → List Nat × List Nat
  | [] => ([], [])
  | k :: ks =>
    let rest := probeFrom idx (start + 1) ks
    match lookup k idx with
    | none => rest                                               -- `if key not in other_row_index: continue`
    | some js => (List.replicate js.length start ++ rest.1, js ++ rest.2)

def hashJoinSel {κ} [DecidableEq κ] (keysSelf keysOther : List κ) : List Nat × List Nat :=
  probeFrom (buildIndexFrom 0 [] keysOther) 0 keysSelf

/-- `zip(*product(range(n), range(m)))` -/
def crossSel (n m : Nat) : List Nat × List Nat :=
  ((List.range n).flatMap (fun i => List.replicate m i), (List.range n).flatMap (fun _ => List.range m))

/-- positional inner join: key columns of self / other, columns of other kept (`output_mask`) -/
def innerJoinCols {κ} [DecidableEq κ] (dflt : α) (key : α → κ) (kS kO keep : List Nat)
    (self other : List (List α)) : List (List α) :=
  let keysS := (rowsOf dflt (selectCols kS self)).map (List.map key)
  let keysO := (rowsOf dflt (selectCols kO other)).map (List.map key)
  let sel := hashJoinSel keysS keysO
  takeRows dflt sel.1 self ++ takeRows dflt sel.2 (selectCols keep other)

def crossJoinCols (dflt : α) (self other : List (List α)) : List (List α) :=
  let sel := crossSel (nrows self) (nrows other)
  takeRows dflt sel.1 self ++ takeRows dflt sel.2 other

/-! ### filtered / count / distinct / new column -/

/-- `get_row_indices` + boolean-mask indexing (`col[mask]` = `col[nonzero(mask)]`) -/
def filterIdx (dflt : α) (p : List α → Bool) (sel : List Nat) (cols : List (List α)) : List Nat :=
  (List.range (nrows cols)).filter fun i => p (rowAt dflt (selectCols sel cols) i)

def filteredCols (dflt : α) (p : List α → Bool) (sel : List Nat) (cols : List (List α)) : List (List α) :=
  takeRows dflt (filterIdx dflt p sel cols) cols

/-- counting dict (`CategoryCounter`): first-occurrence order -/
def countInsert {κ} [DecidableEq κ] (k : κ) : List (κ × Nat) → List (κ × Nat)
  | [] => [(k, 1)]
  | (k', n) :: rest => if k' = k then (k', n + 1) :: rest else (k', n) :: countInsert k rest

def countAll {κ} [DecidableEq κ] (acc : List (κ × Nat)) : List κ → List (κ × Nat)
  | [] => acc
  | k :: ks => countAll (countInsert k acc) ks

def countLookup {κ} [DecidableEq κ] (k : κ) : List (κ × Nat) → Nat
  | [] => 0
  | (k', n) :: rest => if k' = k then n else countLookup k rest

def countUniqueCols {κ} [DecidableEq κ] (dflt : α) (key : α → κ) (sel : List Nat) (cols : List (List α)) :
    List (List κ × Nat) :=
  countAll [] ((rowsOf dflt (selectCols sel cols)).map (List.map key))

/-- `set(...)` as an insertion-ordered duplicate-free list -/
def setInsert {κ} [DecidableEq κ] (k : κ) (s : List κ) : List κ := if k ∈ s then s else s ++ [k]

def setOfList {κ} [DecidableEq κ] (acc : List κ) : List κ → List κ
  | [] => acc
  | k :: ks => setOfList (setInsert k acc) ks

/-- `numpy.unique(col, return_inverse=True)[1]`: the rank of `x` among the distinct values `D` of its
column = number of distinct values strictly below it -/
def denseRank {κ} [DecidableEq κ] (le : κ → κ → Bool) (D : List κ) (x : κ) : Nat :=
  (D.filter fun z => le z x && !(decide (z = x))).length

def distinctCols {κ} [DecidableEq κ] (dflt : α) (key : α → κ) (sel : List Nat) (cols : List (List α)) :
    List (List κ) :=
  setOfList [] ((rowsOf dflt (selectCols sel cols)).map (List.map key))

/-- `with_new_column`: the callback sees the row restricted to `sel`; a column of the same name
(position `dropPos`) is dropped first, the new one goes last -/
def withNewColumnCols (dflt : α) (f : List α → α) (sel : List Nat) (cols : List (List α)) : List (List α) :=
  cols ++ [(List.range (nrows cols)).map fun i => f (rowAt dflt (selectCols sel cols) i)]

/-! ### appended / transposed -/

/-- column-wise concatenation of tables whose columns are already aligned with `self`'s order -/
def appendCols : List (List (List α)) → List (List α)
  | [] => []
  | [t] => t
  | t :: u :: rest => List.zipWith (· ++ ·) t (appendCols (u :: rest))

/-- the `new_column` of `appended`: each table's title repeated once per row -/
def titleCol (titles : List α) (tables : List (List (List α))) : List α :=
  (titles.zip tables).flatMap fun (t, tab) => List.replicate (nrows tab) t

/-- rows become columns: column k of the result holds row k of the input -/
def transposeCols (dflt : α) (cols : List (List α)) : List (List α) := rowsOf dflt cols

/-! ### sorting -/

/-- `le` lifted to optional keys (an index outside the table sorts first; never happens) -/
def optLe {κ} (le : κ → κ → Bool) : Option κ → Option κ → Bool
  | none, _ => true
  | some _, none => false
  | some a, some b => le a b

/-- `data.argsort()` on the record array of (transformed) key tuples: *some* sorting permutation
(numpy's default sort is not stable); the model uses a merge sort of the row indices -/
def sortIdx {κ} (le : κ → κ → Bool) (keys : List κ) : List Nat :=
  (List.range keys.length).mergeSort fun i j => optLe le keys[i]? keys[j]?

def sortedCols {κ} (dflt : α) (le : κ → κ → Bool) (keyOf : List α → κ) (cols : List (List α)) : List (List α) :=
  takeRows dflt (sortIdx le ((rowsOf dflt cols).map keyOf)) cols

end Generic

/-! ## sort keys and the reversal transforms -/

/-- a key field of the record array handed to `argsort`, after the reversal transform -/
inductive SKey where
  | bool (b : Bool)
  | num (q : Rat)
  | str (s : List Nat)      -- code points
  deriving DecidableEq, Repr

/-- code-point-wise lexicographic order of numpy `U` strings / python `str` -/
def natLexLe : List Nat → List Nat → Bool
  | [], _ => true
  | _ :: _, [] => false
  | a :: as, b :: bs => if a < b then true else if b < a then false else natLexLe as bs

def SKey.rank : SKey → Nat
  | .bool _ => 0 | .num _ => 1 | .str _ => 2

/-- total order on key fields (fields of one column always have the same constructor) -/
def SKey.le : SKey → SKey → Bool
  | .bool a, .bool b => !a || b
  | .num a, .num b => decide (a ≤ b)
  | .str a, .str b => natLexLe a b
  | a, b => decide (a.rank ≤ b.rank)

/-- record comparison: field by field -/
def lexLe : List SKey → List SKey → Bool
  | [], _ => true
  | _ :: _, [] => false
  | a :: as, b :: bs => if a = b then lexLe as bs else SKey.le a b

/-- `_reverse_num`: `x * -1` -/
def reverseNum (q : Rat) : Rat := q * (-1)

/-- the key field of a cell in a non-reversed key column -/
def Cell.skey : Cell → Option SKey
  | .missing => none
  | .bool b => some (.bool b)
  | .int n => some (.num n)
  | .float q => some (.num q)
  | .str s => some (.str (s.toList.map Char.toNat))

/-! ## the named layer (what the driver runs) -/

structure Table where
  header : List String
  cols : List (List Cell)
  title : String := ""
  /-- `index_name`: a column with unique values, always displayed first (`Columns.order`) -/
  index : Option String := none
  deriving Repr

def Table.idxOf (t : Table) (name : String) : Except String Nat :=
  match t.header.idxOf? name with
  | some i => .ok i
  | none => .error "KeyError"

def Table.idxsOf (t : Table) (names : List String) : Except String (List Nat) := names.mapM t.idxOf

def dfl : Cell := .missing

def Table.rows (t : Table) : List (List Cell) := rowsOf dfl t.cols

def Table.name (t : Table) (j : Nat) : String := t.header.getD j ""

/-- `Columns.order`: the index column goes first -/
def Table.norm (t : Table) : Table :=
  match t.index with
  | none => t
  | some k =>
    match t.header.idxOf? k with
    | none => t
    | some i =>
      let others := (List.range t.header.length).filter (· ≠ i)
      { t with header := k :: others.map t.name, cols := t.cols.getD i [] :: selectCols others t.cols }

/-- what reading `.index_name` (done by `to_list()`, `__getitem__`, …) does to a table that was handed an
`index_name` through its constructor attributes: the column must exist and hold unique values -/
def Table.observe (t : Table) : Except String Table :=
  match t.index with
  | none => .ok t
  | some k =>
    match t.header.idxOf? k with
    | none => .error "ValueError"
    | some i =>
      let col := (t.cols.getD i []).map Cell.key
      if (setOfList [] col).length ≠ col.length then .error "ValueError" else .ok t.norm

/-- the order in which `table[:, columns]` (`Table.__getitem__`) returns the requested columns: the result is
given the index_name if its column was requested, and `Columns.order` then shows that column FIRST, whatever
position it was asked for.  Callers that address the sub-table's columns by position (`get_row_indices`,
`with_new_column`, `distinct_values`, `inner_join`, `transposed`) see this order (known finding
C20-index-column-moved-first-in-subtables). -/
def Table.subNames (t : Table) (names : List String) : List String :=
  match t.index with
  | some k => if names.contains k then k :: names.filter (· ≠ k) else names
  | none => names

/-- `if index_name in result.columns and len(set(result.columns[index_name].tolist())) == len(result)`:
the index_name is handed to a result only if its column is present and still holds unique values -/
def keepIndexIfUnique (index : Option String) (header : List String) (cols : List (List Cell)) : Option String :=
  match index with
  | none => none
  | some k =>
    match header.idxOf? k with
    | none => none
    | some i =>
      let col := (cols.getD i []).map Cell.key
      if (setOfList [] col).length = nrows cols then some k else none

/-- numpy dtype class of a column, as far as `sorted` cares -/
inductive ColKind where
  | num | str | bool | obj
  deriving DecidableEq, Repr

def colKind (c : List Cell) : ColKind :=
  if c.all (fun x => match x with | .int _ => true | .float _ => true | _ => false) then .num
  else if c.all (fun x => match x with | .str _ => true | _ => false) then .str
  else if c.all (fun x => match x with | .bool _ => true | _ => false) then .bool
  else .obj

/-- `inner_join` with explicit key column names (already lists).  The key tuples are read from
`self[:, columns_self]` / `other[:, columns_other]` (index column first, see `subNames`); `self`'s index_name
is kept only if its column still holds unique values. -/
def Table.innerJoin (t u : Table) (ks ko : List String) (pre : String := "right_") : Except String Table := do
  let kS ← t.idxsOf (t.subNames ks)
  let kO ← u.idxsOf (u.subNames ko)
  if kS.length ≠ kO.length then throw "RuntimeError"
  -- output_mask = [c for c in other.columns if c not in columns_other]
  let keep := (List.range u.header.length).filter fun j => !(ko.contains (u.name j))
  let cols := innerJoinCols dfl Cell.key kS kO keep t.cols u.cols
  let header := t.header ++ keep.map (fun j => pre ++ u.name j)
  pure { header := header, cols := cols, index := keepIndexIfUnique t.index header cols }

/-- `joined(other)` / `inner_join(use_index=False)` without columns: the natural join — the shared
names, in `self`'s order, are the key columns of both tables -/
def Table.naturalKeys (t u : Table) : List String × List String :=
  let shared := t.header.filter (u.header.contains ·)
  (shared, shared)

/-- `cross_join`: drops title and index_name -/
def Table.crossJoin (t u : Table) (pre : String := "right_") : Table :=
  { header := t.header ++ u.header.map (pre ++ ·), cols := crossJoinCols dfl t.cols u.cols }

/-- `table[:, columns]` (`Table.__getitem__`): zero-length columns are skipped (`continue`), the index_name
survives if its column is selected -/
def Table.takeCols (t : Table) (names : List String) : Except String Table := do
  let names := t.subNames names
  let sel ← t.idxsOf names
  if nrows t.cols = 0 then pure { header := [], cols := [], title := t.title }
  else
    let idx := match t.index with
      | some k => if names.contains k then some k else none
      | none => none
    pure { header := names, cols := selectCols sel t.cols, title := t.title, index := idx }

/-- `get_columns(columns, with_index)` -/
def Table.getColumns (t : Table) (names : List String) (withIndex : Bool := true) : Except String Table :=
  match t.index with
  | some k => if withIndex then t.takeCols (k :: names.filter (· ≠ k)) else t.takeCols names
  | none => t.takeCols names

def Table.filtered (t : Table) (p : List Cell → Bool) (names : List String) : Except String Table := do
  if nrows t.cols = 0 then pure t      -- "no point filtering if no rows": returns self before looking at columns
  else
    let sel ← t.idxsOf (t.subNames names)       -- the callback sees the cells of `self[:, columns]`
    pure { t with cols := filteredCols dfl p sel t.cols }

/-- `get_row_indices(callback, columns, negate)`: the boolean mask -/
def Table.rowIndices (t : Table) (p : List Cell → Bool) (names : List String) (negate : Bool) :
    Except String (List Bool) := do
  let sel ← t.idxsOf (t.subNames names)
  pure ((List.range (nrows t.cols)).map fun i => p (rowAt dfl (selectCols sel t.cols) i) != negate)

/-- `count(callback, columns)` -/
def Table.count (t : Table) (p : List Cell → Bool) (names : List String) : Except String Nat := do
  if nrows t.cols = 0 then pure 0
  else
    let sel ← t.idxsOf (t.subNames names)
    pure (filterIdx dfl p sel t.cols).length

/-- `filtered_by_column(callback)`: the columns the callback accepts; the index_name is kept only if its
column is among them -/
def Table.filteredByColumn (t : Table) (p : List Cell → Bool) : Table :=
  let keep := (List.range t.header.length).filter fun j => p (t.cols.getD j [])
  let header := keep.map t.name
  { t with header := header, cols := selectCols keep t.cols,
           index := match t.index with
             | some k => if header.contains k then some k else none
             | none => none }

def Table.countUnique (t : Table) (names : List String) : Except String (List (List Key × Nat)) := do
  let sel ← t.idxsOf names
  pure (countUniqueCols dfl Cell.key sel t.cols)

def Table.distinctValues (t : Table) (names : List String) : Except String (List (List Key)) := do
  let sel ← t.idxsOf (t.subNames names)         -- tuples of `self[:, columns].array`
  pure (distinctCols dfl Cell.key sel t.cols)

def Table.withNewColumn (t : Table) (newName : String) (f : List Cell → Cell) (names : List String) :
    Except String Table := do
  let sel ← t.idxsOf (t.subNames names)         -- the callback sees the cells of `self[:, columns]`
  -- the callback is evaluated on the *original* table; a column called `newName` is dropped
  let newCol := (List.range (nrows t.cols)).map fun i => f (rowAt dfl (selectCols sel t.cols) i)
  let keepPos := (List.range t.header.length).filter fun j => t.name j ≠ newName
  let header := keepPos.map t.name ++ [newName]
  let idx := match t.index with
    | some k => if header.contains k then some k else none
    | none => none
  pure { header := header, cols := selectCols keepPos t.cols ++ [newCol], title := t.title, index := idx }

/-- `appended(new_column, *tables)`: columns matched by name, `self`'s order and attributes -/
def Table.alignTo (t u : Table) : Except String (List (List Cell)) :=
  -- `assert set(table.columns.order) == columns`; `raw_data[c].extend(...)` by column name
  if u.header.length ≠ t.header.length then .error "AssertionError"
  else match u.idxsOf t.header with
    | .ok sel => .ok (selectCols sel u.cols)
    | .error _ => .error "AssertionError"

def Table.appended (t : Table) (newCol : Option String) (others : List Table) : Except String Table := do
  let all := t :: others
  let aligned ← all.mapM t.alignTo
  let body := appendCols aligned
  match newCol with
  | none => pure { header := t.header, cols := body, index := keepIndexIfUnique t.index t.header body }
  | some n =>
    if t.header.contains n then throw "AssertionError"
    let cols := titleCol (all.map fun u => Cell.str u.title) aligned :: body
    pure { header := n :: t.header, cols := cols, index := keepIndexIfUnique t.index (n :: t.header) cols }

/-- `str(value)` of a cell used as a column name by `transposed` -/
def Cell.pyStr : Cell → Option String
  | .str s => some s
  | .int n => some (toString n)
  | .bool b => some (if b then "True" else "False")
  | .missing => some "None"
  | .float _ => none          -- repr of floats is not modelled

def Table.transposed (t : Table) (newName : String) (selectAs : Option String) : Except String Table := do
  let sname := selectAs.getD (t.header.headD "")
  let si ← (t.idxOf sname).mapError (fun _ => "AssertionError")
  let hcol := t.cols.getD si []
  if (setOfList [] (hcol.map Cell.key)).length ≠ nrows t.cols then throw "ValueError"
  -- `columns = [select_as_header] + [c for c in self.columns if c != select_as_header]`
  let columns := sname :: t.header.filter (· ≠ sname)
  -- `data = self[:, columns].array`: the index column comes first, whichever column was selected
  let sel ← t.idxsOf (t.subNames columns)
  let data := rowsOf dfl (selectCols sel t.cols)
  -- `for row in data: c = str(row.pop(0)); result.columns[c] = row`
  let names ← data.mapM fun r => match (r.headD .missing).pyStr with
    | some s => pure s
    | none => throw "unmodelled"
  pure { header := newName :: names,
         cols := (columns.tail.map Cell.str) :: data.map List.tail }

/-- the column list logic at the top of `sorted` -/
def sortColumns (header : List String) (columns : Option (List String)) (reverse : List String) : List String :=
  let columns := match columns with
    | some c => c
    | none => if reverse ≠ [] then reverse else header
  if reverse ≠ [] ∧ ¬ (columns.any (reverse.contains ·)) then
    columns ++ reverse.filter (fun c => !columns.contains c)
  else columns

/-- the key field of a cell in a reversed key column: `_reverse_num` for int/float dtypes; every other
dtype is replaced by its negated rank among the distinct values `uniq` of the column
(`numpy.unique(..., return_inverse=True)`) -/
def reverseCell (k : ColKind) (uniq : List SKey) (c : Cell) : Except String SKey :=
  match k, c with
  | .num, .int n => .ok (.num (reverseNum n))
  | .num, .float q => .ok (.num (reverseNum q))
  | .num, _ => .error "TypeError"
  | _, c =>
    match c.skey with
    | some f => .ok (.num (-((denseRank SKey.le uniq f : Nat) : Rat)))
    | none => .error "TypeError"

/-- transformed key field of a cell -/
def keyField (k : ColKind) (rev : Bool) (uniq : List SKey) (c : Cell) : Except String SKey :=
  if rev then reverseCell k uniq c
  else match c.skey with
    | some f => .ok f
    | none => .error "TypeError"

/-- `numpy.unique` of a column, as key fields -/
def uniqOf (col : List Cell) : List SKey := setOfList [] (col.filterMap Cell.skey)

/-- the record of transformed key fields of one row (total: validated beforehand) -/
def sortKeyOf (sel : List Nat) (kinds : List ColKind) (revs : List Bool) (uniqs : List (List SKey))
    (r : List Cell) : List SKey :=
  ((proj dfl sel r).zip (kinds.zip (revs.zip uniqs))).map fun (c, k, rv, u) =>
    match keyField k rv u c with
    | .ok f => f
    | .error _ => .bool false

/-- the loop `for c in reverse: index = columns.index(c); …` -/
def checkReverse (t : Table) (cols : List String) (n : Nat) : List String → Except String Unit
  | [] => .ok ()
  | c :: rest =>
    if !cols.contains c then .error "ValueError"       -- `columns.index(c)`
    else
      let col := t.cols.getD ((t.header.idxOf? c).getD 0) []
      if colKind col = .num ∧ n = 0 then .error "ValueError"        -- numpy.vectorize(_reverse_num) on size 0
      else if colKind col ≠ .num ∧ colKind col = .obj ∧ n ≥ 2 then .error "TypeError"   -- numpy.unique sorts objects
      else checkReverse t cols n rest

/-- key columns must be homogeneous (like is compared with like; otherwise python raises TypeError) -/
def checkKinds : List ColKind → Except String Unit
  | [] => .ok ()
  | k :: ks => if k = .obj then .error "TypeError" else checkKinds ks

def Table.sorted (t : Table) (columns : Option (List String)) (reverse : List String) : Except String Table :=
  let cols := sortColumns t.header columns reverse
  match t.idxsOf cols with
  | .error e => .error e
  | .ok sel =>
    let n := nrows t.cols
    match checkReverse t cols n reverse with
    | .error e => .error e
    | .ok _ =>
      if n ≤ 1 then .ok t                                -- nothing is compared
      else
        let kinds := sel.map fun j => colKind (t.cols.getD j [])
        match checkKinds kinds with
        | .error e => .error e
        | .ok _ =>
          let revs := cols.map (reverse.contains ·)
          let uniqs := sel.map fun j => uniqOf (t.cols.getD j [])
          -- `argsort` on the records of transformed key fields, and `col[indices]` for every column
          .ok { t with cols := sortedCols dfl lexLe (sortKeyOf sel kinds revs uniqs) t.cols }

/-! ### `table[rows, columns]` -/

/-- the row part of an index expression -/
inductive RowSel where
  | all
  | int (i : Int)
  | slice (a b : Option Int) (c : Int)
  | ints (l : List Int)
  | mask (m : List Bool)

/-- the column part: names (already resolved from str / int / slice / bool list by `_get_keys_`) -/
def pyIndex (n : Nat) (i : Int) : Except String Nat :=
  if 0 ≤ i ∧ i < n then .ok i.toNat
  else if i < 0 ∧ -(n : Int) ≤ i then .ok (i + n).toNat
  else .error "IndexError"

def maskIdx (m : List Bool) : List Nat := (List.range m.length).filter fun i => m.getD i false

/-- the column part of an index expression, resolved by `Columns._get_keys_` -/
inductive ColSel where
  | all
  | names (l : List String)
  | int (j : Int)
  | ints (l : List Int)
  | slice (a b : Option Int) (c : Int)
  | bools (m : List Bool)

def ColSel.toNames (header : List String) : ColSel → Except String (List String)
  | .all => .ok header
  | .names l => .ok l
  | .int j => do
    let i ← (pyIndex header.length j).mapError fun _ => "KeyError"
    pure [header.getD i ""]
  | .ints l => l.mapM fun j => do
    let i ← (pyIndex header.length j).mapError fun _ => "KeyError"
    pure (header.getD i "")
  | .slice a b c => .ok ((PySlice.sliceIdx header.length a b c).map fun i => header.getD i.toNat "")
  | .bools m => if m.length = header.length then .ok ((maskIdx m).map fun i => header.getD i "")
                else .error "KeyError"

def RowSel.toIdx (n : Nat) : RowSel → Except String (List Nat)
  | .all => .ok (List.range n)
  | .int i => do pure [← pyIndex n i]
  | .slice a b c => .ok ((PySlice.sliceIdx n a b c).map Int.toNat)
  | .ints l => l.mapM (pyIndex n)
  | .mask m => if m.length = n then .ok (maskIdx m) else .error "IndexError"

/-- `table[rows, columns]` with the columns already resolved to names -/
def Table.getItem (t : Table) (rows : RowSel) (names : List String) : Except String Table := do
  let sel ← t.idxsOf names
  let n := nrows t.cols
  if names = [] then pure { header := [], cols := [], title := t.title }   -- no column is ever indexed
  else
  let idx ← rows.toIdx n
  if n = 0 then pure { header := [], cols := [], title := t.title }
  else
    let ix := match t.index with
      | some k => if names.contains k then some k else none
      | none => none
    pure { header := names, cols := takeRows dfl idx (selectCols sel t.cols), title := t.title, index := ix }

end CogentModel.TableOps
