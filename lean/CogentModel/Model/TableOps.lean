/-
  C20 — column-store model of `cogent3.util.table.Table` (hand-written mirror of the code).

  A table is an ordered list of named columns (`Columns`: name -> numpy array).  Every relational
  method of the real class works column-wise: it computes a list of row indices (or a boolean mask)
  and applies numpy fancy indexing `col[indices]` to every column.  The model does the same:
  `takeRows idx cols`.  The *spec* (Spec/TableRows.lean) works on the list of row tuples instead.

  Import-free (compiled into the native driver).
-/
namespace CogentModel.TableOps

/-! ## cells -/

/-- one table cell.  `float` carries the exact rational value of a float64 (no NaN/inf);
`missing` is Python `None`. -/
inductive Cell where
  | missing
  | bool (b : Bool)
  | int (n : Int)
  | float (q : Rat)
  | str (s : String)
  deriving DecidableEq, Repr, Inhabited

/-- Python `==` / `hash` classes of scalar cells (dict keys, set members):
`True == 1 == 1.0`, `None` equals only itself, strings by content. -/
inductive Key where
  | none
  | num (q : Rat)
  | str (s : String)
  deriving DecidableEq, Repr

def Cell.key : Cell → Key
  | .missing => .none
  | .bool b => .num (if b then 1 else 0)
  | .int n => .num (n : Rat)
  | .float q => .num q
  | .str s => .str s

/-! ## generic column store -/
section Generic
variable {α : Type}

/-- `Columns._num_rows` -/
def nrows : List (List α) → Nat
  | [] => 0
  | c :: _ => c.length

/-- all columns have the same length -/
def WF (cols : List (List α)) : Prop := ∀ c ∈ cols, c.length = nrows cols

/-- the i-th row tuple (`Columns.iter_rows` / `.array[i]`) -/
def rowAt (dflt : α) (cols : List (List α)) (i : Nat) : List α := cols.map fun c => c.getD i dflt

/-- abstraction function: the list of row tuples displayed by `Table.to_list()` -/
def rowsOf (dflt : α) (cols : List (List α)) : List (List α) :=
  (List.range (nrows cols)).map (rowAt dflt cols)

/-- numpy fancy indexing `col[idx]` applied to every column -/
def takeRows (dflt : α) (idx : List Nat) (cols : List (List α)) : List (List α) :=
  cols.map fun c => idx.map fun i => c.getD i dflt

/-- `table[:, columns]` with columns given by position -/
def selectCols (sel : List Nat) (cols : List (List α)) : List (List α) :=
  sel.map fun j => cols.getD j []

/-- restriction of one row tuple to the selected positions -/
def proj (dflt : α) (sel : List Nat) (r : List α) : List α := sel.map fun j => r.getD j dflt

/-! ### hash join (`inner_join`) -/

/-- `other_row_index[key].append(row_index)` on an insertion-ordered dict -/
def indexInsert {κ} [DecidableEq κ] (k : κ) (j : Nat) : List (κ × List Nat) → List (κ × List Nat)
  | [] => [(k, [j])]
  | (k', js) :: rest =>
    if k' = k then (k', js ++ [j]) :: rest else (k', js) :: indexInsert k j rest

/-- the loop `for row_index, row in enumerate(subtable.columns.array)` building the dict -/
def buildIndexFrom {κ} [DecidableEq κ] (start : Nat) (idx : List (κ × List Nat)) :
    List κ → List (κ × List Nat)
  | [] => idx
  | k :: ks => buildIndexFrom (start + 1) (indexInsert k start idx) ks

def lookup {κ} [DecidableEq κ] (k : κ) : List (κ × List Nat) → Option (List Nat)
  | [] => none
  | (k', js) :: rest => if k' = k then some js else lookup k rest

/-- the probe loop over the rows of `self`: returns (`self_selected`, `other_selected`) -/
def probeFrom {κ} [DecidableEq κ] (idx : List (κ × List Nat)) (start : Nat) :
    List κ → List Nat × List Nat
  | [] => ([], [])
  | k :: ks =>
    let rest := probeFrom idx (start + 1) ks
    match lookup k idx with
    | none => rest                                               -- `if key not in other_row_index: continue`
    | some js => (List.replicate js.length start ++ rest.1, js ++ rest.2)

def hashJoinSel {κ} [DecidableEq κ] (keysSelf keysOther : List κ) : List Nat × List Nat :=
  probeFrom (buildIndexFrom 0 [] keysOther) 0 keysSelf

/-- `zip(*product(range(n), range(m)))` -/
def crossSel (n m : Nat) : List Nat × List Nat :=
  ((List.range n).flatMap (fun i => List.replicate m i), (List.range n).flatMap (fun _ => List.range m))

/-- positional inner join: key columns of self / other, columns of other kept (`output_mask`) -/
def innerJoinCols {κ} [DecidableEq κ] (dflt : α) (key : α → κ) (kS kO keep : List Nat)
    (self other : List (List α)) : List (List α) :=
  let keysS := (rowsOf dflt (selectCols kS self)).map (List.map key)
  let keysO := (rowsOf dflt (selectCols kO other)).map (List.map key)
  let sel := hashJoinSel keysS keysO
  takeRows dflt sel.1 self ++ takeRows dflt sel.2 (selectCols keep other)

def crossJoinCols (dflt : α) (self other : List (List α)) : List (List α) :=
  let sel := crossSel (nrows self) (nrows other)
  takeRows dflt sel.1 self ++ takeRows dflt sel.2 other

/-! ### filtered / count / distinct / new column -/

/-- `get_row_indices` + boolean-mask indexing (`col[mask]` = `col[nonzero(mask)]`) -/
def filterIdx (dflt : α) (p : List α → Bool) (sel : List Nat) (cols : List (List α)) : List Nat :=
  (List.range (nrows cols)).filter fun i => p (rowAt dflt (selectCols sel cols) i)

def filteredCols (dflt : α) (p : List α → Bool) (sel : List Nat) (cols : List (List α)) : List (List α) :=
  takeRows dflt (filterIdx dflt p sel cols) cols

/-- counting dict (`CategoryCounter`): first-occurrence order -/
def countInsert {κ} [DecidableEq κ] (k : κ) : List (κ × Nat) → List (κ × Nat)
  | [] => [(k, 1)]
  | (k', n) :: rest => if k' = k then (k', n + 1) :: rest else (k', n) :: countInsert k rest

def countAll {κ} [DecidableEq κ] (acc : List (κ × Nat)) : List κ → List (κ × Nat)
  | [] => acc
  | k :: ks => countAll (countInsert k acc) ks

def countLookup {κ} [DecidableEq κ] (k : κ) : List (κ × Nat) → Nat
  | [] => 0
  | (k', n) :: rest => if k' = k then n else countLookup k rest

def countUniqueCols {κ} [DecidableEq κ] (dflt : α) (key : α → κ) (sel : List Nat) (cols : List (List α)) :
    List (List κ × Nat) :=
  countAll [] ((rowsOf dflt (selectCols sel cols)).map (List.map key))

/-- `set(...)` as an insertion-ordered duplicate-free list -/
def setInsert {κ} [DecidableEq κ] (k : κ) (s : List κ) : List κ := if k ∈ s then s else s ++ [k]

def setOfList {κ} [DecidableEq κ] (acc : List κ) : List κ → List κ
  | [] => acc
  | k :: ks => setOfList (setInsert k acc) ks

def distinctCols {κ} [DecidableEq κ] (dflt : α) (key : α → κ) (sel : List Nat) (cols : List (List α)) :
    List (List κ) :=
  setOfList [] ((rowsOf dflt (selectCols sel cols)).map (List.map key))

/-- `with_new_column`: the callback sees the row restricted to `sel`; a column of the same name
(position `dropPos`) is dropped first, the new one goes last -/
def withNewColumnCols (dflt : α) (f : List α → α) (sel : List Nat) (cols : List (List α)) : List (List α) :=
  cols ++ [(List.range (nrows cols)).map fun i => f (rowAt dflt (selectCols sel cols) i)]

/-! ### appended / transposed -/

/-- column-wise concatenation of tables whose columns are already aligned with `self`'s order -/
def appendCols : List (List (List α)) → List (List α)
  | [] => []
  | [t] => t
  | t :: u :: rest => List.zipWith (· ++ ·) t (appendCols (u :: rest))

/-- the `new_column` of `appended`: each table's title repeated once per row -/
def titleCol (titles : List α) (tables : List (List (List α))) : List α :=
  (titles.zip tables).flatMap fun (t, tab) => List.replicate (nrows tab) t

/-- rows become columns: column k of the result holds row k of the input -/
def transposeCols (dflt : α) (cols : List (List α)) : List (List α) := rowsOf dflt cols

/-! ### sorting -/

/-- `le` lifted to optional keys (an index outside the table sorts first; never happens) -/
def optLe {κ} (le : κ → κ → Bool) : Option κ → Option κ → Bool
  | none, _ => true
  | some _, none => false
  | some a, some b => le a b

/-- `data.argsort()` on the record array of (transformed) key tuples: *some* sorting permutation
(numpy's default sort is not stable); the model uses a merge sort of the row indices -/
def sortIdx {κ} (le : κ → κ → Bool) (keys : List κ) : List Nat :=
  (List.range keys.length).mergeSort fun i j => optLe le keys[i]? keys[j]?

def sortedCols {κ} (dflt : α) (le : κ → κ → Bool) (keyOf : List α → κ) (cols : List (List α)) : List (List α) :=
  takeRows dflt (sortIdx le ((rowsOf dflt cols).map keyOf)) cols

end Generic

/-! ## sort keys and the reversal transforms -/

/-- a key field of the record array handed to `argsort`, after the reversal transform -/
inductive SKey where
  | bool (b : Bool)
  | num (q : Rat)
  | str (s : List Nat)      -- code points
  deriving DecidableEq, Repr

/-- code-point-wise lexicographic order of numpy `U` strings / python `str` -/
def natLexLe : List Nat → List Nat → Bool
  | [], _ => true
  | _ :: _, [] => false
  | a :: as, b :: bs => if a < b then true else if b < a then false else natLexLe as bs

def SKey.rank : SKey → Nat
  | .bool _ => 0 | .num _ => 1 | .str _ => 2

/-- total order on key fields (fields of one column always have the same constructor) -/
def SKey.le : SKey → SKey → Bool
  | .bool a, .bool b => !a || b
  | .num a, .num b => decide (a ≤ b)
  | .str a, .str b => natLexLe a b
  | a, b => decide (a.rank ≤ b.rank)

/-- record comparison: field by field -/
def lexLe : List SKey → List SKey → Bool
  | [], _ => true
  | _ :: _, [] => false
  | a :: as, b :: bs => if a = b then lexLe as bs else SKey.le a b

/-- `_reverse_str`: `x.translate(_reversed_chrs)` maps code point c < 256 to 255 - c and leaves
the others alone -/
def reverseStr (s : List Nat) : List Nat := s.map fun c => if c < 256 then 255 - c else c

/-- `_reverse_num`: `x * -1` -/
def reverseNum (q : Rat) : Rat := q * (-1)

/-- the key field of a cell in a non-reversed key column -/
def Cell.skey : Cell → Option SKey
  | .missing => none
  | .bool b => some (.bool b)
  | .int n => some (.num n)
  | .float q => some (.num q)
  | .str s => some (.str (s.toList.map Char.toNat))

/-! ## the named layer (what the driver runs) -/

structure Table where
  header : List String
  cols : List (List Cell)
  title : String := ""
  deriving Repr

def Table.idxOf (t : Table) (name : String) : Except String Nat :=
  match t.header.idxOf? name with
  | some i => .ok i
  | none => .error "KeyError"

def Table.idxsOf (t : Table) (names : List String) : Except String (List Nat) := names.mapM t.idxOf

def dfl : Cell := .missing

def Table.rows (t : Table) : List (List Cell) := rowsOf dfl t.cols

/-- numpy dtype class of a column, as far as `sorted` cares -/
inductive ColKind where
  | num | str | bool | obj
  deriving DecidableEq, Repr

def colKind (c : List Cell) : ColKind :=
  if c.all (fun x => match x with | .int _ => true | .float _ => true | _ => false) then .num
  else if c.all (fun x => match x with | .str _ => true | _ => false) then .str
  else if c.all (fun x => match x with | .bool _ => true | _ => false) then .bool
  else .obj

/-- `inner_join` with explicit key column names (already lists) -/
def Table.innerJoin (t u : Table) (ks ko : List String) (pre : String := "right_") : Except String Table := do
  let kS ← t.idxsOf ks
  let kO ← u.idxsOf ko
  if kS.length ≠ kO.length then throw "RuntimeError"
  -- output_mask = [c for c in other.columns if c not in columns_other]
  let keep := (List.range u.header.length).filter fun j => !(ko.contains (u.header.getD j ""))
  let cols := innerJoinCols dfl Cell.key kS kO keep t.cols u.cols
  pure { header := t.header ++ keep.map (fun j => pre ++ u.header.getD j ""), cols := cols }

/-- `joined(other)` / `inner_join(use_index=False)` without columns: "natural" join as coded —
the shared names in *self* order are paired positionally with the shared names in *other* order -/
def Table.naturalKeys (t u : Table) : List String × List String :=
  (t.header.filter (u.header.contains ·), u.header.filter (t.header.contains ·))

def Table.crossJoin (t u : Table) (pre : String := "right_") : Except String Table :=
  -- `self_selected, other_selected = list(zip(*product(...)))` cannot be unpacked when the product is empty
  if nrows t.cols = 0 ∨ nrows u.cols = 0 then .error "ValueError"
  else .ok { header := t.header ++ u.header.map (pre ++ ·), cols := crossJoinCols dfl t.cols u.cols }

def Table.getColumns (t : Table) (names : List String) : Except String Table := do
  let sel ← t.idxsOf names
  -- `Table.__getitem__`: `if len(self.columns[c]) == 0: continue` — a table without rows loses its columns
  if nrows t.cols = 0 then pure { header := [], cols := [], title := t.title }
  else pure { header := names, cols := selectCols sel t.cols, title := t.title }

def Table.filtered (t : Table) (p : List Cell → Bool) (names : List String) : Except String Table := do
  if nrows t.cols = 0 then pure t      -- "no point filtering if no rows": returns self before looking at columns
  else
    let sel ← t.idxsOf names
    pure { t with cols := filteredCols dfl p sel t.cols }

def Table.countUnique (t : Table) (names : List String) : Except String (List (List Key × Nat)) := do
  let sel ← t.idxsOf names
  pure (countUniqueCols dfl Cell.key sel t.cols)

def Table.distinctValues (t : Table) (names : List String) : Except String (List (List Key)) := do
  let sel ← t.idxsOf names
  pure (distinctCols dfl Cell.key sel t.cols)

def Table.withNewColumn (t : Table) (newName : String) (f : List Cell → Cell) (names : List String) :
    Except String Table := do
  let sel ← t.idxsOf names
  -- the callback is evaluated on the *original* table; a column called `newName` is dropped
  let newCol := (List.range (nrows t.cols)).map fun i => f (rowAt dfl (selectCols sel t.cols) i)
  let keepPos := (List.range t.header.length).filter fun j => t.header.getD j "" ≠ newName
  pure { header := keepPos.map (fun j => t.header.getD j "") ++ [newName],
         cols := selectCols keepPos t.cols ++ [newCol], title := t.title }

/-- `appended(new_column, *tables)`: columns matched by name, `self`'s order -/
def Table.appended (t : Table) (newCol : Option String) (others : List Table) : Except String Table := do
  let all := t :: others
  let aligned ← all.mapM fun u => do
    if u.header.length ≠ t.header.length then throw "AssertionError"
    let sel ← (t.header.mapM u.idxOf).mapError (fun _ => "AssertionError")
    pure (selectCols sel u.cols)
  let body := appendCols aligned
  match newCol with
  | none => pure { header := t.header, cols := body }
  | some n =>
    if t.header.contains n then throw "AssertionError"
    pure { header := n :: t.header,
           cols := titleCol (all.map fun u => Cell.str u.title) aligned :: body }

/-- `str(value)` of a cell used as a column name by `transposed` -/
def Cell.pyStr : Cell → Option String
  | .str s => some s
  | .int n => some (toString n)
  | .bool b => some (if b then "True" else "False")
  | .missing => some "None"
  | .float _ => none          -- repr of floats is not modelled

def Table.transposed (t : Table) (newName : String) (selectAs : Option String) : Except String Table := do
  let sname := selectAs.getD (t.header.headD "")
  let si ← (t.idxOf sname).mapError (fun _ => "AssertionError")
  let hcol := t.cols.getD si []
  if (setOfList [] (hcol.map Cell.key)).length ≠ nrows t.cols then throw "ValueError"
  let others := (List.range t.header.length).filter (· ≠ si)
  let names ← hcol.mapM fun c => match c.pyStr with
    | some s => pure s
    | none => throw "unmodelled"
  pure { header := newName :: names,
         cols := (others.map fun j => Cell.str (t.header.getD j "")) ::
                 transposeCols dfl (selectCols others t.cols) }

/-- the column list logic at the top of `sorted` -/
def sortColumns (header : List String) (columns : Option (List String)) (reverse : List String) : List String :=
  let columns := match columns with
    | some c => c
    | none => if reverse ≠ [] then reverse else header
  if reverse ≠ [] ∧ ¬ (columns.any (reverse.contains ·)) then
    columns ++ reverse.filter (fun c => !columns.contains c)
  else columns

/-- the reversal transform applied to one cell of a reversed key column of kind `k`
(`_reverse_num` for int/float dtypes, else `_reverse_str`, which needs `.translate`) -/
def reverseCell (k : ColKind) (c : Cell) : Except String SKey :=
  match k, c with
  | .num, .int n => .ok (.num (reverseNum n))
  | .num, .float q => .ok (.num (reverseNum q))
  | .num, _ => .error "TypeError"
  | _, .str s => .ok (.str (reverseStr (s.toList.map Char.toNat)))
  | _, _ => .error "AttributeError"

/-- transformed key field of a cell -/
def keyField (k : ColKind) (rev : Bool) (c : Cell) : Except String SKey :=
  if rev then reverseCell k c
  else match c.skey with
    | some f => .ok f
    | none => .error "TypeError"

/-- the record of transformed key fields of one row (total: validated beforehand) -/
def sortKeyOf (sel : List Nat) (kinds : List ColKind) (revs : List Bool) (r : List Cell) : List SKey :=
  ((proj dfl sel r).zip (kinds.zip revs)).map fun (c, k, rv) =>
    match keyField k rv c with
    | .ok f => f
    | .error _ => .bool false

def Table.sorted (t : Table) (columns : Option (List String)) (reverse : List String) : Except String Table := do
  let cols := sortColumns t.header columns reverse
  let sel ← t.idxsOf cols
  let n := nrows t.cols
  -- `for c in reverse: index = columns.index(c); data[:, index] = vectorize(func)(data[:, index])`
  for c in reverse do
    if !cols.contains c then throw "ValueError"
    if n = 0 then throw "ValueError"                 -- numpy.vectorize on a size-0 input
    let col := t.cols.getD ((t.header.idxOf? c).getD 0) []
    for x in col do
      let _ ← reverseCell (colKind col) x
  if n ≤ 1 then pure t                                -- nothing is compared
  else
    let kinds := sel.map fun j => colKind (t.cols.getD j [])
    -- key columns must be homogeneous (like is compared with like; otherwise python raises TypeError)
    for k in kinds do
      if k = .obj then throw "TypeError"
    let revs := cols.map (reverse.contains ·)
    -- every key field must exist (no missing values among the keys) ...
    let _ ← (rowsOf dfl (selectCols sel t.cols)).mapM fun r =>
      (r.zip (kinds.zip revs)).mapM fun (c, k, rv) => keyField k rv c
    -- ... then `argsort` on the records of transformed key fields, and `col[indices]` for every column
    pure { t with cols := sortedCols dfl lexLe (sortKeyOf sel kinds revs) t.cols }

end CogentModel.TableOps
