/-
  Finite maps as association lists (used as the abstract file system / table of C13).
  Import-free.  `put` = cons after delete, so "no duplicate key" is a separate, easy invariant
  (`Proofs/DataStore.lean : KV.put_nodup`), and all reasoning goes through `get`.
-/
namespace CogentModel.KV

abbrev Str := List Char

/-- association list `key ↦ value` -/
abbrev KV (D : Type) := List (Str × D)

variable {D : Type}

def get : KV D → Str → Option D
  | [], _ => none
  | (k, v) :: m, x => if x = k then some v else get m x

def del : KV D → Str → KV D
  | [], _ => []
  | (k, v) :: m, x => if x = k then del m x else (k, v) :: del m x

def put (m : KV D) (k : Str) (v : D) : KV D := (k, v) :: del m k

def keys (m : KV D) : List Str := m.map (·.1)

def has (m : KV D) (k : Str) : Bool := (get m k).isSome

end CogentModel.KV
