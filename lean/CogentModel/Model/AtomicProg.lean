import CogentModel.Model.AtomicWrite
/-
  C19 — the STRUCTURED program of `cogent3.util.io.atomic_write`: a small statement language (primitive
  file-system calls, sequencing, try/except-reraise, suppress, try/finally, the three state tests of the
  class) with an exception semantics under ONE injected fault, and the protocol of Python's
  `with atomic_write(...) as f: f.write(chunk)*`.

  `translator/c19_atomic2lean.py` translates the AST of util/io.py (class atomic_write: __init__,
  _make_tmppath, _get_fileobj, __enter__, _cleanup, _close_rename_standard, _close_rename_zip, __exit__)
  into a value `Gen.C19Program.code : Code` of this language on every run; `hand` below is the hand
  model of the same methods.  Proofs/AtomicProgLemmas.lean proves, for every configuration, chunk list
  and fault position, that running `hand` yields exactly the flat `program` / `faultTrace` / handler
  table of Model/AtomicWrite.lean (the subject of the C19 crash and fault theorems), and
  Props/C19.lean proves `Gen.C19Program.code = hand`.

  Import-free apart from Model/AtomicWrite (compiled into drv_c19).
-/
namespace CogentModel.AtomicProg
open CogentModel.AtomicWrite

/-- the file-system primitives of util/io.py; their arguments are the roles of a `Cfg` -/
inductive Prim where
  | mkdtemp        -- `mkdtemp(dir=parent)`
  | openTmp        -- `open_(self._tmppath, self._mode, …)`
  | closeTmp       -- `self._file.close()`
  | replaceDest    -- `src.replace(Path(self._path))`
  | renameDest     -- `src.rename(dest)`                     (historical)
  | unlinkDest     -- `dest.unlink()`                        (historical)
  | rmtreeTmpdir   -- `shutil.rmtree(self._tmppath.parent)`
  | unlinkTmp      -- `self._tmppath.unlink()`
  | zipAppend      -- `ZipFile(self._in_zip, "a")` + `out.write(str(src), arcname=self._path)`
  | zipClose       -- leaving the `with ZipFile(…)` block: the central directory is written
  deriving DecidableEq, Repr

inductive Stmt where
  | skip
  | prim (p : Prim)
  /-- a call whose own errors are swallowed by the callee: `shutil.rmtree(…, ignore_errors=True)` -/
  | quiet (p : Prim)
  | seq (a b : Stmt)
  /-- `try: body  except Exception: handler; raise` -/
  | tryReraise (body handler : Stmt)
  /-- `with contextlib.suppress(OSError): body`  /  `try: body  except OSError: pass` -/
  | suppress (body : Stmt)
  /-- `try: body  finally: fin` -/
  | tryFinally (body fin : Stmt)
  /-- `if self._own_tmpdir` (= the `tmpdir` argument is None) -/
  | ifOwn (t e : Stmt)
  /-- `if exc_type is None` (inside `__exit__`) -/
  | ifExcNone (t e : Stmt)
  /-- `if in_zip` (the choice of `self._close_func`) -/
  | ifZip (t e : Stmt)
  deriving DecidableEq, Repr

/-- the three entry points of the class used by a `with` statement -/
structure Code where
  /-- `atomic_write.__init__` (with `_make_tmppath` inlined) -/
  init : Stmt
  /-- `__enter__` (with `_get_fileobj`, `_cleanup` inlined) -/
  enter : Stmt
  /-- `__exit__` (with `_close_func` resolved, `_cleanup` inlined) -/
  exit : Stmt
  deriving DecidableEq, Repr

structure Env where
  /-- `tmpdir is None`: the temp dir is made (and owned) by atomic_write -/
  own : Bool
  /-- value of `exc_type is None` while `__exit__` runs -/
  excNone : Bool
  deriving DecidableEq, Repr

/-- the call a primitive issues, tagged with the phase of Model/AtomicWrite -/
def Prim.instr (c : Cfg) : Prim → Instr
  | .mkdtemp => ⟨.mkdir c.tmpdir, .ctor⟩
  | .openTmp => ⟨.openW c.tmpfile, .enter⟩
  | .closeTmp => closeInstr c
  | .replaceDest => ⟨.rename c.tmpfile c.dest, .commitRename⟩
  | .renameDest => ⟨.rename c.tmpfile c.dest, .commitRename⟩
  | .unlinkDest => ⟨.unlink c.dest, .commitUnlink⟩
  | .rmtreeTmpdir => ⟨.rmtree c.tmpdir, .cleanup⟩
  | .unlinkTmp => ⟨.unlink c.tmpfile, .commitUnlink⟩
  | .zipAppend => ⟨.zipData c.dest (c.zipMember.getD 0) c.tmpfile, .zipData⟩
  | .zipClose => ⟨.zipDir c.dest, .zipDir⟩

/-- result of running a piece of code: the calls issued (including a failing one), whether an exception is
    propagating, and how many further calls succeed before the injected fault (`none`: no fault pending) -/
structure Res where
  trace : List Instr
  raised : Bool
  fault : Option Nat
  deriving DecidableEq, Repr

/-- one primitive call under the fault counter -/
def callPrim (c : Cfg) (p : Prim) : Option Nat → Res
  | none => ⟨[p.instr c], false, none⟩
  | some (n + 1) => ⟨[p.instr c], false, some n⟩
  | some 0 =>
    match p with
    | .zipAppend =>
      -- stdlib: an OSError from open(archive, 'r+b') is swallowed by zipfile, which retries with 'w+b'
      ⟨[p.instr c, ⟨.zipTrunc c.dest, .zipData⟩, p.instr c], false, none⟩
    | _ => ⟨[p.instr c], true, none⟩

def run (c : Cfg) (env : Env) : Stmt → Option Nat → Res
  | .skip, f => ⟨[], false, f⟩
  | .prim p, f => callPrim c p f
  | .quiet p, f => let r := callPrim c p f; ⟨r.trace, false, r.fault⟩
  | .seq a b, f =>
    let ra := run c env a f
    if ra.raised then ra
    else let rb := run c env b ra.fault; ⟨ra.trace ++ rb.trace, rb.raised, rb.fault⟩
  | .tryReraise body h, f =>
    let rb := run c env body f
    if rb.raised then let rh := run c env h rb.fault; ⟨rb.trace ++ rh.trace, true, rh.fault⟩
    else rb
  | .suppress body, f => let rb := run c env body f; ⟨rb.trace, false, rb.fault⟩
  | .tryFinally body fin, f =>
    let rb := run c env body f
    let rf := run c env fin rb.fault
    ⟨rb.trace ++ rf.trace, rb.raised || rf.raised, rf.fault⟩
  | .ifOwn t e, f => if env.own then run c env t f else run c env e f
  | .ifExcNone t e, f => if env.excNone then run c env t f else run c env e f
  | .ifZip t e, f => if c.zipMember.isSome then run c env t f else run c env e f

/-- the writer's with-block: one `f.write(chunk)` per chunk -/
def runWrites (c : Cfg) : List Data → Option Nat → Res
  | [], f => ⟨[], false, f⟩
  | ch :: rest, none => let r := runWrites c rest none; ⟨⟨.write c.tmpfile ch, .body⟩ :: r.trace, r.raised, r.fault⟩
  | ch :: _, some 0 => ⟨[⟨.write c.tmpfile ch, .body⟩], true, none⟩
  | ch :: rest, some (n + 1) =>
    let r := runWrites c rest (some n); ⟨⟨.write c.tmpfile ch, .body⟩ :: r.trace, r.raised, r.fault⟩

/-- Python's `with atomic_write(path[, tmpdir=D][, in_zip=Z]) as f: <body>`:
    the constructor, `__enter__` (if it raises, `__exit__` is not called), the block, then `__exit__` with the
    block's exception (it returns None, so that exception propagates). `f = some k`: call number `k` raises. -/
def runWithBody (g : Code) (c : Cfg) (own : Bool) (body : Option Nat → Res) (f : Option Nat) : Res :=
  let r0 := run c ⟨own, true⟩ g.init f
  if r0.raised then r0 else
  let r1 := run c ⟨own, true⟩ g.enter r0.fault
  if r1.raised then ⟨r0.trace ++ r1.trace, true, r1.fault⟩ else
  let r2 := body r1.fault
  let r3 := run c ⟨own, !r2.raised⟩ g.exit r2.fault
  ⟨r0.trace ++ r1.trace ++ r2.trace ++ r3.trace, r2.raised || r3.raised, r3.fault⟩

/-- …with the writer's block `for ch in chunks: f.write(ch)` -/
def runWith (g : Code) (c : Cfg) (own : Bool) (f : Option Nat) : Res :=
  runWithBody g c own (runWrites c c.chunks) f

/-- a writer whose FORMATTING fails after `j` chunks were written: its own code raises, no file-system call fails -/
def fmtFailBody (c : Cfg) (j : Nat) (f : Option Nat) : Res :=
  let r := runWrites c (c.chunks.take j) f
  ⟨r.trace, true, r.fault⟩

/-- the calls of such a failed write: temp dir, temp file, the first `j` chunks, close, cleanup — never the destination -/
def fmtFailTrace (c : Cfg) (j : Nat) : List Instr :=
  [⟨.mkdir c.tmpdir, .ctor⟩, ⟨.openW c.tmpfile, .enter⟩] ++ writes c (c.chunks.take j) ++
    [closeInstr c, ⟨.rmtree c.tmpdir, .cleanup⟩]

/-! ### the hand model of the methods, as they are now -/

/-- `_cleanup`: `if self._own_tmpdir: shutil.rmtree(self._tmppath.parent, ignore_errors=True)
    else: with contextlib.suppress(OSError): self._tmppath.unlink()` -/
def handCleanup : Stmt := .ifOwn (.quiet .rmtreeTmpdir) (.suppress (.prim .unlinkTmp))

def hand : Code where
  init := .ifOwn (.prim .mkdtemp) .skip
  enter := .tryReraise (.prim .openTmp) handCleanup
  exit := .tryFinally
    (.seq (.prim .closeTmp)
      (.ifExcNone (.ifZip (.seq (.prim .zipAppend) (.prim .zipClose)) (.prim .replaceDest)) .skip))
    handCleanup

end CogentModel.AtomicProg
