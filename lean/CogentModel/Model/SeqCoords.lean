import CogentModel.Model.SeqWrap
/-
  (a) `SeqDataView.str_value` (`core/new_alignment.py`): the view held by sequences of a new-style
      collection reads its string as
          raw = self.seq.get_seq_str(seqid=…, start=self.parent_start, stop=self.parent_stop)
          return raw if self.step == 1 else raw[:: self.step]
      with `SeqsData.get_seq_str` = `self._data[seqid][start:stop]` (decoded).
  (b) `Sequence.parent_coordinates()` / `annotation_offset` (both sequence modules):
          strand = -1 if self._seq.is_reversed else 1
          return self._seq.seqid, self._seq.parent_start, self._seq.parent_stop, strand
          annotation_offset = self._seq.parent_start
      and `Sequence.__getitem__`: `stride = getattr(index, "step", 1) or 1; preserve_offset = stride > 0`
      (only then is the annotation db attached to the new object).
      `seqid` travels with `_get_init_kwargs()` on every path except `_zero_slice` (`SeqView(seq="")`,
      seqid `None`), detected exactly like the parent string in `Model/SeqWrap.lean`.
-/
namespace CogentModel.SeqCoords
open CogentModel CogentModel.View CogentModel.SeqWrap

/-- `SeqDataView.str_value` over the stored data of the sequence -/
def sdvStrValue (data : List Char) (v : View) : Except Err (List Char) :=
  match parentStart v, parentStop v with
  | .ok ps, .ok pe =>
    let raw := PySlice.slice data (some ps) (some pe) 1
    .ok (if v.step = 1 then raw else PySlice.slice raw none none v.step)
  | .error e, _ => .error e
  | _, .error e => .error e

/-- a `Sequence` together with the `seqid` its view carries -/
structure ASeq where
  q : Seq
  seqid : Option String
  deriving DecidableEq, Repr

/-- `make_seq(text, name=sid, annotation_offset=o)` -/
def ofString (t : List Char) (nucleic : Bool) (o : Int) (sid : Option String) : ASeq :=
  { q := { parent := t, v := { start := 0, stop := t.length, step := 1, offset := o, seqLen := t.length },
           nucleic := nucleic },
    seqid := sid }

def rewrap (s : ASeq) (r : Except Err Seq) : Except Err ASeq :=
  match r with
  | .ok q' => .ok { q := q', seqid := if q'.v.seqLen = s.q.v.seqLen then s.seqid else none }
  | .error e => .error e

def step1 (s : ASeq) : SOp → Except Err ASeq
  | .slice a b c => rewrap s (getitem s.q a b c)
  | .index i => rewrap s (getitemI s.q i)
  | .rc => rewrap s (rcE s.q)

def runOps : ASeq → List SOp → Except Err ASeq
  | s, [] => .ok s
  | s, op :: ops => match step1 s op with
    | .ok s' => runOps s' ops
    | .error e => .error e

/-- `annotation_offset` -/
def annotationOffset (s : ASeq) : Except Err Int := parentStart s.q.v

/-- `preserve_offset` in `Sequence.__getitem__` for a slice: `stride = index.step or 1; stride > 0` -/
def preserveOffset (c : Option Int) : Bool :=
  let stride := match c with | none => 1 | some 0 => 1 | some k => k
  stride > 0

/-- `parent_coordinates()`: (seqid, start, stop, strand) -/
def parentCoordinates (s : ASeq) : Except Err (Option String × Int × Int × Int) :=
  match parentStart s.q.v, parentStop s.q.v with
  | .ok a, .ok b => .ok (s.seqid, a, b, if s.q.v.step < 0 then -1 else 1)
  | .error e, _ => .error e
  | _, .error e => .error e

/-- reading the named segment off the plain parent string: `t[ps:pe]`, reverse(-complemented) when
`strand = -1`, then strided -/
def readSegment (comp : Char → Char) (nucleic : Bool) (t : List Char) (ps pe strand stride : Int) :
    List Char :=
  let seg := PySlice.slice t (some ps) (some pe) 1
  let seg := if strand = -1 then (if nucleic then seg.reverse.map comp else seg.reverse) else seg
  PySlice.slice seg none none stride

end CogentModel.SeqCoords
