import CogentModel.Model.GeneticCode
/-!
# C12 — semantic domain of the TRANSLATED genetic-code functions (`Gen/C12Code.lean`)

`translator/c12_code2lean.py` turns the pure-Python functions of `core/genetic_code.py`,
`core/new_genetic_code.py` and the stop-handling methods of `core/new_sequence.py` / `core/sequence.py`
into Lean definitions over the primitives below, one primitive per Python operation
(`len`, slices with Python's clamping / negative indices, `range`, `str.upper`, `str.replace`,
`str.translate`, `str.join`, `dict.get`, `in`), plus the objects the functions read:

* `OldGC`  — the dictionaries `GeneticCode.__init__` builds (`codons`, `synonyms`, `start_codons`)
* `NewGCO` — the new `GeneticCode`: `_codon_to_aa`, `_aa_to_codon`, the k-mer alphabet `codons`
              (`to_indices`), the two byte converters `_translate_plus` / `_translate_minus`
* `Dna`    — what `translate` accepts: a `str` (indices in the genetic code's own monomer alphabet) or the
              index array of a sequence (indices in the molecular type's degenerate gapped alphabet)
* `NSeq` / `OSeq` — a new / old style nucleic-acid `Sequence` as far as the stop-handling methods look at it

No imports outside this project.
-/
namespace CogentModel.GCP
open CogentModel.GC

inductive PyErr where
  | valueError | alphabetError | invalidCodon | typeError | other
  deriving DecidableEq, Repr

def liftErr : Err → PyErr
  | .valueError => .valueError
  | .alphabetError => .alphabetError
  | .invalidCodon => .invalidCodon

def liftE {α} : Except Err α → Except PyErr α
  | .ok a => .ok a
  | .error e => .error (liftErr e)

/-- what `GeneticCode.__getitem__` returns: an amino-acid string or a collection of codons -/
inductive Item where
  | str (s : List Char)
  | strs (l : List (List Char))
  deriving DecidableEq, Repr

/-! ## Python built-ins -/

def pyLen {α} (s : List α) : Int := s.length

/-- a slice bound against a length `n`: negative counts from the end, then clamped to `[0, n]` -/
def normIdx (n : Nat) (i : Int) : Nat :=
  if i < 0 then (if i + n < 0 then 0 else (i + n).toNat) else (if i > n then n else i.toNat)

/-- `s[a:b]` (step 1); a missing bound is `none` -/
def pySlice {α} (s : List α) (a b : Option Int) : List α :=
  let lo := match a with | none => 0 | some i => normIdx s.length i
  let hi := match b with | none => s.length | some i => normIdx s.length i
  (s.take hi).drop lo

/-- `s[::-1]` -/
def pyRev {α} (s : List α) : List α := s.reverse

def pyRangeAux : Nat → Int → Int → List Int
  | 0, _, _ => []
  | n + 1, a, step => a :: pyRangeAux n (a + step) step

/-- `range(a, b, step)` for a positive step (`[]` otherwise: the translated code only uses literal positive steps) -/
def pyRange (a b step : Int) : List Int :=
  if step > 0 then pyRangeAux ((b - a + step - 1) / step).toNat a step else []

/-- `str.upper()` (ASCII) -/
def pyUpper (s : List Char) : List Char := s.map upperChar

/-- `str.replace(a, b)` for one-character `a`, `b` -/
def pyReplace1 (s : List Char) (a b : Char) : List Char := s.map fun c => if c = a then b else c

/-- `str.translate(str.maketrans(keys, values))` -/
def pyTranslate (keys values : List Char) (s : List Char) : List Char :=
  s.map fun c => dictGet (keys.zip values) c c

/-- `sep.join(parts)` -/
def pyJoin (sep : List Char) : List (List Char) → List Char
  | [] => []
  | [x] => x
  | x :: r => x ++ sep ++ pyJoin sep r

/-- the strings of a list of `__getitem__` results (`none` if one of them is a collection of codons) -/
def itemStrs : List Item → Option (List (List Char))
  | [] => some []
  | .str s :: r => (itemStrs r).map (s :: ·)
  | .strs _ :: _ => none

/-- `"".join(items)` where the items came out of `__getitem__`: a list element makes `join` raise TypeError -/
def pyJoinItems (sep : List Char) (items : List Item) : Except PyErr (List Char) :=
  match itemStrs items with
  | some parts => .ok (pyJoin sep parts)
  | none => .error .typeError

/-- `item == "<literal>"` -/
def Item.eqStr : Item → List Char → Bool
  | .str s, t => s == t
  | .strs _, _ => false

/-- a `__getitem__` result used as a string (`trans.append(gc[codon])`): for a three-character codon it is one; a codon
list (one-character item) never reaches this use in the translated code (modelled as the empty string) -/
def Item.asStr : Item → List Char
  | .str s => s
  | .strs _ => []

/-- `try: x = m  except E: x = h` — the handler runs for exactly the named exception class -/
def pyTry {α} (m : Except PyErr α) (e : PyErr) (h : Except PyErr α) : Except PyErr α :=
  match m with
  | .ok v => .ok v
  | .error e' => if e' = e then h else .error e'

/-- iterating over what `__getitem__` returned -/
def Item.toList : Item → List (List Char)
  | .str s => s.map fun c => [c]
  | .strs l => l

/-- `d.get(k, default)` on a dict kept as an association list in insertion order with unique keys -/
def dictGetD {α β} [DecidableEq α] (d : List (α × β)) (k : α) (dflt : β) : β := lookupD d k dflt

def dictHas {α β} [DecidableEq α] (d : List (α × β)) (k : α) : Bool := d.any fun kv => kv.1 = k

/-- `dict(zip(keys, vals))` / repeated `d[k] = v`: a later duplicate replaces the value, the position stays -/
def dictOfZip {α β} [DecidableEq α] (kvs : List (α × β)) : List (α × β) :=
  kvs.foldl (fun d kv => dictSet d kv.1 kv.2) []

/-- `itertools.product(xs, ys)` -/
def pyProduct {α β} (xs : List α) (ys : List β) : List (α × β) := xs.flatMap fun x => ys.map fun y => (x, y)

/-! ## old `genetic_code.GeneticCode` as built by `__init__` -/

structure OldGC where
  code_sequence : List Char
  start_codon_sequence : List Char
  codons : List (List Char × List Char)
  synonyms : List (List Char × List (List Char))
  start_codons : List (List Char × List Char)

/-- `aa_lookup`: for every codon in order, append it to the list of its amino acid -/
def oldSynonyms (pairs : List (List Char × List Char)) : List (List Char × List (List Char)) :=
  pairs.foldl (fun d kv => dictSet d kv.2 (lookupD d kv.2 [] ++ [kv.1])) []

def mkOldGC (seq starts : List Char) : OldGC :=
  let cods := product3 oldBases
  let lookup := dictOfZip (cods.zip (seq.map fun c => [c]))
  { code_sequence := seq
    start_codon_sequence := starts
    codons := lookup
    synonyms := oldSynonyms (cods.map fun c => (c, lookupD lookup c []))
    start_codons := dictOfZip ((cods.zip (starts.map fun c => [c])).filter fun kv => kv.2 ≠ ['-']) }

/-- `dna.rc()` of the DNA sequence object handed to the old `sixframes` -/
def oldSeqRc (dna : List Char) : List Char := oldRc oldDna dna

/-! ## new `new_genetic_code.GeneticCode` -/

structure NewGCO where
  g : NewGC
  codon_to_aa : List (List Char × List Char)
  aa_to_codon : List (List Char × List (List Char))

def mkNewGCO (mt : MT) (seq : List Char) : NewGCO :=
  let g := mkNewGC mt seq
  let pairs := g.words.zip (g.codeSeq.map fun c => [c])
  { g := g
    codon_to_aa := dictOfZip pairs
    aa_to_codon := oldSynonyms (pairs.map fun kv => (kv.1, kv.2)) }

/-- the argument of `translate`: the characters and the alphabet in which they are (or will be) indexed -/
structure Dna where
  chars : List Char
  alpha : Option (List Char)   -- `none`: a `str` (indexed by the code's own monomers); `some a`: an index array over `a`

def Dna.ofStr (s : List Char) : Dna := ⟨s, none⟩
def Dna.len (d : Dna) : Int := d.chars.length
def Dna.slice (d : Dna) (a b : Option Int) : Dna := ⟨pySlice d.chars a b, d.alpha⟩

/-- a k-mer index array together with the byte width of its dtype -/
structure Idx where
  vals : List Nat
  width : Nat

/-- `self.codons.to_indices(dna)`: the result array has the alphabet's dtype (`get_array_type(len(self))`) -/
def NewGCO.toIndices (o : NewGCO) (d : Dna) : Idx :=
  let alpha := match d.alpha with | none => o.g.alpha | some a => a
  ⟨GC.toIndices o.g.ns o.g.gci o.g.gi (d.chars.map (monoIdx alpha)), byteWidth o.g.words.length⟩

/-- `ndarray.tobytes()` -/
def Idx.tobytes (x : Idx) : List Nat := x.vals.flatMap (leBytes x.width)

/-- `self._translate_plus(bytes)` / `self._translate_minus(bytes)` (`.decode("utf8")` is the identity here) -/
def NewGCO.translatePlus (o : NewGCO) (bytes : List Nat) : List Char := bytes.map o.g.plus
def NewGCO.translateMinus (o : NewGCO) (bytes : List Nat) : List Char := bytes.map o.g.minus

/-! ## sequence objects, as far as `has_terminal_stop` / `trim_stop_codon` / `get_translation` look at them -/

/-- a nucleic-acid sequence: the displayed string, `moltype.gap`, `moltype.gaps`, `moltype.alphabet`, and the
alphabet of its index array (`most_degen_alphabet()`) -/
structure NSeq where
  chars : List Char
  gap : Char
  gaps : List Char
  mtChars : List Char
  alpha : List Char
  /-- `moltype.ambiguities` (old moltypes; used by old `get_translation` through `resolve_ambiguity`) -/
  ambigs : List (Char × List Char) := []
  deriving DecidableEq

def NSeq.len (s : NSeq) : Int := s.chars.length
def gapRuns (gap : Char) : List Char → Bool → Nat
  | [], _ => 0
  | c :: r, inGap => if c = gap then (if inGap then 0 else 1) + gapRuns gap r true else gapRuns gap r false
/-- `self.parse_out_gaps()`: `m.num_gaps` = number of runs of the gap character, `s` = the ungapped sequence -/
def NSeq.numGaps (s : NSeq) : Int := gapRuns s.gap s.chars false
def NSeq.ungapped (s : NSeq) : NSeq := { s with chars := s.chars.filter fun c => c ≠ s.gap }
def NSeq.slice (s : NSeq) (a b : Option Int) : NSeq := { s with chars := pySlice s.chars a b }
def NSeq.str (s : NSeq) : List Char := s.chars
def NSeq.withStr (s : NSeq) (t : List Char) : NSeq := { s with chars := t }
def NSeq.array (s : NSeq) : Dna := ⟨s.chars, some s.alpha⟩
def NSeq.gapStrs (s : NSeq) : List (List Char) := s.gaps.map fun c => [c]

/-- the regular expression `(alt1|alt2|…)[cls]*$` (the only shape the translated code compiles) -/
structure RE where
  alts : List (List Char)
  cls : List Char

def RE.matchesAt (r : RE) (t : List Char) : Bool :=
  r.alts.any fun a => a.isPrefixOf t && (t.drop a.length).all fun c => r.cls.contains c

/-- `pattern.search(s)`: start of the leftmost match -/
def RE.searchAux (r : RE) : List Char → Nat → Option Int
  | [], k => if r.matchesAt [] then some k else none
  | c :: t, k => if r.matchesAt (c :: t) then some k else RE.searchAux r t (k + 1)
def RE.search (r : RE) (s : List Char) : Option Int := r.searchAux s 0

/-- `pattern.sub(rep, s)`: the pattern is anchored at the end, so the leftmost match runs to the end of `s` -/
def RE.sub (r : RE) (rep : List Char) (s : List Char) : List Char :=
  match r.search s with
  | none => s
  | some k => s.take k.toNat ++ rep

/-- `"x" * n` -/
def pyMulStr (s : List Char) (n : Int) : List Char := (List.replicate n.toNat s).flatten

def pyEnumerate {α} (xs : List α) : List (Int × α) := (enumFrom 0 xs).map fun p => ((p.2 : Int), p.1)
def pyChars (s : List Char) : List (List Char) := s.map fun c => [c]

def newSeqOf (mt : MT) (s : List Char) : NSeq := ⟨s, mt.gap, [mt.gap, mt.missing], mt.chars, newDegenGapped mt, []⟩
def oldSeqOf (mt : MT) (s : List Char) : NSeq := ⟨s, mt.gap, [mt.gap, mt.missing], mt.chars, newDegenGapped mt, oldAmbiguities mt⟩

/-! ## the environment of old `Sequence.get_translation` (`core/sequence.py`): moltype label / `to_dna`, the codon
alphabet of the genetic code, `moltype.resolve_ambiguity(codon, alphabet=…)`, the protein moltype's `what_ambiguity` -/

/-- `self.moltype.label` of a nucleic-acid sequence -/
def NSeq.label (s : NSeq) : List Char := if 'U' ∈ s.mtChars then ['r', 'n', 'a'] else ['d', 'n', 'a']

/-- `self.to_dna()`: `U → T` in the sequence; the moltype becomes DNA -/
def NSeq.toDna (s : NSeq) : NSeq :=
  let f := fun c : Char => if c = 'U' then 'T' else if c = 'u' then 't' else c
  { s with chars := s.chars.map f, mtChars := s.mtChars.map f, alpha := s.alpha.map f,
           ambigs := s.ambigs.map fun kv => (f kv.1, kv.2.map f) }

/-- `gc.get_alphabet(include_stop=…).with_gap_motif()`: `list(self.codons)` or `list(self.sense_codons)`, plus `"---"` -/
def OldGC.codonAlphabet (g : OldGC) (includeStop : Bool) : List (List Char) :=
  ((g.codons.filter fun kv => includeStop || kv.2 ≠ ['*']).map (·.1)) ++ [['-', '-', '-']]

/-- `itertools.product(*resolved)` joined -/
def pyProductAll : List (List Char) → List (List Char)
  | [] => [[]]
  | xs :: r => xs.flatMap fun x => (pyProductAll r).map fun t => x :: t

def lookupOpt {α β} [DecidableEq α] : List (α × β) → α → Option β
  | [], _ => none
  | (a, b) :: r, k => if a = k then some b else lookupOpt r k

/-- `moltype.resolve_ambiguity(ambig_motif, alphabet=alphabet)` (old moltypes, `alphabet` given): the motif itself when
it is in the alphabet; otherwise every expansion (`self.ambiguities[c]` per character, a missing key is AlphabetError)
that is in the alphabet; AlphabetError when there is none -/
def NSeq.resolveAmbiguity (s : NSeq) (motif : List Char) (alphabet : List (List Char)) : Except PyErr (List (List Char)) :=
  if motif ∈ alphabet then .ok [motif]
  else
    match motif.mapM (fun c => lookupOpt s.ambigs c) with
    | none => .error .alphabetError
    | some resolved =>
      let result := pyProductAll resolved
      let result := if alphabet ≠ [] then result.filter (fun e => e ∈ alphabet) else result
      if result = [] then .error .alphabetError else .ok result

/-- a protein moltype as far as `what_ambiguity` looks at it: `len(self.alphabet)`, `self.missing`, `self.ambiguities` -/
structure PM where
  nchars : Nat
  missing : Char
  ambigs : List (Char × List Char)

def proteinChars : List Char :=
  ['A', 'C', 'D', 'E', 'F', 'G', 'H', 'I', 'K', 'L', 'M', 'N', 'P', 'Q', 'R', 'S', 'T', 'U', 'V', 'W', 'Y']

/-- `get_moltype("protein")` / `get_moltype("protein_with_stop")` (tables of `core/moltype.py`, compared with the runtime
objects by the harness each run) -/
def protMoltype (name : List Char) : PM :=
  let chars := if name = "protein_with_stop".toList then proteinChars ++ ['*'] else proteinChars
  let mt : MT := ⟨chars, '-', '?', [('B', ['N', 'D']), ('X', chars), ('Z', ['Q', 'E'])], []⟩
  ⟨chars.length, '?', oldAmbiguities mt⟩

/-- `protein.what_ambiguity(motifs)`: `frozenset(motifs)`, then the loop of `_what_ambiguity`; a motif that is not one
character long is in no ambiguity set (the result is then `missing`) -/
def PM.whatAmbiguity (p : PM) (motifs : List (List Char)) : List Char :=
  if motifs.all (fun m => m.length = 1) then
    [oldWhatLoop (toSet motifs.flatten) p.ambigs (p.nchars + 1) p.missing]
  else [p.missing]

end CogentModel.GCP
