/-
  C18 — executable model of the linear-space alignment `PairEmissionProbs.hirschberg` (align/pairwise.py, as
  repaired by fe1585a19) on top of the Viterbi kernel model `Model/PairHMM.lean`.

  What the code does for a problem with `n ≥ 3` residues in the first sequence and more cells than
  `HIRSCHBERG_LIMIT`:

  * `links = [(half, half)]`, `half = n // 2` (`AlignableSeq.midlinks`);
  * forward half: `scores_at_rows` → `_calc_global_probs`: the Viterbi table of the *whole* second sequence up to
    row `half`; `probs[j, state]` is the table value of `state` in cell `(half, j)` (END transitions replaced by 1);
  * backward half: the same on the *reversed* sequences (`Pair.backward`) with the transposed transition matrix
    (`dp`: `T[1:-1,1:-1] = origT[1:-1,1:-1].T; T[0,:] = origT[:,-1]`), read out per `state` through the column
    `T2[:, -1] = T[:, state]`: `max_prev (Vrev[n-half, m-j, prev] + origT[state, prev])`, the cell `(0,0)` of the
    reversed problem contributing `origT[state, END]`;
  * `middle_row = forward + backward`, `argmax` (first maximum in `(j, state)` order), `score` = that maximum;
  * first half: `self[:half, :anchor]` with `T2[:, -1] = 0; T2[anchor_state, -1] = 1` (must end in the anchor state);
    second half: `self[half:, anchor:]` with `T2[0, :] = T[anchor_state, :]` (starts from the anchor state);
    both solved by `dp` again (which recurses while the size test holds); tracebacks concatenated with offset.

  The split row is a parameter (`split n`, the code uses `n / 2`) so that the theorem covers every split row.
  `z` is the log score of probability `1.0`.  State 0 (BEGIN) of the middle row is `-inf` for `half ≥ 1` and is
  skipped.  If the whole middle row is `-inf` (no alignment possible at all) the model returns `none`.
  Import-free.
-/
import CogentModel.Model.PairHMM
namespace CogentModel.PairHMM

variable {S : Type}

/-- `Pair.backward()` + the transposition in `dp(backward=True)`: the reversed problem.  BEGIN of the reversed
problem carries the END transitions of the original; emissions are those of the reversed sequences:
a state entering reversed cell `(i, j)` emits what it emits entering original cell `(n - i + dx, m - j + dy)`. -/
def revHMM (h : HMM S) (n m : Nat) : HMM S where
  dirs := h.dirs
  T := fun a b => if a = 0 then h.T b h.endId else h.T b a
  em := fun s i j => h.em s (n - i + (h.dir s).1.toNat) (m - j + (h.dir s).2.toNat)

/-- first half problem: `T2[:, -1] = 0.0; T2[anchor_state, -1] = 1.0` -/
def pinEnd (h : HMM S) (z : S) (a : Nat) : HMM S where
  dirs := h.dirs
  T := fun p q => if q = h.endId then (if p = a then some z else none) else h.T p q
  em := h.em

/-- second half problem: `T2[0, :] = T[anchor_state, :]` on `self[i0:, j0:]` -/
def startFrom (h : HMM S) (a i0 j0 : Nat) : HMM S where
  dirs := h.dirs
  T := fun p q => if p = 0 then h.T a q else h.T p q
  em := fun s i j => h.em s (i0 + i) (j0 + j)

/-- backward score of `(cell, state)`: `calc_rows(i, i+1, j, j+1, to_end, T2)` with `T2[:, -1] = T[:, state]` on the
reversed table; `(i', j')` are the reversed coordinates of the cell -/
def bwdAt [Add S] [LT S] [DecidableLT S] (rv : HMM S) (cell : Cell S) (i' j' s : Nat) : Option S :=
  (bestPrev rv.T s cell 1 (if i' == 0 && j' == 0 then (rv.T 0 s, 0) else (none, rv.errId))).1

/-- one cell of `middle_row`: states `1..k` in order, strict `>` keeps the first maximum (`numpy.argmax`) -/
def midCell [Add S] [LT S] [DecidableLT S] (rv : HMM S) (bc : Cell S) (i' j' j : Nat) :
    Cell S → Nat → Option S × Nat × Nat → Option S × Nat × Nat
  | [], _, cur => cur
  | (v, _) :: rest, s, cur =>
    midCell rv bc i' j' j rest (s + 1)
      (if egt (eadd v (bwdAt rv bc i' j' s)) cur.1 then (eadd v (bwdAt rv bc i' j' s), j, s) else cur)

/-- scan of the middle row, `j = j0, j0+1, …` over the forward row; `m` is the length of the second sequence and
`brow` the row `n - half` of the reversed table -/
def midRow [Add S] [LT S] [DecidableLT S] (rv : HMM S) (i' m : Nat) (brow : List (Cell S)) :
    List (Cell S) → Nat → Option S × Nat × Nat → Option S × Nat × Nat
  | [], _, cur => cur
  | fc :: rest, j, cur =>
    midRow rv i' m brow rest (j + 1) (midCell rv (brow.getD (m - j) []) i' (m - j) j fc 1 cur)

def shiftSteps (i0 j0 : Nat) (p : List (Nat × Nat × Nat)) : List (Nat × Nat × Nat) :=
  p.map fun (s, i, j) => (s, i0 + i, j0 + j)

/-- `PairEmissionProbs.dp` in global Viterbi mode *with* the Hirschberg branch: `limit` = `HIRSCHBERG_LIMIT`,
`split n` = the middle row (`n / 2` in the code).  `fuel ≥ n` is always enough. -/
def hirsch [Add S] [LT S] [DecidableLT S] (z : S) (split : Nat → Nat) (limit : Nat) :
    Nat → HMM S → Nat → Nat → Result S
  | 0, h, n, m => viterbiGlobal h n m
  | f + 1, h, n, m =>
    if 3 ≤ n ∧ limit < (n + 2) * (m + 2) * (h.k + 2) then
      let half := split n
      let ft := tableOf h false half m
      let rv := revHMM h n m
      let bt := tableOf rv false (n - half) m
      let b := midRow rv (n - half) m (bt.getD (n - half) []) (ft.getD half []) 0 (none, 0, 0)
      match b.1 with
      | none => { score := none, path := none }
      | some v =>
        let ra := hirsch z split limit f (pinEnd h z b.2.2) half b.2.1
        let rb := hirsch z split limit f (startFrom h b.2.2 half b.2.1) (n - half) (m - b.2.1)
        { score := some v,
          path := match ra.path, rb.path with
            | some pa, some pb => some (pa ++ shiftSteps half b.2.1 pb)
            | _, _ => none }
    else viterbiGlobal h n m

end CogentModel.PairHMM
