/-
  Felsenstein pruning over rose trees — the executable model shared by C02 and C11.

  Mirrors cogent3/evolve/likelihood_calculation.py (make_partial_likelihood_defns,
  make_total_loglikelihood_defn, BinnedSiteDistribution.get_weighted_sum_lh),
  likelihood_tree_numba.py (sum_input_likelihoods, inner_product,
  get_log_sum_across_sites) and likelihood_tree.py (_indexed,
  get_full_length_likelihoods).

  Import-free and generic in the number type `R` (only `+ * 0 1` are used), so the
  very same definitions are (a) compiled into the native drivers and run over `Rat`
  on the float64 inputs of the real implementation and (b) reasoned about over an
  arbitrary commutative semiring in `Proofs/Prune*.lean`.

  States are `0 … m-1`; vectors are functions `Nat → R`, matrices `Nat → Nat → R`
  (`P parent child`, as in `numpy.inner(child_plh, psub)`).  `tabulate` is a
  memoising identity (it stores `f 0 … f (m-1)` in an array once), which keeps the
  functional presentation executable in time linear in the tree size.
-/
namespace CogentModel.Prune

/-- a vector, wrapped in a structure so that compiled code evaluates it once per node
(a bare function type would let the compiler push the memo table under the lambda) -/
structure Vec (R : Type) where
  get : Nat → R

/- NOTE on `@[noinline]`: Lean's code generator moves a `let` that is used once into the
lambda that uses it; every function that *consumes* a memoised vector is therefore a
separate non-inlined function taking the vector as a parameter, which keeps the
evaluation linear in the size of the tree (checked by timing in the harness). -/

/-- memoising identity: `tabulate m f = ⟨f⟩` (proved in `Proofs/Prune.lean`); the values
`f 0 … f (m-1)` are computed once and stored -/
@[noinline] def tabulate {R : Type} (m : Nat) (f : Nat → R) : Vec R :=
  let arr := Array.ofFn (n := m) (fun i => f i.val)
  ⟨fun i => if h : i < arr.size then arr[i] else f i⟩

/-- `res = 0; for i in range(m): res += f i`  (numba `inner_product`) -/
def sumOver {R : Type} [Add R] [Zero R] : Nat → (Nat → R) → R
  | 0, _ => 0
  | n + 1, f => sumOver n f + f n

abbrev Mat (R : Type) := Nat → Nat → R

/-- A (sub)tree; every node carries the substitution matrix of the edge *above* it
(cogent3 attaches an edge's parameters to the child node; the root's matrix is unused).
Leaves carry a payload `α` (the tip name) that is looked up in the alignment column. -/
inductive PTree (R : Type) (α : Type) where
  | leaf (P : Mat R) (a : α)
  | node (P : Mat R) (cs : List (PTree R α))

namespace PTree
variable {R α : Type}

def mat : PTree R α → Mat R
  | leaf P _ => P
  | node P _ => P

/-- the same node below a different top edge -/
def setMat (Q : Mat R) : PTree R α → PTree R α
  | leaf _ a => leaf Q a
  | node _ cs => node Q cs

def children : PTree R α → List (PTree R α)
  | leaf _ _ => []
  | node _ cs => cs

mutual
def numNodes : PTree R α → Nat
  | leaf _ _ => 1
  | node _ cs => 1 + numNodesL cs
def numNodesL : List (PTree R α) → Nat
  | [] => 0
  | c :: cs => numNodes c + numNodesL cs
end

mutual
def leaves : PTree R α → List α
  | leaf _ a => [a]
  | node _ cs => leavesL cs
def leavesL : List (PTree R α) → List α
  | [] => []
  | c :: cs => leaves c ++ leavesL cs
end

mutual
/-- the substitution matrices of all edges of the (sub)tree (the top node's own matrix excluded) -/
def edgeMats : PTree R α → List (Mat R)
  | leaf _ _ => []
  | node _ cs => edgeMatsL cs
def edgeMatsL : List (PTree R α) → List (Mat R)
  | [] => []
  | c :: cs => c.mat :: (edgeMats c ++ edgeMatsL cs)
end

mutual
/-- rename the leaves -/
def mapLeaves {β : Type} (f : α → β) : PTree R α → PTree R β
  | leaf P a => leaf P (f a)
  | node P cs => node P (mapLeavesL f cs)
def mapLeavesL {β : Type} (f : α → β) : List (PTree R α) → List (PTree R β)
  | [] => []
  | c :: cs => mapLeaves f c :: mapLeavesL f cs
end

end PTree

section pruning
variable {R α : Type} [Add R] [Mul R] [Zero R] [One R]

/-- `numpy.inner(child_plh, psub)`: the child's partial likelihoods seen from its parent -/
@[noinline] def upWith (m : Nat) (P : Mat R) (v : Vec R) : Vec R :=
  tabulate m (fun s => sumOver m (fun s' => P s s' * v.get s'))

/-- `result[col, motif] *= plhs[child_col, motif]` -/
@[noinline] def mulVec (m : Nat) (u r : Vec R) : Vec R :=
  tabulate m (fun s => u.get s * r.get s)

/-- `numpy.inner(plh, mprobs)` -/
@[noinline] def dot (m : Nat) (v : Vec R) (π : Nat → R) : R :=
  sumOver m (fun s => v.get s * π s)

mutual
/-- partial likelihoods of a node, one alignment column (`prof a s` = leaf profile) -/
def plh (m : Nat) (prof : α → Nat → R) : PTree R α → Vec R
  | .leaf _ a => ⟨prof a⟩
  | .node _ cs => prodUp m prof cs
/-- product over the children (numba `sum_input_likelihoods`) -/
def prodUp (m : Nat) (prof : α → Nat → R) : List (PTree R α) → Vec R
  | [] => ⟨fun _ => 1⟩
  | c :: cs => mulVec m (upWith m c.mat (plh m prof c)) (prodUp m prof cs)
end

/-- a child's contribution seen from its parent -/
def up (m : Nat) (prof : α → Nat → R) (c : PTree R α) : Vec R :=
  upWith m c.mat (plh m prof c)

/-- column likelihood `numpy.inner(plh_root, root_mprobs)` -/
def lh (m : Nat) (π : Nat → R) (prof : α → Nat → R) (t : PTree R α) : R :=
  dot m (plh m prof t) π

/-- `BinnedSiteDistribution.get_weighted_sum_lh`: `result = 0; for bprob, lh in zip(bprobs, lhs): result += lh * bprob` -/
def weightedSum : List R → List R → R
  | b :: bs, l :: ls => l * b + weightedSum bs ls
  | _, _ => 0

/-- likelihood of one column under rate/“bin” heterogeneity: one tree (same shape, own matrices)
and one root distribution per bin -/
def lhBins (m : Nat) (bprobs : List R) (bins : List ((Nat → R) × PTree R α)) (prof : α → Nat → R) : R :=
  weightedSum bprobs (bins.map fun (π, t) => lh m π prof t)

/-- `make_total_loglikelihood_defn`: the bin mixture is only applied when there is more than one bin -/
def lhColumn (m : Nat) (bprobs : List R) (bins : List ((Nat → R) × PTree R α)) (prof : α → Nat → R) : R :=
  match bins with
  | [(π, t)] => lh m π prof t
  | _ => lhBins m bprobs bins prof

end pruning

/-! ## The first-principles definition: sum over all labelings -/

/-- a tree with a state at every node -/
inductive LTree (R : Type) (α : Type) where
  | leaf (P : Mat R) (a : α) (s : Nat)
  | node (P : Mat R) (s : Nat) (cs : List (LTree R α))

namespace LTree
variable {R α : Type}
def mat : LTree R α → Mat R
  | leaf P _ _ => P
  | node P _ _ => P
def state : LTree R α → Nat
  | leaf _ _ s => s
  | node _ s _ => s
mutual
/-- forget the states -/
def erase : LTree R α → PTree R α
  | leaf P a _ => .leaf P a
  | node P _ cs => .node P (eraseL cs)
def eraseL : List (LTree R α) → List (PTree R α)
  | [] => []
  | c :: cs => erase c :: eraseL cs
end
mutual
def allStates (p : Nat → Bool) : LTree R α → Bool
  | leaf _ _ s => p s
  | node _ s cs => p s && allStatesL p cs
def allStatesL (p : Nat → Bool) : List (LTree R α) → Bool
  | [] => true
  | c :: cs => allStates p c && allStatesL p cs
end
end LTree

section brute
variable {R α : Type} [Add R] [Mul R] [Zero R] [One R]

mutual
/-- weight of a labelled subtree below (and excluding) its top edge:
`∏_{edges below} P_e[parent state, child state] · ∏_{leaves} profile[leaf state]` -/
def weight (prof : α → Nat → R) : LTree R α → R
  | .leaf _ a s => prof a s
  | .node _ s cs => weightL prof s cs
def weightL (prof : α → Nat → R) (s : Nat) : List (LTree R α) → R
  | [] => 1
  | c :: cs => (c.mat s c.state * weight prof c) * weightL prof s cs
end

mutual
/-- all labelings of a subtree whose top node has state `s`; a leaf state `s` with
`keep a s = false` is skipped (`keep ≡ true` enumerates every labeling) -/
def labelingsAt (keep : α → Nat → Bool) (m : Nat) : PTree R α → Nat → List (LTree R α)
  | .leaf P a, s => if keep a s then [.leaf P a s] else []
  | .node P cs, s => (labelingsL keep m cs).map (.node P s)
def labelingsL (keep : α → Nat → Bool) (m : Nat) : List (PTree R α) → List (List (LTree R α))
  | [] => [[]]
  | c :: cs =>
    (List.range m).flatMap fun s' =>
      (labelingsAt keep m c s').flatMap fun l => (labelingsL keep m cs).map (l :: ·)
end

def labelings (keep : α → Nat → Bool) (m : Nat) (t : PTree R α) : List (LTree R α) :=
  (List.range m).flatMap (labelingsAt keep m t)

/-- the published definition: `∑_{labelings} π(root state) · ∏_edges P · ∏_leaves profile` -/
def bruteForce (keep : α → Nat → Bool) (m : Nat) (π : Nat → R) (prof : α → Nat → R) (t : PTree R α) : R :=
  ((labelings keep m t).map fun l => weight prof l * π l.state).sum

end brute

/-! ## Column compression (`likelihood_tree._indexed`) and the weighted log-sum -/

def bumpAt : List Nat → Nat → List Nat
  | [], _ => []
  | c :: cs, 0 => (c + 1) :: cs
  | c :: cs, i + 1 => c :: bumpAt cs i

structure Indexed (κ : Type) where
  uniq : List κ
  counts : List Nat
  index : List Nat

/-- the loop body of `_indexed`: `seen[key]` is the position of `key` in `unique` -/
def indexedStep {κ : Type} [DecidableEq κ] (st : Indexed κ) (key : κ) : Indexed κ :=
  let i := st.uniq.idxOf key
  if i < st.uniq.length then
    { uniq := st.uniq, counts := bumpAt st.counts i, index := st.index ++ [i] }
  else
    { uniq := st.uniq ++ [key], counts := st.counts ++ [1], index := st.index ++ [st.uniq.length] }

def indexedGo {κ : Type} [DecidableEq κ] : List κ → Indexed κ → Indexed κ
  | [], st => st
  | key :: rest, st => indexedGo rest (indexedStep st key)

/-- `_indexed(values) = (unique, counts, index)` -/
def indexed {κ : Type} [DecidableEq κ] (values : List κ) : Indexed κ :=
  indexedGo values { uniq := [], counts := [], index := [] }

/-- `k • x` by repeated addition (import-free) -/
def nsmulR {S : Type} [Add S] [Zero S] : Nat → S → S
  | 0, _ => 0
  | n + 1, x => nsmulR n x + x

/-- `get_log_sum_across_sites`: `∑_u counts[u] · g(uniq[u])` (`g = log ∘ lh`, `log` uninterpreted) -/
def weightedLogSum {κ S : Type} [Add S] [Zero S] (g : κ → S) : List κ → List Nat → S
  | u :: us, c :: cs => nsmulR c (g u) + weightedLogSum g us cs
  | _, _ => 0

/-- total log-likelihood as the implementation computes it: compress, evaluate unique columns, weight -/
def lnLCompressed {κ S : Type} [DecidableEq κ] [Add S] [Zero S] (g : κ → S) (cols : List κ) : S :=
  let ix := indexed cols
  weightedLogSum g ix.uniq ix.counts

/-- the plain definition: one term per alignment column -/
def lnLPlain {κ S : Type} [Add S] [Zero S] (g : κ → S) (cols : List κ) : S :=
  (cols.map g).sum

/-- `likelihoods[self.index]` -/
def fullLength {κ S : Type} [DecidableEq κ] [Zero S] (g : κ → S) (cols : List κ) : List S :=
  let ix := indexed cols
  let vals := ix.uniq.map g
  ix.index.map fun i => vals.getD i 0

/-! ## Name lookup (alignment → leaves), matrix product -/

/-- the alignment as a list of `(name, data)` rows; leaves find their row by name -/
def lookupRow {κ δ : Type} [DecidableEq κ] (dflt : δ) : List (κ × δ) → κ → δ
  | [], _ => dflt
  | (k, d) :: rest, a => if k = a then d else lookupRow dflt rest a

def matMul {R : Type} [Add R] [Mul R] [Zero R] (m : Nat) (A B : Mat R) : Mat R :=
  fun i j => sumOver m (fun k => A i k * B k j)

end CogentModel.Prune
