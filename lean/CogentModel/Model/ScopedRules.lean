/-
  C16 — hand model of `evolve/likelihood_function.py::update_scoped_rules` (as it is in /repo now,
  with the no-match branch that retains the rich rule), `_get_keyed_rule_indices`,
  `update_rule_value`, `extend_rule_value`.

  A rule is `(par_name, scope, value)`.  Parameter names and edge names live in ONE type `S`
  (Python strings) because the code's dict key is `frozenset([par_name] + edges)`.
  Import-free.
-/
namespace CogentModel.ScopedRules

structure Rule (S V : Type) where
  par : S
  /-- `rule.get("edges", rule.get("edge"))`; `none` = no scope given (all edges); a rule written
  with the singular key `"edge": name` has `edges = some [name]` and `single = true` -/
  edges : Option (List S)
  single : Bool
  val : V
  deriving Repr, DecidableEq

variable {S V : Type} [DecidableEq S]

def sameSet (a b : List S) : Bool := a.all (fun x => b.contains x) && b.all (fun x => a.contains x)

/-- the dict key `frozenset([par_name] + (edges or []))` -/
def keyOf (r : Rule S V) : List S := r.par :: r.edges.getD []

def keyEq (a b : Rule S V) : Bool := sameSet (keyOf a) (keyOf b)

/-- `_get_keyed_rule_indices`: of several rules with the same key only the LAST survives -/
def keyed : List (Rule S V) → List (Rule S V)
  | [] => []
  | r :: rs => if rs.any (keyEq r) then keyed rs else r :: keyed rs

/-- the edge names the matching loop uses for a NULL rule: `set(null_rule.get("edges", null_rule.get("edge")))`
— for the singular string form this is the set of CHARACTERS of the name (`chars`) -/
def nullEnames (chars : S → List S) (n : Rule S V) : Option (List S) :=
  match n.edges with
  | none => none
  | some es => if n.single then some (es.flatMap chars) else some es

/-- `None in (enames, null_enames) or null_enames & enames` for a rich rule with `enames = some es` -/
def overlaps (chars : S → List S) (es : List S) (n : Rule S V) : Bool :=
  match nullEnames chars n with
  | none => true
  | some ns => ns.any (fun e => es.contains e)

inductive Err where
  | valueError    -- "... has too many mappings"
  deriving Repr, DecidableEq

/-- the null rules considered for a rich rule of the remainder -/
def matchesFor (chars : S → List S) (nullRem : List (Rule S V)) (r : Rule S V) : List (Rule S V) :=
  nullRem.filter (fun n => n.par == r.par &&
    (match r.edges with
     | none => true
     | some es => overlaps chars es n))

/-- `extend_rule_value`: one single-edge rule per edge of every matching null rule -/
def extend (r : Rule S V) (ms : List (Rule S V)) : List (Rule S V) :=
  ms.flatMap (fun n => (n.edges.getD []).map (fun e => { r with edges := some [e], single := true, val := n.val }))

/-- what one rich rule (of the keyed view) contributes to the result -/
def updateOne (chars : S → List S) (kr kn : List (Rule S V)) (r : Rule S V) : Except Err (List (Rule S V)) :=
  match kn.find? (fun n => keyEq r n) with
  | some n => .ok [{ r with val := n.val }]                 -- 1-to-1: same key
  | none =>
    let nullRem := kn.filter (fun n => !(kr.any (fun r' => keyEq r' n)))
    let ms := matchesFor chars nullRem r
    match r.edges with
    | none => .ok (extend r ms)                              -- rich rule is "free"
    | some _ =>
      match ms with
      | [] => .ok [r]                                        -- no counterpart: retain the rich rule
      | [m] => .ok [{ r with val := m.val }]
      | _ => .error .valueError

/-- every rule of `todo` in turn; the first error aborts (any error aborts in Python too) -/
def updateAll (chars : S → List S) (kr kn : List (Rule S V)) : List (Rule S V) → Except Err (List (Rule S V))
  | [] => .ok []
  | r :: rs =>
    match updateOne chars kr kn r with
    | .error e => .error e
    | .ok a =>
      match updateAll chars kr kn rs with
      | .error e => .error e
      | .ok b => .ok (a ++ b)

/-- on the keyed (dict) views -/
def updateKeyed (chars : S → List S) (kr kn : List (Rule S V)) : Except Err (List (Rule S V)) :=
  updateAll chars kr kn kr

/-- `update_scoped_rules(rich, null)`; the order of the result is unspecified in Python (set iteration) -/
def updateScoped (chars : S → List S) (rich null : List (Rule S V)) : Except Err (List (Rule S V)) :=
  updateKeyed chars (keyed rich) (keyed null)

/-- a rule applies to edge `e` -/
def covers (r : Rule S V) (e : S) : Bool :=
  match r.edges with
  | none => true
  | some es => es.contains e

/-! ## executable well-formedness check (audit addition)

`wfrB` is a Bool test that is SUFFICIENT for the hypothesis `WFr` of
`scoped_rules_preserve_values_r` (soundness: `Proofs/OptimiserScoped.lean::wfrB_sound`).  The driver
evaluates it on the rule lists that the real `initialise_from_nested` hands to
`update_scoped_rules`, so the harness can say how many REAL inputs the theorem applies to. -/

/-- both unscoped, or both scoped with the same set of edges -/
def scopeEq (a b : Rule S V) : Bool :=
  match a.edges, b.edges with
  | none, none => true
  | some x, some y => sameSet x y
  | _, _ => false

/-- both scoped and no common edge -/
def disjointScopes (a b : Rule S V) : Bool :=
  match a.edges, b.edges with
  | some x, some y => x.all (fun e => !(y.contains e))
  | _, _ => false

/-- two different rules of one parameter have disjoint explicit scopes -/
def pairwiseDisj [DecidableEq V] (l : List (Rule S V)) : Bool :=
  l.all (fun a => l.all (fun b => !(a.par == b.par) || decide (a = b) || disjointScopes a b))

/-- the four clauses of `WFr`, decidably: faithful keys, disjoint scopes in each list, and no
character mangling of a singular-`"edge"` null rule THAT IS NOT KEY-MATCHED by a rich rule -/
def wfrB [DecidableEq V] (chars : S → List S) (kr kn : List (Rule S V)) : Bool :=
  kr.all (fun r => kn.all (fun n => !(keyEq r n) || (r.par == n.par && scopeEq r n))) &&
  pairwiseDisj kr && pairwiseDisj kn &&
  kn.all (fun n => kr.any (fun r => keyEq r n) || decide (nullEnames chars n = n.edges))

/-- the ORIGINAL `WF.quirk` clause (every null rule, key-matched or not), for the histogram -/
def quirkAllB (chars : S → List S) (kn : List (Rule S V)) : Bool :=
  kn.all (fun n => decide (nullEnames chars n = n.edges))

end CogentModel.ScopedRules
