/-
  C18 — model of the gap bookkeeping of `app/align.py`:
  `_GapOffset`, `_merged_gaps`, `_gap_union`, `_gap_difference`, `_subset_gaps_to_align_coords`,
  `_combined_refseq_gaps`, `_gaps_for_injection`, `pairwise_to_multiple`, mirrored branch by branch.

  A Python dict `{gap position: length}` is an association list with unique keys (`Gaps`); everything the
  code does with them is lookup, assignment, `sorted(d.items())`.  All functions are structural so the
  kernel can evaluate them (`decide`).

  The *spec* side (gapped rows, "common-gap columns removed") is at the bottom.
  Import-free.
-/
namespace CogentModel.GapMerge

abbrev Gaps := List (Int × Int)

def dget : Gaps → Int → Option Int
  | [], _ => none
  | (k, v) :: r, x => if k = x then some v else dget r x

/-- `d[k] = v` -/
def dset : Gaps → Int → Int → Gaps
  | [], k, v => [(k, v)]
  | (k', v') :: r, k, v => if k' = k then (k, v) :: r else (k', v') :: dset r k v

def insertKey (k v : Int) : Gaps → Gaps
  | [] => [(k, v)]
  | (k', v') :: r => if k ≤ k' then (k, v) :: (k', v') :: r else (k', v') :: insertKey k v r

/-- `sorted(d.items())` (keys are unique) -/
def sortGaps : Gaps → Gaps
  | [] => []
  | (k, v) :: r => insertKey k v (sortGaps r)

def lastKey : Gaps → Int → Int
  | [], d => d
  | (k, _) :: r, _ => lastKey r k

/-! ### `_GapOffset` -/

structure GapOffset where
  store : Gaps
  minPos : Int          -- only consulted when the store is non-empty
  maxPos : Int
  total : Int
  invert : Bool

/-- the constructor loop `for gap_pos, gap_length in sorted(gaps_lengths.items())` -/
def goLoop (invert : Bool) : Gaps → Int → Gaps → Int → Gaps × Int × Int
  | [], cum, res, gp => (res, cum, gp)
  | (p, l) :: r, cum, res, _ =>
    goLoop invert r (cum + l)
      (if invert then dset (dset res (p + cum) cum) (p + cum + l) (cum + l) else dset res p cum) p

def GapOffset.mk' (gaps : Gaps) (invert : Bool) : GapOffset :=
  let s := sortGaps gaps
  let r := goLoop invert s 0 [] (-1)
  { store := r.1, total := r.2.1,
    minPos := match s with | [] => 0 | (p, _) :: _ => p,
    maxPos := if invert then r.2.2 + r.2.1 else r.2.2,
    invert := invert }

/-- `bisect_left(keys, x)` on sorted keys -/
def bisectLeft : List Int → Int → Nat
  | [], _ => 0
  | k :: r, x => if k < x then bisectLeft r x + 1 else 0

/-- Python list indexing with a possibly negative index, default when out of range -/
def pyIdx (l : List Int) (i : Int) : Int :=
  if i < 0 then l.getD (l.length - i.natAbs) 0 else l.getD i.toNat 0

/-- `_GapOffset.__getitem__` -/
def GapOffset.get (g : GapOffset) (index : Int) : Int :=
  if g.store = [] then 0
  else match dget g.store index with
    | some v => v
    | none =>
      if index < g.minPos then 0
      else if index > g.maxPos then g.total
      else
        let ordered := (sortGaps g.store).map (·.1)
        let i := bisectLeft ordered index
        let pos := pyIdx ordered i
        let pos := if g.invert then (if pos = index ∨ pos = 0 then pos else pyIdx ordered ((i : Int) - 1)) else pos
        (dget g.store pos).getD 0

/-! ### dict helpers of the module -/

def keysUnion (a b : Gaps) : List Int :=
  (a.map (·.1)) ++ ((b.map (·.1)).filter fun k => (dget a k).isNone)

/-- `_merged_gaps` -/
def mergedGaps (a b : Gaps) : Gaps :=
  if a = [] then b
  else if b = [] then a
  else (keysUnion a b).map fun k => (k, max ((dget a k).getD 0) ((dget b k).getD 0))

/-- `_gap_union` on the gap dicts of the reference rows -/
def gapUnion : List Gaps → Gaps → Gaps
  | [], acc => acc
  | g :: r, acc => gapUnion r (mergedGaps acc g)

/-- `_gap_difference` → (missing, overlapping) -/
def gapDifference (seqGaps : Gaps) : Gaps → Gaps × Gaps
  | [] => ([], [])
  | (p, l) :: r =>
    let d := gapDifference seqGaps r
    match dget seqGaps p with
    | none => ((p, l) :: d.1, d.2)
    | some l' => if l' ≠ l then (d.1, (p, l - l') :: d.2) else d

/-- `_subset_gaps_to_align_coords` -/
def subsetToAlign (orig : Gaps) (s2a : GapOffset) : Gaps → Gaps → Gaps
  | [], res => res
  | (p, dl) :: r, res => subsetToAlign orig s2a r (dset res (s2a.get p + p + (dget orig p).getD 0) dl)

def updateDiff (s2a : GapOffset) : Gaps → Gaps → Gaps
  | [], res => res
  | (p, l) :: r, res => updateDiff s2a r (dset res (p + s2a.get p) l)

/-- `_combined_refseq_gaps` -/
def combinedRefseqGaps (seqGaps unionGaps : Gaps) : Gaps :=
  let s2a := GapOffset.mk' seqGaps false
  let d := gapDifference seqGaps unionGaps
  updateDiff s2a d.1 (subsetToAlign seqGaps s2a d.2 [])

/-- (repaired variant only) `seq_position(aln_pos)`: number of residues of the other sequence that precede
alignment column `c`; a column strictly inside a gap belongs to that gap.  `s` = `sorted(other_seq_gaps.items())`,
`tot` = gap characters passed so far. -/
def seqPosAt : Gaps → Int → Int → Int
  | [], tot, c => c - tot
  | (q, l) :: r, tot, c =>
    if c ≤ q + tot then c - tot
    else if c < q + tot + l then q
    else seqPosAt r (tot + l) c

/-- alignment column → position in the other sequence.
`fixed = false`: the code as pinned (`gap_pos - aln2seq[gap_pos]`);
`fixed = true`: the proposed repair `fixes/C18-p2m-gap-injection.patch` (`seq_position(gap_pos)`). -/
def injectPos (fixed : Bool) (a2s : GapOffset) (sortedOther : Gaps) (gp : Int) : Int :=
  if fixed then seqPosAt sortedOther 0 gp else gp - a2s.get gp

def injectLoop (fixed : Bool) (a2s : GapOffset) (sortedOther : Gaps) (seqlen : Int) :
    Gaps → Gaps → Except String Gaps
  | [], all => .ok all
  | (gp, gl) :: r, all =>
    let gp' := min seqlen (injectPos fixed a2s sortedOther gp)
    if gp' < 0 then .error "ValueError"
    else injectLoop fixed a2s sortedOther seqlen r (dset all gp' (match dget all gp' with | some x => gl + x | none => gl))

/-- `_gaps_for_injection` -/
def gapsForInjection (fixed : Bool) (other refGaps : Gaps) (seqlen : Int) : Except String Gaps :=
  injectLoop fixed (GapOffset.mk' other true) (sortGaps other) seqlen (sortGaps refGaps) other

def injectAll (fixed : Bool) (unionGaps : Gaps) : List (Gaps × Gaps × Int) → Except String (List Gaps)
  | [] => .ok []
  | (rg, og, len) :: r =>
    match gapsForInjection fixed og (combinedRefseqGaps rg unionGaps) len with
    | .error e => .error e
    | .ok inj => match injectAll fixed unionGaps r with
      | .error e => .error e
      | .ok rest => .ok (inj :: rest)

/-- `pairwise_to_multiple` on gap dicts: input per pair (ref-row gaps, other-row gaps, other length);
output (gaps of the reference row, gaps of every other row) -/
def pairwiseToMultiple (fixed : Bool) (_reflen : Int) (pw : List (Gaps × Gaps × Int)) : Except String (Gaps × List Gaps) :=
  let u := gapUnion (pw.map (·.1)) []
  match injectAll fixed u pw with
  | .error e => .error e
  | .ok others => .ok (u, others)

/-! ### spec: gapped rows and "keeps the pairwise alignment" -/

/-- the gapped row described by a gap dict over a sequence of length `len`: `none` = gap column,
`some p` = residue `p` (what `gap_coords_to_map` + `Aligned` denote) -/
def rowFrom (gaps : Gaps) : Nat → Nat → List (Option Nat)
  | 0, p => List.replicate ((dget gaps p).getD 0).toNat none
  | f + 1, p => List.replicate ((dget gaps p).getD 0).toNat none ++ some p :: rowFrom gaps f (p + 1)

def rowOf (gaps : Gaps) (len : Int) : List (Option Nat) := rowFrom gaps len.toNat 0

/-- two rows with the columns removed where both have a gap -/
def dropCommon : List (Option Nat) → List (Option Nat) → List (Option Nat × Option Nat)
  | a :: r1, b :: r2 => if a.isNone && b.isNone then dropCommon r1 r2 else (a, b) :: dropCommon r1 r2
  | _, _ => []

/-- the merged rows of (reference, other k), common-gap columns removed, are the pairwise alignment -/
def keepsPair (reflen : Int) (u rg og inj : Gaps) (len : Int) : Bool :=
  (rowOf u reflen).length == (rowOf inj len).length &&
    dropCommon (rowOf u reflen) (rowOf inj len) == List.zip (rowOf rg reflen) (rowOf og len)

def keepsList (reflen : Int) (u : Gaps) : List (Gaps × Gaps × Int) → List Gaps → Bool
  | (rg, og, len) :: r, inj :: ri => keepsPair reflen u rg og inj len && keepsList reflen u r ri
  | [], [] => true
  | _, _ => false

def keepsAll (fixed : Bool) (reflen : Int) (pw : List (Gaps × Gaps × Int)) : Bool :=
  match pairwiseToMultiple fixed reflen pw with
  | .error _ => false
  | .ok (u, others) => keepsList reflen u pw others

/-- a well-formed pairwise alignment: gap positions inside the sequences with positive lengths, distinct
keys, rows of equal length, no column that is a gap in both rows -/
def gapsValid (g : Gaps) (len : Int) : Bool :=
  g.all (fun (p, l) => decide (0 ≤ p) && decide (p ≤ len) && decide (0 < l)) &&
    decide ((g.map (·.1)).Nodup)

def pairValid (reflen : Int) (p : Gaps × Gaps × Int) : Bool :=
  decide (0 ≤ p.2.2) && gapsValid p.1 reflen && gapsValid p.2.1 p.2.2 &&
    (rowOf p.1 reflen).length == (rowOf p.2.1 p.2.2).length &&
    (dropCommon (rowOf p.1 reflen) (rowOf p.2.1 p.2.2)).length == (rowOf p.1 reflen).length

end CogentModel.GapMerge
