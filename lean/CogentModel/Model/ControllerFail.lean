import CogentModel.Model.Controller
/-
  C07 — the ParameterController model of `Model/Controller.lean` with definitions whose `update()`
  may RAISE (e.g. an alignment that cannot be converted): the walk of `_updateIntermediateValues`
  then stops part way, `self._changed.clear()` is not reached, and the exception propagates to the
  caller (through the `finally:` of `updates_postponed` when the walk was the end-of-block one).
  What must hold: no dirty mark is lost, so a later successful walk recomputes everything.
  Import-free (reuses the state, `Op` and `upd` of `Model/Controller.lean`).
-/
namespace CogentModel.CtlF
open CogentModel.Ctl (St Op upd)

inductive Defn (V : Type) where
  | leaf
  | derived (args : List Nat) (fn : List V → Option V)   -- `none`: the calc raises

def Defn.args {V : Type} : Defn V → List Nat
  | .derived a _ => a
  | .leaf => []

variable {V : Type} [Inhabited V]

abbrev Graph (V : Type) := List (Defn V)

def defn (g : Graph V) (k : Nat) : Defn V := g.getD k .leaf

def clients (g : Graph V) (k : Nat) : List Nat :=
  (List.range g.length).filter (fun j => (defn g j).args.contains k)

/-- `defn.update()`; `none`: it raised (nothing was stored) -/
def updateOne (g : Graph V) (s : St V) (k : Nat) : Option (St V) :=
  match defn g k with
  | .leaf => some { s with values := upd s.values k (s.setting k) }
  | .derived args f =>
    match f (args.map s.values) with
    | some v => some { s with values := upd s.values k v }
    | none => none

/-- the `for defn in self.defns:` loop; `false`: an `update()` raised and the loop was left -/
def updateLoop (g : Graph V) : List Nat → St V → St V × Bool
  | [], s => (s, true)
  | k :: ks, s =>
    if s.changed.contains k then
      match updateOne g s k with
      | none => (s, false)
      | some s1 => updateLoop g ks { s1 with changed := s1.changed ++ clients g k }
    else updateLoop g ks s

/-- `_updateIntermediateValues`; `self._changed.clear()` only when the loop completed -/
def updateIntermediate (g : Graph V) (s : St V) : St V × Bool :=
  if s.suspended then (s, true)
  else
    match updateLoop g (List.range g.length) s with
    | (s', true) => ({ s' with changed := [] }, true)
    | (s', false) => (s', false)

/-- one operation; the Bool says whether it returned normally (`false`: the recalculation raised
and the exception reached the caller; the state is what was left behind) -/
def step (g : Graph V) (s : St V) : Op V → St V × Bool
  | .assign k v =>
    updateIntermediate g { s with setting := upd s.setting k v, changed := s.changed ++ [k] }
  | .enter => ({ s with stack := s.suspended :: s.stack, suspended := true }, true)
  | .exit =>
    match s.stack with
    | [] => (s, true)
    | old :: rest => updateIntermediate g { s with suspended := old, stack := rest }
  | .xexit =>
    match s.stack with
    | [] => (s, true)
    | old :: rest => updateIntermediate g { s with suspended := old, stack := rest }

def run (g : Graph V) : St V → List (Op V) → St V
  | s, [] => s
  | s, o :: os => run g (step g s o).1 os

def init0 (g : Graph V) (setting : Nat → V) : St V :=
  { values := fun _ => default, setting := setting, changed := List.range g.length,
    suspended := false, stack := [] }

end CogentModel.CtlF
