/-
  C06 — model of Python's `str.splitlines()` and of `cogent3.util.io.iter_splitlines`
  (the chunked line streamer used by every line based sequence parser).

  Text is a `List Char` (what `infile.read(chunk_size)` returns in text mode, i.e. *after*
  universal-newline translation), a chunked file is a `List (List Char)`.
  Import free: compiled into the native driver `drv_c06`.
-/
namespace CogentModel.Splitlines

/-- the line boundaries of `str.splitlines` (CPython `Py_UNICODE_ISLINEBREAK`) -/
def isBreak (c : Char) : Bool :=
  c = '\n' || c = '\r' || c.toNat = 0x0b || c.toNat = 0x0c || c.toNat = 0x1c || c.toNat = 0x1d ||
  c.toNat = 0x1e || c.toNat = 0x85 || c.toNat = 0x2028 || c.toNat = 0x2029

/-- `"\r\n"` is one boundary: drop a `'\n'` that directly follows a `'\r'`; afterwards every
boundary is exactly one character. -/
def crlfAux : Bool → List Char → List Char
  | _, [] => []
  | prevCR, c :: cs =>
    if prevCR && c = '\n' then crlfAux false cs else c :: crlfAux (c = '\r') cs

/-- prepend a character to the first line -/
def consHead (c : Char) : List (List Char) → List (List Char)
  | [] => [[c]]
  | l :: ls => (c :: l) :: ls

/-- split at every boundary character, boundaries removed, no trailing empty line
(`"ab\n".splitlines() == ["ab"]`, `"".splitlines() == []`, `"\n".splitlines() == [""]`). -/
def splitCore : List Char → List (List Char)
  | [] => []
  | c :: cs => if isBreak c then [] :: splitCore cs else consHead c (splitCore cs)

/-- `str.splitlines()` (keepends = False) -/
def pySplitlines (s : List Char) : List (List Char) := splitCore (crlfAux false s)

/-- `data.endswith("\n")` -/
def endsWithNl (s : List Char) : Bool := s.getLast? = some '\n'

/-- the `last` carried to the next round of the loop in `iter_splitlines`:
`last = lines.pop(-1); if end_is_newline: last += "\n"` -/
def carry (data : List Char) : List Char :=
  let last := ((pySplitlines data).getLast?).getD []
  if endsWithNl data then last ++ ['\n'] else last

/-- the lines yielded by one round: `lines` after `lines.pop(-1)` -/
def emitted (data : List Char) : List (List Char) := (pySplitlines data).dropLast

/--
`iter_splitlines` (util/io.py l.350-398), the loop after the file has been opened:

```
last = ""
while True:
    data = infile.read(chunk_size)
    if not data: break
    data = last + data
    end_is_newline = data.endswith("\n")
    lines = data.splitlines()
    last = lines.pop(-1)
    if end_is_newline: last += "\n"
    if not len(lines): continue
    yield from lines
if last: yield from last.splitlines()
```
`chunks` is the sequence of values returned by successive `infile.read(chunk_size)` calls
(an empty chunk is end of file, exactly as in the code).
-/
def iterGo : List Char → List (List Char) → List (List Char)
  | last, [] => if last.isEmpty then [] else pySplitlines last
  | last, chunk :: rest =>
    if chunk.isEmpty then (if last.isEmpty then [] else pySplitlines last)
    else emitted (last ++ chunk) ++ iterGo (carry (last ++ chunk)) rest

def iterSplitlines (chunks : List (List Char)) : List (List Char) := iterGo [] chunks

end CogentModel.Splitlines
