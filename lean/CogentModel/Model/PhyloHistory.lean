import CogentModel.Model.PhyloTree
import CogentModel.Model.PhyloNewick
/-
  C09 — the full alphabet of transformations the property lists, as one history type:
  re-rooting (rooted_at / rooted_with_tip / the re-rooting step of root_at_midpoint), sorted,
  copy/deepcopy, unrooted, get_sub_tree(names, tipsonly=True) and the newick round trip
  (get_newick(with_distances=True) followed by parse_string, token level).
  A history is only defined while every intermediate tree has a root with at least two
  children (a unary root arises only from keep_root=True; re-rooting such a tree would turn
  the old root into a tip — outside the property's "rooted/unrooted, bifurcating or multifurcating trees").
-/
namespace CogentModel.Phylo
variable {K : Type}

inductive XOp where
  | reroot (path : List Nat)
  | sorted (order : List String)
  | copy
  | unrooted
  | subtree (names : List String) (ignoreMissing keepRoot : Bool)
  | newick

def applyX [Add K] (t : PTree K) : XOp → Option (PTree K)
  | .reroot p => rerootAt t p
  | .sorted o => some (sorted t o)
  | .copy => some t
  | .unrooted => some (unrooted t)
  | .subtree ns im kr =>
    match getSubTree t ns im kr true with
    | .ok r => some r
    | .error _ => none
  | .newick => parseToks (newickToks true t)

/-- which tips an operation keeps -/
def keptX : XOp → String → Bool
  | .subtree ns _ _ => fun x => ns.contains x
  | _ => fun _ => true

def keptAll : List XOp → String → Bool
  | [] => fun _ => true
  | op :: ops => fun x => keptX op x && keptAll ops x

def applyXs [Add K] : PTree K → List XOp → Option (PTree K)
  | t, [] => some t
  | t, op :: ops =>
    match applyX t op with
    | none => none
    | some r => if r.children.length < 2 then none else applyXs r ops

end CogentModel.Phylo
