/-
  C07 — model of the scoped settings of ONE scalar parameter over TWO scope dimensions, edge × locus
  (`recalculation/scope.py` `_LeafDefn.assign_all`, `interpret_scopes`, `interpret_scope`,
  `get_current_bounds`, `get_mean_current_value`, `_indexed`; `evolve/parameter_controller.py`
  `set_param_rule` / `apply_param_rules`; `recalculation/definition.py` `_InputDefn.get_param_rules`,
  `_get_scoped_params`; `setting.py` `get_param_rule_dict`).

  A scope cell is a pair (edge `e < nEdges`, locus `l < nLoci`) (the real key is `(edge, 'bin0', locus)`:
  a rate parameter such as `kappa` has `valid_dimensions = ('edge', 'bin', 'locus')`, one bin).
  Setting objects have identity: a state maps every cell to the id of its setting object and ids to
  settings; every `assign_all` scope gets a fresh id.  Values are exact rationals.

  Import-free except for the ONE-dimension model (re-used: `Setting`, `clampVar`, `orElse`, `truthy`, `upd`).
-/
import CogentModel.Model.ParamRules
namespace CogentModel.Rules2
open CogentModel.Rules (Setting clampVar orElse truthy upd)

abbrev Cell := Nat × Nat

/-- the parameter definition: number of edges and of loci, class defaults, `independent_by_default` -/
structure Defn where
  nEdges : Nat
  nLoci : Nat
  dLo : Rat
  dVal : Rat
  dHi : Rat
  indepDefault : Bool

structure St where
  asg : Nat → Nat → Nat      -- (edge, locus) ↦ id of its setting object (`self.assignments`)
  store : Nat → Setting      -- id ↦ setting
  next : Nat                 -- next fresh id

/-- id of the setting object of a cell -/
def St.cid (s : St) (c : Cell) : Nat := s.asg c.1 c.2

def St.setting (s : St) (c : Cell) : Setting := s.store (s.cid c)

/-- all scope cells in the order in which `_indexed` sorts the keys `(edge, bin, locus)`:
edge major, locus minor (edges and loci numbered in sorted-name order) -/
def cells (d : Defn) : List Cell :=
  (List.range d.nEdges).flatMap (fun e => (List.range d.nLoci).map (fun l => (e, l)))

/-- a newly built function: one shared default Var, or one per cell when `independent_by_default` -/
def fresh (d : Defn) : St :=
  if d.indepDefault then
    { asg := fun e l => e * d.nLoci + l, store := fun _ => .var d.dLo d.dVal d.dHi, next := d.nEdges * d.nLoci }
  else
    { asg := fun _ _ => 0, store := fun _ => .var d.dLo d.dVal d.dHi, next := 1 }

/-- the categories of one dimension (of size `n`) selected by a rule: an empty / missing list means
the whole dimension (`set_param_rule` drops falsy scope arguments) -/
def selDim (n : Nat) (cs : Option (List Nat)) : List Nat :=
  match cs with
  | none => List.range n
  | some l => if l.isEmpty then List.range n else (List.range n).filter (fun c => l.contains c)

/-- `interpret_scope`: the selected cells are the rectangle edges × loci -/
def rect (d : Defn) (edges loci : Option (List Nat)) : List Cell :=
  (selDim d.nEdges edges).flatMap (fun e => (selDim d.nLoci loci).map (fun l => (e, l)))

/-- `interpret_scopes`: `dimension_independent = independent` for EVERY dimension of a plain list, so
the key is the whole scope tuple (every selected cell its own scope) or `()` (one scope: the rectangle) -/
def scopes (d : Defn) (edges loci : Option (List Nat)) (independent : Bool) : List (List Cell) :=
  if independent then (rect d edges loci).map (fun c => [c])
  else if (rect d edges loci).isEmpty then [] else [rect d edges loci]

/-- the `(lower, upper)` of a setting that `get_current_bounds` takes into account -/
def boundsOf (σ : Setting) : Option (Rat × Rat) :=
  match σ with
  | .var lo _ hi => if hi = lo then none else some (lo, hi)
  | .const _ => none

def foldBounds (dflt : Rat × Rat) (bs : List (Rat × Rat)) : Rat × Rat :=
  match bs with
  | [] => dflt
  | b :: rest => rest.foldl (fun acc x => (min acc.1 x.1, max acc.2 x.2)) b

/-- `get_current_bounds` -/
def curBounds (d : Defn) (s : St) (scope : List Cell) : Rat × Rat :=
  foldBounds (d.dLo, d.dHi) (scope.filterMap (fun c => boundsOf (s.setting c)))

/-- `get_mean_current_value` -/
def meanValue (s : St) (scope : List Cell) : Rat :=
  match scope with
  | [c] => (s.setting c).value
  | _ => (scope.foldl (fun acc c => acc + (s.setting c).value) 0) / (scope.length : Rat)

/-- the body of the `for scope in ...` loop of `assign_all` -/
def mkSetting (d : Defn) (s : St) (scope : List Cell) (value lower upper : Option Rat) (const : Bool) :
    Except String Setting :=
  if const then .ok (.const (orElse value (meanValue s scope)))
  else clampVar (orElse lower (curBounds d s scope).1) (orElse value (meanValue s scope))
        (orElse upper (curBounds d s scope).2)

/-- `for scope, setting in settings: for scope_t in scope: self.assignments[scope_t] = setting` -/
def assignScopes (s : St) : List (List Cell × Setting) → St
  | [] => s
  | (sc, σ) :: rest =>
    assignScopes
      { asg := fun e l => if sc.contains (e, l) then s.next else s.asg e l, store := upd s.store s.next σ,
        next := s.next + 1 }
      rest

/-- all settings are computed (from the state BEFORE the call) before any assignment -/
def mkSettings (d : Defn) (s : St) (value lower upper : Option Rat) (const : Bool) :
    List (List Cell) → Except String (List (List Cell × Setting))
  | [] => .ok []
  | sc :: rest =>
    match mkSetting d s sc value lower upper const with
    | .error e => .error e
    | .ok σ =>
      match mkSettings d s value lower upper const rest with
      | .error e => .error e
      | .ok l => .ok ((sc, σ) :: l)

/-- `interpret_scope` raises `InvalidScopeError(unused)`: `unused[d] = kw[d][:]`, and every MATCHING
scope tuple removes ONE occurrence of its category from `unused[d]`.  A category of this dimension
(size `n`) is matched by `other` tuples (`other` = number of selected categories of the other dimension
that exist; the single bin contributes a factor 1), so what is left over is every name that does not exist
and every name listed more often than `other` times.  (Replayed on the real code, HKY85 with loci a,b:
`edges=['Cat','Cat']` and `edges=['Cat','Cat'], loci=['a','b']` are ACCEPTED, `edges=['Cat','Cat'],
locus='a'` and `edges=['Cat','Cat','Cat']` raise.) -/
def badDim (n : Nat) (cs : Option (List Nat)) (other : Nat) : Bool :=
  match cs with
  | none => false
  | some l => !l.isEmpty && l.any (fun c => decide (n ≤ c) || decide (other < l.count c))

def badScope (d : Defn) (edges loci : Option (List Nat)) : Bool :=
  badDim d.nEdges edges (selDim d.nLoci loci).length || badDim d.nLoci loci (selDim d.nEdges edges).length

/-- `if independent is None: independent = self.independent_by_default` -/
def indepOf (d : Defn) (o : Option Bool) : Bool :=
  match o with
  | some b => b
  | none => d.indepDefault

/-- `_LeafDefn.assign_all` -/
def assignAll (d : Defn) (s : St) (edges loci : Option (List Nat)) (value lower upper : Option Rat)
    (const independent : Bool) : Except String St :=
  if badScope d edges loci then .error "InvalidScopeError"
  else
    match mkSettings d s value lower upper const (scopes d edges loci independent) with
    | .error e => .error e
    | .ok l => .ok (assignScopes s l)

structure RuleArgs where
  edges : Option (List Nat)
  loci : Option (List Nat)
  isIndependent : Option Bool
  isConstant : Bool
  value : Option Rat
  init : Option Rat
  lower : Option Rat
  upper : Option Rat
  deriving DecidableEq

/-- `value = init` when `init is not None` -/
def valueArg (r : RuleArgs) : Option Rat :=
  if r.isConstant then r.value
  else match r.init with
    | some i => some i
    | none => r.value

/-- `ParameterController.set_param_rule` -/
def setRule (d : Defn) (s : St) (r : RuleArgs) : Except String St :=
  if r.isConstant && (truthy r.init || truthy r.lower || truthy r.upper) then .error "AssertionError"
  else if !r.isConstant && r.init.isSome && truthy r.value then .error "AssertionError"
  else assignAll d s r.edges r.loci (valueArg r) r.lower r.upper r.isConstant (indepOf d r.isIndependent)

/-- `apply_param_rules` (the rules of this parameter, in order) -/
def applyRules (d : Defn) : St → List RuleArgs → Except String St
  | s, [] => .ok s
  | s, r :: rs =>
    match setRule d s r with
    | .error e => .error e
    | .ok s' => applyRules d s' rs

/-! ### export (`get_param_rules`) -/

/-- `_indexed` + `scoped[v].append(k)`: the cells at which a setting object appears for the first time,
in the order of the list (`if value in uniq` is identity: settings define no `__eq__`) -/
def firsts (s : St) : List Cell → List Cell
  | [] => []
  | c :: cs => c :: (firsts s cs).filter (fun c' => s.cid c' != s.cid c)

/-- the cells sharing `f`'s setting object (`scoped[index]`) -/
def group (d : Defn) (s : St) (f : Cell) : List Cell := (cells d).filter (fun c => s.cid c == s.cid f)

/-- `_get_scoped_params`: `sorted(set(k[index] for k in keys))` for the edge / the locus dimension -/
def projE (d : Defn) (s : St) (f : Cell) : List Nat :=
  (List.range d.nEdges).filter (fun e => (group d s f).any (fun c => c.1 == e))

def projL (d : Defn) (s : St) (f : Cell) : List Nat :=
  (List.range d.nLoci).filter (fun l => (group d s f).any (fun c => c.2 == l))

/-- number of distinct setting objects in use (`len(scoped)`) -/
def nGroups (d : Defn) (s : St) : Nat := (firsts s (cells d)).length

def settingValue (σ : Setting) : Option Rat :=
  match σ with
  | .const v => some v
  | .var _ _ _ => none

def settingInit (σ : Setting) : Option Rat :=
  match σ with
  | .const _ => none
  | .var _ v _ => some v

def settingLower (σ : Setting) : Option Rat :=
  match σ with
  | .const _ => none
  | .var lo _ _ => some lo

def settingUpper (σ : Setting) : Option Rat :=
  match σ with
  | .const _ => none
  | .var _ _ hi => some hi

/-- one exported rule: per dimension the categories the scope USES (its projection); a dimension with a
single category overall is dropped (`discard`), a single group exports without scope (`is_global`);
`is_independent=False` when `independent_by_default` and some dimension is spelled in the plural -/
def ruleOf (d : Defn) (s : St) (f : Cell) : RuleArgs :=
  { edges := if nGroups d s = 1 || decide (d.nEdges ≤ 1) then none else some (projE d s f)
    loci := if nGroups d s = 1 || decide (d.nLoci ≤ 1) then none else some (projL d s f)
    isIndependent :=
      if d.indepDefault && (decide (2 ≤ (projE d s f).length) || decide (2 ≤ (projL d s f).length)) then some false
      else none
    isConstant := !(s.setting f).isVar
    value := settingValue (s.setting f)
    init := settingInit (s.setting f)
    lower := settingLower (s.setting f)
    upper := settingUpper (s.setting f) }

/-- `get_param_rules`: one rule per setting object, in order of first appearance in `self.index` -/
def exportRules (d : Defn) (s : St) : List RuleArgs := (firsts s (cells d)).map (ruleOf d s)

/-- `get_num_free_params`: distinct setting objects in use that are Vars -/
def nfp (d : Defn) (s : St) : Nat := ((firsts s (cells d)).filter (fun f => (s.setting f).isVar)).length

/-! ### when is the export order right? -/

/-- the cell lies in the rectangle a rule names -/
def covers (d : Defn) (r : RuleArgs) (c : Cell) : Bool := (rect d r.edges r.loci).contains c

def pick (o : Option Cell) (b : Bool) (f : Cell) : Option Cell :=
  match o with
  | some g => some g
  | none => if b then some f else none

/-- the LAST rule (named by its first cell) of the list whose rectangle contains `c` -/
def lastCover (d : Defn) (s : St) (c : Cell) : List Cell → Option Cell
  | [] => none
  | f :: fs => pick (lastCover d s c fs) (covers d (ruleOf d s f) c) f

def ownsLast (s : St) (c : Cell) (o : Option Cell) : Bool :=
  match o with
  | some f => s.cid f == s.cid c
  | none => false

/-- for every cell, the last exported rule (in export order) whose rectangle contains the cell is the rule
of the cell's own setting object -/
def orderSound (d : Defn) (s : St) : Bool :=
  (cells d).all (fun c => ownsLast s c (lastCover d s c (firsts s (cells d))))

/-- every setting object's scope IS a rectangle: each cell inside the rectangle its rule names belongs to it -/
def allRect (d : Defn) (s : St) : Bool :=
  (firsts s (cells d)).all (fun f => (cells d).all (fun c => !covers d (ruleOf d s f) c || s.cid c == s.cid f))

end CogentModel.Rules2
