/-
  `Sequence.add_feature(spans, strand)` on a view (core/sequence.py, core/new_sequence.py, since 0c76d24f6):
  the spans and the strand are as seen on the view; what is written to the annotation db are absolute
  plus-strand coordinates:

      if self._seq.is_reversed:
          rel_spans = sorted((length - e, length - s) for s, e in spans);  strand flipped
      else:
          rel_spans = spans
      db spans = rel_spans + self.annotation_offset            # annotation_offset = parent_start
-/
import CogentModel.Model.View
import CogentModel.Model.AnnotDb
import CogentModel.Model.FeatureView
namespace CogentModel.FeatureView
open CogentModel.View

/-- the `(spans, minus)` of the record `add_feature` writes to the db -/
def addFeatureRecord (v : View) (spans : List (Int × Int)) (minus : Bool) : Except Err (List (Int × Int) × Bool) :=
  match parentStart v with
  | .error e => .error e
  | .ok off =>
    let rel := if v.step < 0 then AnnotDb.sortSpans (spans.map fun sp => (len v - sp.2, len v - sp.1)) else spans
    .ok (rel.map (fun sp => (sp.1 + off, sp.2 + off)), if v.step < 0 then !minus else minus)

/-- the plus-strand, segment-relative spans `add_feature` hands to `make_feature` (`rel_spans`) -/
def addRelSpans (v : View) (spans : List (Int × Int)) : List (Int × Int) :=
  if v.step < 0 then AnnotDb.sortSpans (spans.map fun sp => (len v - sp.2, len v - sp.1)) else spans

/-- the whole of `Sequence.add_feature`: the db record AND the Feature it returns
(`self.make_feature(feature_data)` with `rel_spans` and the db strand); `annotation_offset` is evaluated (and may
raise) before the db is written and before `make_feature` runs -/
def addFeature (v : View) (spans : List (Int × Int)) (minus : Bool) :
    Except FErr ((List (Int × Int) × Bool) × Feat) :=
  match liftErr (addFeatureRecord v spans minus) with
  | .error e => .error e
  | .ok rec =>
    match makeFeature (len v) (decide (v.step < 0)) rec.2 (addRelSpans v spans) with
    | .error e => .error e
    | .ok f => .ok (rec, f)

end CogentModel.FeatureView
