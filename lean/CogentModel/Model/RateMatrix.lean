/-
  C05 — executable model of cogent3's rate-matrix construction.

  Mirrors (hand-written, tied by the exact-rational shadow in harness/c05.py):
    evolve/substitution_model.py   _ContinuousSubstitutionModel.calcQ, StationaryQ.calcQ,
                                   Parametric.calc_exchangeability_matrix, Empirical.…,
                                   _is_instantaneous / _is_any_indel, _Codon._is_instantaneous
    evolve/ns_substitution_model.py General / GeneralStationary.calc_exchangeability_matrix
    evolve/motif_prob_model.py     Simple / Monomer / PosnSpecificMonomer / Conditional:
                                   calc_word_probs, calc_word_weight_matrix
    recalculation/definition.py    WeightedPartitionDefn / MonotonicDefn / GammaDefn .calc

  Everything is generic in the scalar type `α` (only core arithmetic classes), so the same
  definitions are *executed* with `α := Rat` by the driver and *reasoned about* with `α := K`
  an arbitrary field in `Props/C05.lean`.  Matrices are `Array (Array α)`; every step tabulates
  a function of the indices (`tab n f`), read back with `mget` (0 outside the table), which is
  what makes the theorems short: `mget (tab n f) i j = f i j` for `i, j < n`.
  No imports.
-/
namespace CogentModel.RateMatrix
universe u

abbrev Vec (α : Type u) := Array α
abbrev Mat (α : Type u) := Array (Array α)

section basic
variable {α : Type u}

def vget [Zero α] (v : Vec α) (i : Nat) : α := v.getD i 0
def mget [Zero α] (m : Mat α) (i j : Nat) : α := (m.getD i #[]).getD j 0
def bget (m : Mat Bool) (i j : Nat) : Bool := (m.getD i #[]).getD j false
def vtab (n : Nat) (f : Nat → α) : Vec α := Array.ofFn (n := n) fun i => f i.val
def tab (n : Nat) (f : Nat → Nat → α) : Mat α :=
  Array.ofFn (n := n) fun i => Array.ofFn (n := n) fun j => f i.val j.val

/-- `∑_{k<n} f k` -/
def sumTo [Zero α] [Add α] : Nat → (Nat → α) → α
  | 0, _ => 0
  | n + 1, f => sumTo n f + f n

/-- `∏_{k<n} f k` -/
def prodTo [One α] [Mul α] : Nat → (Nat → α) → α
  | 0, _ => 1
  | n + 1, f => prodTo n f * f n

end basic

/-! ## which motif pairs are instantaneous (`_is_instantaneous`) -/

def nDiffs : List Nat → List Nat → Nat
  | x :: xs, y :: ys => (if x ≠ y then 1 else 0) + nDiffs xs ys
  | _, _ => 0

/-- position of the first difference (`diff_pos(x, y)[0]`), 0 if none -/
def firstDiff : List Nat → List Nat → Nat
  | x :: xs, y :: ys => if x ≠ y then 0 else firstDiff xs ys + 1
  | _, _ => 0

/-- the loop of `_is_any_indel` after the `x == y` test; state = (gap_start set?, gap_end set?, gap_strand) -/
def anyIndelLoop (g : Nat) : List Nat → List Nat → Bool → Bool → Nat → Bool
  | x :: xs, y :: ys, started, ended, strand =>
    if x ≠ y then
      if x ≠ g ∧ y ≠ g then false
      else if !started then anyIndelLoop g xs ys true ended (if x = g then 0 else 1)
      else if ended ∨ (if x = g then 0 else 1) ≠ strand then false
      else anyIndelLoop g xs ys started ended strand
    else if started then anyIndelLoop g xs ys started true strand
    else anyIndelLoop g xs ys started ended strand
  | _, _, _, _, _ => true

def isAnyIndel (g : Nat) (x y : List Nat) : Bool :=
  if x = y then false else anyIndelLoop g x y false false 0

/-- `_ContinuousSubstitutionModel._is_instantaneous` (`long_indels_are_instantaneous = True`);
`g` is the code of the gap character -/
def isInstWord (g : Nat) (x y : List Nat) : Bool :=
  let d := nDiffs x y
  d = 1 ∨ (d > 1 ∧ isAnyIndel g x y)

/-- `_Codon._is_instantaneous` -/
def isInstCodon (g : Nat) (x y : List Nat) : Bool :=
  let gm := x.map fun _ => g
  if x = gm ∨ y = gm then x ≠ y else nDiffs x y = 1

def wordAt (words : Array (Array Nat)) (i : Nat) : List Nat := (words.getD i #[]).toList

def instMask (codon : Bool) (g : Nat) (words : Array (Array Nat)) : Mat Bool :=
  tab words.size fun i j =>
    if codon then isInstCodon g (wordAt words i) (wordAt words j)
    else isInstWord g (wordAt words i) (wordAt words j)

section field
variable {α : Type u} [Zero α] [One α] [Add α] [Sub α] [Mul α] [Div α]

def maskF (n : Nat) (inst : Mat Bool) : Mat α := tab n fun i j => if bget inst i j then 1 else 0

/-! ## exchangeability matrices -/

/-- `R[indices] *= par` -/
def applyPred (n : Nat) (R : Mat α) (idx : List (Nat × Nat)) (par : α) : Mat α :=
  tab n fun i j => if idx.contains (i, j) then mget R i j * par else mget R i j

def applyPreds (n : Nat) : Mat α → List (List (Nat × Nat)) → List α → Mat α
  | R, idx :: idxs, p :: ps => applyPreds n (applyPred n R idx p) idxs ps
  | R, _, _ => R

/-- `Parametric.calc_exchangeability_matrix`: `None` is the `assert len(params) == len(predicate_indices)` -/
def exchParametric (n : Nat) (mask : Mat α) (preds : List (List (Nat × Nat))) (params : List α) :
    Option (Mat α) :=
  if params.length = preds.length then some (applyPreds n (tab n (mget mask)) preds params) else none

/-- `numpy.array((0.0,) + params + (1.0,)).take(param_pick)` (`General`) -/
def exchGeneral (n : Nat) (pick : Array (Array Nat)) (params : List α) : Mat α :=
  let tbl : Array α := (((0 : α) :: params) ++ [1]).toArray
  tab n fun i j => tbl.getD ((pick.getD i #[]).getD j 0) 0

/-! ## motif-probability models -/

/-- `MonomerProbModel` / `PosnSpecificMonomerProbModel.calc_word_probs`: `mp k` is the monomer
distribution used at word position `k` (the same vector at every position for `monomer`) -/
def wordProbsRaw (words : Array (Array Nat)) (L : Nat) (mp : Nat → Vec α) (i : Nat) : α :=
  prodTo L fun k => vget (mp k) ((words.getD i #[]).getD k 0)

def wordProbsMonomer (words : Array (Array Nat)) (L : Nat) (mp : Nat → Vec α) : Vec α :=
  let n := words.size
  let z := sumTo n (wordProbsRaw words L mp)
  vtab n fun i => wordProbsRaw words L mp i / z

/-- `calc_word_weight_matrix` of the monomer models:
`monomer_probs.take(mutated_posn*size + mutant_motif) * mask` (tables are 0 where `mask` is 0) -/
def weightMonomer (words : Array (Array Nat)) (inst : Mat Bool) (mp : Nat → Vec α) : Mat α :=
  tab words.size fun i j =>
    if bget inst i j then
      let d := firstDiff (wordAt words i) (wordAt words j)
      vget (mp d) ((words.getD j #[]).getD d 0)
    else vget (mp 0) 0 * 0

/-- words agree everywhere except (possibly) at position `d` -/
def sameContext (d : Nat) : Nat → List Nat → List Nat → Bool
  | k, x :: xs, y :: ys => (k = d ∨ x = y) ∧ sameContext d (k + 1) xs ys
  | _, [], [] => true
  | _, _, _ => false

/-- `numpy.dot(motif_probs, w2c)[c*length + d]` for the context of `w` at position `d` -/
def contextProb (words : Array (Array Nat)) (pi : Vec α) (w : List Nat) (d : Nat) : α :=
  sumTo words.size fun k => if sameContext d 0 (wordAt words k) w then vget pi k else 0

/-- `ConditionalMotifProbModel.calc_word_weight_matrix`:
`context_probs[context_probs == 0] = inf; motif_probs / context_probs.take(context_indices)`.
Cells that are not instantaneous carry `context_indices = 0` (first context, position 0). -/
def weightConditional [DecidableEq α] (words : Array (Array Nat)) (L : Nat) (inst : Mat Bool) (pi : Vec α) : Mat α :=
  tab words.size fun i j =>
    let c :=
      if bget inst i j then contextProb words pi (wordAt words j) (firstDiff (wordAt words i) (wordAt words j))
      else contextProb words pi (List.replicate L 0) 0
    if c = 0 then 0 else vget pi j / c

/-- `SimpleMotifProbModel`: `mprobs_matrix` is the 1-d vector itself; `Q *= mprobs_matrix` broadcasts over rows -/
def weightSimple (n : Nat) (pi : Vec α) : Mat α := tab n fun _ j => vget pi j

/-! ## Q -/

def rowTotals (n : Nat) (R : Mat α) : Vec α := vtab n fun i => sumTo n fun j => mget R i j

/-- the common tail of both `calcQ`s:
`row_totals = Q.sum(axis=1); Q -= diag(row_totals); Q *= 1.0 / (word_probs * row_totals).sum()` -/
def finishQ (n : Nat) (R : Mat α) (pi : Vec α) : Mat α :=
  let rt := rowTotals n R
  let q0 : Mat α := tab n fun i j => if i = j then mget R i j - vget rt i else mget R i j
  let s : α := 1 / sumTo n fun i => vget pi i * vget rt i
  tab n fun i j => mget q0 i j * s

/-- `_ContinuousSubstitutionModel.calcQ` (general: `mprobs_matrix` unused) -/
def calcQGeneral (n : Nat) (R : Mat α) (pi : Vec α) : Mat α := finishQ n R pi

/-- `StationaryQ.calcQ`: `Q *= mprobs_matrix` first -/
def calcQStationary (n : Nat) (R W : Mat α) (pi : Vec α) : Mat α :=
  finishQ n (tab n fun i j => mget R i j * mget W i j) pi

/-! ## rate classes -/

/-- `WeightedPartitionDefn.calc` -/
def ratesWeighted (weights values : Vec α) : Vec α :=
  let n := values.size
  let scale := sumTo n fun b => vget weights b * vget values b
  vtab n fun b => vget values b / scale

/-- `MonotonicDefn.calc`: `values = add.accumulate(increments)` -/
def ratesMonotonic (weights increments : Vec α) : Vec α :=
  ratesWeighted weights (vtab increments.size fun b => sumTo (b + 1) (vget increments))

/-- `GammaDefn.calc` given the bin medians (`gdtri` itself is not modelled) -/
def ratesGamma (weights medians : Vec α) : Vec α :=
  let n := medians.size
  let tot := sumTo weights.size (vget weights)
  let w : Vec α := vtab weights.size fun b => vget weights b / tot
  let scale := sumTo n fun b => vget medians b * vget w b
  vtab n fun b => vget medians b / scale

end field

section ordered
variable {α : Type u} [Zero α] [One α] [Add α] [Sub α] [Mul α] [Div α] [Neg α] [LT α] [DecidableLT α] [LE α] [DecidableLE α]

def absA (x : α) : α := if x < 0 then -x else x

/-- one pass of the `last_in_column` loop of `GeneralStationary.calc_exchangeability_matrix`;
`tol` is `numpy.allclose`'s absolute tolerance (1e-8); `none` is `ParameterOutOfBoundsError` -/
def gsStep (n : Nat) (tol : α) (pi : Vec α) (R : Mat α) (ij : Nat × Nat) : Option (Mat α) :=
  let i := ij.1
  let j := ij.2
  let rowTotal := sumTo n fun k => vget pi k * mget R j k
  let colTotal := sumTo n fun k => vget pi k * mget R k j
  let req := rowTotal - colTotal
  let req := if absA req ≤ tol then absA req else req
  if req < 0 then none
  else some (tab n fun a b => if a = i ∧ b = j then req / vget pi i else mget R a b)

def gsLoop (n : Nat) (tol : α) (pi : Vec α) : Mat α → List (Nat × Nat) → Option (Mat α)
  | R, [] => some R
  | R, ij :: rest => match gsStep n tol pi R ij with
    | none => none
    | some R' => gsLoop n tol pi R' rest

def exchGeneralStationary (n : Nat) (tol : α) (pick : Array (Array Nat)) (lastInCol : List (Nat × Nat))
    (pi : Vec α) (params : List α) : Option (Mat α) :=
  gsLoop n tol pi (exchGeneral n pick params) lastInCol

end ordered

end CogentModel.RateMatrix
