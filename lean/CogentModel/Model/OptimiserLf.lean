import CogentModel.Model.Optimiser
/-
  C16 — hand model of what sits between `maximise` and the likelihood function:
  `recalculation/scope.py::ParameterController.optimise` (build a calculator, run
  `Calculator.optimise` = `maximise(calculator, clamped start, (low, high), **kw)`,
  `except MaximumEvaluationsReached` → `limit_action`, `finally: update_from_calculator`)
  and the optimiser-side parameter transform of `recalculation/calculation.py`
  (`OptPar` / `LogOptPar.transform_to_optimiser / transform_from_optimiser`).

  Import-free.
-/
namespace CogentModel.Optimiser

/-- the exception `maximise` ends with (`none`: it returns) -/
inductive MaxExc where
  | maxEvals (n : Nat)
  | fatal
  | valueError
  deriving Repr, DecidableEq

def Final.exc : Final X Y → Option MaxExc
  | .valueError => some .valueError
  | .raised (.maxEvals n) => some (.maxEvals n)
  | .raised .fatal => some .fatal
  | .done _ _ _ (some (.maxEvals n)) => some (.maxEvals n)
  | .done _ _ _ (some .fatal) => some .fatal
  | .done _ _ _ none => none
  | .noBest => some .fatal      -- `f(None)` in get_best: TypeError

/-- how `ParameterController.optimise` ends -/
inductive LfEnd where
  | returned
  /-- returned after `warnings.warn("FORCED EXIT from optimiser after n evaluations")` -/
  | warned
  /-- `ArithmeticError("FORCED EXIT ...")` -/
  | forcedExit
  | valueError
  | fatal
  deriving Repr, DecidableEq

/-- `except MaximumEvaluationsReached: if limit_action == "ignore": pass elif limit_action == "warn": warn else: raise
ArithmeticError`; every other exception propagates -/
def lfEnd (limitAction : String) : Option MaxExc → LfEnd
  | none => .returned
  | some (.maxEvals _) =>
    if limitAction == "ignore" then .returned
    else if limitAction == "warn" then .warned
    else .forcedExit
  | some .fatal => .fatal
  | some .valueError => .valueError

structure LfRun (X Y : Type) where
  /-- what `maximise` did -/
  run : Run X Y
  /-- the point `update_from_calculator` (in the `finally`) takes back from the calculator: where the objective was
  called last (`none`: it was never called) -/
  applied : Option X
  outcome : LfEnd
  /-- `Calculator.optimised = True` was reached -/
  optimised : Bool

/-- `ParameterController.optimise(limit_action=…)`; `start` = the clamped `get_value_array()`, the bounds are in `c.inB` -/
def lfOptimise (c : Cfg X Y) (limitAction : String) (start : X) (qs : List X) : LfRun X Y :=
  { run := maximise c start qs,
    applied := (maximise c start qs).st.calls.head?,
    outcome := lfEnd limitAction (maximise c start qs).final.exc,
    optimised := (maximise c start qs).final.exc.isNone }

/-- `do_global = (not local) or local is None`, `do_local = local or local is None`: the queries of the global
optimiser come first, then those of the local one -/
def queriesFor (local_ : Option Bool) (qsG qsL : List X) : List X :=
  (match local_ with | some true => [] | _ => qsG) ++ (match local_ with | some false => [] | _ => qsL)

/-! ## optimiser-side transform of one parameter

`OptPar`: identity.  `LogOptPar`: the optimiser sees `log(value)`; `Calculator.get_bounds_vectors` hands
`transform_to_optimiser(lower/upper)` to `maximise`, `Calculator.change` / `update_from_calculator` read
`transform_from_optimiser(x)`.  The model is parameterised by the pair of maps (exact arithmetic: `exp ∘ log = id`). -/

structure Transform (V O : Type) where
  toOpt : V → O
  fromOpt : O → V

/-- `get_optimiser_bounds` -/
def Transform.optBounds (t : Transform V O) (lower upper : V) : O × O := (t.toOpt lower, t.toOpt upper)

end CogentModel.Optimiser
