/-
  C07 — executable model of `cogent3.recalculation.calculation.Calculator`
  (two value buffers, `_switch`, `last_values`, `last_undo`, `spare`, recycled cells).

  Fully generic: cell values are an arbitrary type `V`; a cell is an `OptPar`
  (with its `transform_from_optimiser`), a `ConstCell`, or an `EvaluatedCell`
  whose `calc` is an arbitrary function of the values of lower-ranked cells that
  may fail (`none` = the calc raised `ParameterOutOfBoundsError` / `ArithmeticError`,
  which `plain_update` turns into `CalculationInterupted`).

  Recycled cells (`recycling=True`): the calc is handed the array it produced
  before and overwrites it in place.  Such a cell owns exactly two arrays (one
  per buffer, made when `__init__` primes the two data sets); a buffer entry of
  a recycled cell is therefore a *pointer* (`Bool`: which of the two arrays) and
  the array contents live in `heap`.  `spare[rank]` is a pointer as well.  This
  makes the hazard "recycle and undo interact in bad ways" expressible: writing
  the array that the *other* buffer also points to would corrupt the undo state.

  No imports: compiled into the native driver `drv_c07`.
-/
namespace CogentModel.Calc

inductive Cell (V : Type) where
  | opt (tr : V → V)                                              -- OptPar; cell value = tr (optimiser value)
  | const (v : V)                                                 -- ConstCell
  | eval (recycled : Bool) (args : List Nat) (fn : List V → Option V)   -- EvaluatedCell

namespace Cell
variable {V : Type}
def args : Cell V → List Nat
  | .eval _ a _ => a
  | _ => []
def recycled : Cell V → Bool
  | .eval r _ _ => r
  | _ => false
def isOpt : Cell V → Bool
  | .opt _ => true
  | _ => false
end Cell

/-- `Calculator._cells` after `__init__` put the OptPars first: `cells[k]` has rank `k`,
`nOpt = len(self.opt_pars)`. -/
structure Graph (V : Type) where
  cells : List (Cell V)
  nOpt : Nat

variable {V : Type} [Inhabited V]

def Graph.n (g : Graph V) : Nat := g.cells.length
def Graph.cell (g : Graph V) (k : Nat) : Cell V := g.cells.getD k (.const default)
def Graph.isRec (g : Graph V) (k : Nat) : Bool := (g.cell k).recycled
def Graph.tr (g : Graph V) (k : Nat) (v : V) : V :=
  match g.cell k with
  | .opt t => t v
  | _ => v

/-- all args of every cell have smaller rank, OptPars are exactly the ranks below `nOpt` -/
def Graph.WF (g : Graph V) : Prop :=
  (∀ k, k < g.n → ∀ a, a ∈ (g.cell k).args → a < k) ∧
  (∀ k, k < g.n → ((g.cell k).isOpt = true ↔ k < g.nOpt)) ∧ g.nOpt ≤ g.n

/-! ### consequences / programs (`cells_changed_by`) -/

/-- `reach g C fuel k`: cell `k` is a consequence of one of the changed cells `C`
(some argument is changed or is itself a consequence). `fuel` bounds the depth; `g.n` suffices. -/
def reach (g : Graph V) (C : List Nat) : Nat → Nat → Bool
  | 0, _ => false
  | f + 1, k => (g.cell k).args.any (fun a => C.contains a || reach g C f a)

/-- `cells_changed_by`: the cells to recompute, in rank order -/
def program (g : Graph V) (C : List Nat) : List Nat :=
  (List.range g.n).filter (fun k => reach g C g.n k)

/-! ### state -/

structure St (V : Type) where
  val : Bool → Nat → V          -- cell_values[b][k] for ordinary cells
  ptr : Bool → Nat → Bool       -- cell_values[b][k] for recycled cells: which of the cell's two arrays
  heap : Nat → Bool → V         -- contents of the two arrays of recycled cell k
  spare : Nat → Option Bool     -- spare[k]
  sw : Bool                     -- _switch
  lastValues : Nat → V          -- last_values (optimiser-side values)
  lastUndo : List (Nat × V)     -- last_undo

def upd {α : Type} (f : Nat → α) (i : Nat) (v : α) : Nat → α := fun j => if j = i then v else f j
def updB {α : Type} (f : Bool → α) (b : Bool) (v : α) : Bool → α := fun c => if c = b then v else f c

/-- what `cell_values[b][k]` holds, as a value -/
def content (g : Graph V) (s : St V) (b : Bool) (k : Nat) : V :=
  if g.isRec k then s.heap k (s.ptr b k) else s.val b k

/-- `data[k] = cell.calc(...)`: an ordinary cell stores the result, a recycled one
overwrites the array `data[k]` points to -/
def write (g : Graph V) (s : St V) (d : Bool) (k : Nat) (v : V) : St V :=
  if g.isRec k then { s with heap := upd s.heap k (updB (s.heap k) (s.ptr d k) v) }
  else { s with val := updB s.val d (upd (s.val d) k v) }

/-- patch a vector by a list of `(index, value)` assignments, in order
(`for i, v in ...: self.last_values[i] = v`) -/
def patch (x : Nat → V) (l : List (Nat × V)) : Nat → V := l.foldl (fun x p => upd x p.1 p.2) x

/-! ### fresh evaluation (the specification) -/

/-- evaluate the cells in rank order from scratch; `acc` holds the values of the ranks done so far -/
def evalFrom (x : Nat → V) : List (Cell V) → List V → Option (List V)
  | [], acc => some acc
  | .opt t :: cs, acc => evalFrom x cs (acc ++ [t (x acc.length)])
  | .const v :: cs, acc => evalFrom x cs (acc ++ [v])
  | .eval _ args f :: cs, acc =>
    match f (args.map (fun a => acc.getD a default)) with
    | some v => evalFrom x cs (acc ++ [v])
    | none => none

/-- all cell values at the optimiser vector `x`, computed from scratch (`none`: some calc raises) -/
def evalFresh (g : Graph V) (x : Nat → V) : Option (List V) := evalFrom x g.cells []

/-! ### `Calculator.__init__` -/

/-- `EvaluatedCell.is_constant`: every argument is constant -/
def isConstF (g : Graph V) : Nat → Nat → Bool
  | 0, _ => true
  | f + 1, k =>
    match g.cell k with
    | .opt _ => false
    | .const _ => true
    | .eval _ args _ => args.all (fun a => isConstF g f a)

/-- priming: both data sets get the fresh values at the defaults `x0`; a recycled cell that is
constant is computed once and shared (both buffers point to array `false`), otherwise each
buffer gets its own array. Fails if a calc raises. -/
def init (g : Graph V) (x0 : Nat → V) : Option (St V) :=
  match evalFresh g x0 with
  | none => none
  | some vs =>
    some { val := fun _ k => vs.getD k default
           ptr := fun b k => if isConstF g g.n k then false else b
           heap := fun k _ => vs.getD k default
           spare := fun _ => none
           sw := false
           lastValues := x0
           lastUndo := [] }

/-! ### `Calculator.change` -/

/-- the block under `if self.with_undo:` after the switch has been flipped (`s.sw` is the buffer
to be overwritten = `data`, `!s.sw` = `base`): remember in `spare` the array that is about to be
dropped, `data[:] = base[:]`, then give every recycled cell of the program the spare array. -/
def prepare (g : Graph V) (s : St V) (prog : List Nat) : St V :=
  let d := s.sw
  let b := !s.sw
  let spare' : Nat → Option Bool := fun r =>
    if g.isRec r && (s.ptr d r != s.ptr b r) then some (s.ptr d r) else s.spare r
  let ptrD : Nat → Bool := fun r =>
    if g.isRec r && prog.contains r then
      match spare' r with
      | some p => p
      | none => !(s.ptr b r)     -- `spare[r] is None`: the calc allocates a new array
    else s.ptr b r
  { s with spare := spare', val := updB s.val d (s.val b), ptr := updB s.ptr d ptrD }

/-- the `assert data[cell.rank] is not base[cell.rank]` of `change` holds for every recycled
program cell -/
def assertOK (g : Graph V) (s : St V) (prog : List Nat) : Bool :=
  prog.all (fun r => !g.isRec r || ((prepare g s prog).ptr s.sw r != (prepare g s prog).ptr (!s.sw) r))

/-- "Set new OptPar values": returns the state and `changed_optpars` -/
def setPars (g : Graph V) (d : Bool) : List (Nat × V) → St V → List (Nat × V) → St V × List (Nat × V)
  | [], s, acc => (s, acc)
  | (i, v) :: rest, s, acc =>
    if i < g.nOpt then
      setPars g d rest
        { s with lastValues := upd s.lastValues i v, val := updB s.val d (upd (s.val d) i (g.tr i v)) }
        (acc ++ [(i, s.lastValues i)])
    else
      setPars g d rest { s with val := updB s.val d (upd (s.val d) i v) } acc

/-- `plain_update`: run the program in rank order; `false` = `CalculationInterupted` -/
def runProg (g : Graph V) (d : Bool) : List Nat → St V → St V × Bool
  | [], s => (s, true)
  | k :: rest, s =>
    match g.cell k with
    | .eval _ args f =>
      match f (args.map (content g s d)) with
      | some v => runProg g d rest (write g s d k v)
      | none => (s, false)
    | _ => runProg g d rest s

/-- the undo test: "ALL of the changes made in the last step are reversed in this step" -/
def undoApplies (s : St V) [DecidableEq V] (changes : List (Nat × V)) : Bool :=
  !s.lastUndo.isEmpty && s.lastUndo.all (fun p => changes.contains p)

/-- the state after the optional undo, and the remaining changes -/
def afterUndo [DecidableEq V] (s : St V) (changes : List (Nat × V)) : St V × List (Nat × V) :=
  if undoApplies s changes then
    ({ s with sw := !s.sw, lastValues := patch s.lastValues s.lastUndo },
     changes.filter (fun c => !s.lastUndo.contains c))
  else (s, changes)

/-- everything after the undo block, from a state `s1` with remaining changes `ch` -/
def applyChanges (g : Graph V) (s1 : St V) (ch : List (Nat × V)) : St V × Option V :=
  let prog := program g (ch.map (·.1))
  let s2 := prepare g { s1 with sw := !s1.sw, lastUndo := [] } prog
  let r3 := setPars g s2.sw ch s2 []
  let r4 := runProg g s2.sw prog r3.1
  if r4.2 then
    ({ r4.1 with lastUndo := r3.2 }, some (content g r4.1 r4.1.sw (g.n - 1)))
  else
    ({ r4.1 with sw := !r4.1.sw, lastValues := patch r4.1.lastValues r3.2, lastUndo := [] }, none)

/-- `Calculator.change(changes)`; `none` = the call raised (state as left by the `except` branch) -/
def change [DecidableEq V] (g : Graph V) (s : St V) (changes : List (Nat × V)) : St V × Option V :=
  let r := afterUndo s changes
  applyChanges g r.1 r.2

/-- `testoptparvector(values)`: the changes are the positions where `values` differs from `last_values` -/
def diffVec [DecidableEq V] (g : Graph V) (s : St V) (values : List V) : List (Nat × V) :=
  (List.range g.nOpt).filterMap (fun i =>
    if s.lastValues i = values.getD i default then none else some (i, values.getD i default))

def call [DecidableEq V] (g : Graph V) (s : St V) (values : List V) : St V × Option V :=
  change g s (diffVec g s values)

/-- a whole history of `change` calls -/
def runHist [DecidableEq V] (g : Graph V) : St V → List (List (Nat × V)) → St V
  | s, [] => s
  | s, c :: cs => runHist g (change g s c).1 cs

/-- observable snapshots -/
def curValues (g : Graph V) (s : St V) : List V := (List.range g.n).map (content g s s.sw)
def lastVec (g : Graph V) (s : St V) : List V := (List.range g.nOpt).map s.lastValues

end CogentModel.Calc
