/-
  C09 — executable model of cogent3 `core/tree.py` tree transformations.

  Hand-written mirror of the *code's* case analysis (not of what the code should do):
    TreeNode.unrooted_deepcopy / rooted_at / rooted_with_tip   (l.1539-1600)
    TreeNode.unrooted                                           (l.1568-1591)
    TreeNode._sorted / sorted                                   (l.1068-1104)
    TreeNode._get_sub_tree / get_sub_tree                       (l.937-1039)
    PhyloNode._get_distances / get_distances                    (l.1947-2018)
    PhyloNode.root_at_midpoint (value part; the in-place edit of the argument is a
      statement about Python object identity and is checked on the implementation)

  Conventions.  A node is `node name len children`.  `name = ""` stands for a node whose
  `name_loaded` is False (the implementation then carries an auto-generated `edge.N` /
  `root` name which is never printed).  `len = none` is `params['length'] is None`.
  `K` is the type of branch lengths (executed at `Rat`; theorems are for every
  commutative additive monoid).  No imports: compiles into the native driver.
-/
namespace CogentModel.Phylo

inductive PTree (K : Type) where
  | node (name : String) (len : Option K) (children : List (PTree K))

namespace PTree
variable {K : Type}
def name : PTree K → String | node n _ _ => n
def len : PTree K → Option K | node _ l _ => l
def children : PTree K → List (PTree K) | node _ _ cs => cs
end PTree

open PTree
variable {K : Type}

inductive TErr where
  | treeError | valueError | attributeError | typeError
  deriving DecidableEq, Repr

/-! ## tips (`get_tip_names`: terminal nodes in traversal order) -/
mutual
def tips : PTree K → List String
  | .node n _ [] => [n]
  | .node _ _ (c :: cs) => tips c ++ tipsL cs
def tipsL : List (PTree K) → List String
  | [] => []
  | c :: cs => tips c ++ tipsL cs
end

/- all node names in preorder (`get_node_names(includeself=True)`) -/
mutual
def allNames : PTree K → List String
  | .node n _ cs => n :: allNamesL cs
def allNamesL : List (PTree K) → List String
  | [] => []
  | c :: cs => allNames c ++ allNamesL cs
end

/-! ## locating a node: first preorder match of the name (`get_node_matching_name`) -/
mutual
def findPath (nm : String) : PTree K → Option (List Nat)
  | .node n _ cs => if n = nm then some [] else findPathL nm cs 0
def findPathL (nm : String) : List (PTree K) → Nat → Option (List Nat)
  | [], _ => none
  | c :: cs, i =>
    match findPath nm c with
    | some p => some (i :: p)
    | none => findPathL nm cs (i + 1)
end

/-- `pick l i = (l[:i], l[i], l[i+1:])` -/
def pick {α : Type} : List α → Nat → Option (List α × α × List α)
  | [], _ => none
  | x :: xs, 0 => some ([], x, xs)
  | x :: xs, i + 1 =>
    match pick xs i with
    | none => none
    | some (pre, y, post) => some (x :: pre, y, post)

def nodeAt : PTree K → List Nat → Option (PTree K)
  | t, [] => some t
  | .node _ _ cs, i :: p =>
    match pick cs i with
    | none => none
    | some (_, x, _) => nodeAt x p

/-! ## re-rooting: `unrooted_deepcopy`

The implementation walks the pointer graph from the new root, treating `parent` as one
more neighbour (listed *after* the children).  A node reached from one of its children
`x` gives its own name and params away and takes those of `x` ("edge params are stored
by the child").  `rerootGo above t path` descends along `path` from the old root; `above`
is the already re-oriented part of the tree hanging off `t` through its former parent
(empty at the old root, a singleton afterwards).  Each step is one rotation across the
edge `t — x`.  The new root is called "root" with `name_loaded=False` and no params.
The public callers only ever start the walk at a node with children
(`rooted_at` raises for a tip, `rooted_with_tip` starts at a parent). -/
def rerootGo : List (PTree K) → PTree K → List Nat → Option (PTree K)
  | above, .node _ _ cs, [] => if cs.isEmpty then none else some (.node "" none (cs ++ above))
  | above, .node _ _ cs, i :: p =>
    match pick cs i with
    | none => none
    | some (pre, x, post) => rerootGo [.node x.name x.len (pre ++ post ++ above)] x p

def rerootAt (t : PTree K) (path : List Nat) : Option (PTree K) := rerootGo [] t path

/-- `rooted_at(edge_name)` -/
def rootedAt (t : PTree K) (nm : String) : Except TErr (PTree K) :=
  match findPath nm t with
  | none => .error .treeError
  | some p =>
    match rerootAt t p with
    | none => .error .treeError          -- "Can't use a tip as the root"
    | some r => .ok r

/-- `rooted_with_tip(outgroup_name)`: `tip.parent.unrooted_deepcopy()` (no tip check in the code) -/
def rootedWithTip (t : PTree K) (nm : String) : Except TErr (PTree K) :=
  match findPath nm t with
  | none => .error .treeError
  | some p =>
    if p.isEmpty then .error .attributeError    -- root.parent is None
    else match rerootAt t p.dropLast with
      | none => .error .treeError
      | some r => .ok r

/-! ## `unrooted` (core/tree.py l.1568-1591, as repaired by commit 4e5465d45)

When the root has fewer than 3 children the first child with children is removed and its
children are promoted in its place, keeping their lengths; the removed stem edge's length is
added to the *other* children of the root (at most one, since there were fewer than 3), when
both lengths are present. -/
/-- `if sister.length is not None and collapsed.length is not None: sister.length += collapsed.length` -/
def addLen [Add K] : Option K → Option K → Option K
  | some a, some b => some (a + b)
  | a, _ => a

def splitFirstInternal : List (PTree K) → Option (List (PTree K) × PTree K × List (PTree K))
  | [] => none
  | c :: cs =>
    if c.children.isEmpty then
      match splitFirstInternal cs with
      | none => none
      | some (pre, x, post) => some (c :: pre, x, post)
    else some ([], c, cs)

def bumpLen [Add K] (extra : Option K) (s : PTree K) : PTree K :=
  PTree.node s.name (addLen s.len extra) s.children

def unrooted [Add K] : PTree K → PTree K
  | .node n l cs =>
    if cs.length < 3 then
      match splitFirstInternal cs with
      | none => .node n l cs
      | some (pre, x, post) => .node n l (pre.map (bumpLen x.len) ++ x.children ++ post.map (bumpLen x.len))
    else .node n l cs

/-! ## `sorted` -/
def insertStr (x : String) : List String → List String
  | [] => [x]
  | y :: ys => if x ≤ y then x :: y :: ys else y :: insertStr x ys

def sortStrs : List String → List String
  | [] => []
  | x :: xs => insertStr x (sortStrs xs)

/-- `list.index` (position of the first occurrence; `length` when absent — unreachable here
because the full sort order always contains every tip name) -/
def indexOf (order : List String) (nm : String) : Nat :=
  match order with
  | [] => 0
  | x :: xs => if x = nm then 0 else indexOf xs nm + 1

/-- stable insertion by score (Python's sort is stable; ties cannot occur for distinct tips) -/
def insertScored (x : Nat × PTree K) : List (Nat × PTree K) → List (Nat × PTree K)
  | [] => [x]
  | y :: ys => if x.1 ≤ y.1 then x :: y :: ys else y :: insertScored x ys

mutual
def sortedGo (order : List String) : PTree K → Nat × PTree K
  | .node n l cs =>
    match sortedL order cs with
    | [] => (indexOf order n, .node n l [])
    | (s, c) :: rest => (s, .node n l (c :: rest.map (·.2)))
def sortedL (order : List String) : List (PTree K) → List (Nat × PTree K)
  | [] => []
  | c :: cs => insertScored (sortedGo order c) (sortedL order cs)
end

def sorted (t : PTree K) (order : List String) : PTree K :=
  (sortedGo (order ++ sortStrs (tips t)) t).2

/-! ## `get_sub_tree` -/
/-- params of a merged single-child edge: the two lengths are added when both are present (a sum of
0.0 is kept — repaired in /repo d2c7528e3; before, `if length:` dropped it); otherwise the merged
edge ends up with *no* params at all -/
def mergeLen [Add K] : Option K → Option K → Option K
  | some a, some b => some (a + b)
  | _, _ => none

mutual
def subGo [Add K] (inc : List String) (keepRoot tipsonly : Bool) :
    PTree K → Option (PTree K)
  | .node n l cs =>
    if inc.contains n && (!tipsonly || cs.isEmpty) then some (.node n l cs)
    else
      match subL inc tipsonly cs with
      | [] => none
      | [c] => if keepRoot then some (.node n l [c]) else some (.node c.name (mergeLen l c.len) c.children)
      | c :: c' :: cs' => some (.node n l (c :: c' :: cs'))
def subL [Add K] (inc : List String) (tipsonly : Bool) :
    List (PTree K) → List (PTree K)
  | [] => []
  | c :: cs =>
    match subGo inc false tipsonly c with
    | none => subL inc tipsonly cs
    | some r => r :: subL inc tipsonly cs
end

def getSubTree [Add K] (t : PTree K) (names : List String)
    (ignoreMissing keepRoot tipsonly : Bool) : Except TErr (PTree K) :=
  let known := if tipsonly then tips t else allNames t
  if !ignoreMissing && names.any (fun n => !known.contains n) then .error .valueError
  else
    match subGo names keepRoot tipsonly t with
    | none => .error .treeError
    | some r =>
      if r.children.isEmpty then .error .treeError
      else
        -- `new_tree.name = "root"`; name_loaded is left as it was
        let r := PTree.node (if r.name = "" then "" else "root") r.len r.children
        .ok (if t.children.length > 2 then unrooted r else r)

/-! ## distances: `_get_distances`

Post-order; every internal node adds each child's length (1 when absent — the parameter
`d`) to the running root-ward distance of the tips below that child, then writes
`result[(x,y)] = result[(y,x)] = dist x + dist y` for tips below *different* children. -/
def lenOr (d : K) : Option K → K
  | some x => x
  | none => d

def crossOne [Add K] (xs ys : List (String × K)) : List ((String × String) × K) :=
  xs.flatMap fun x => ys.flatMap fun y => [((x.1, y.1), x.2 + y.2), ((y.1, x.1), x.2 + y.2)]

/-- `combinations(children, 2)` order -/
def crossPairs [Add K] : List (List (String × K)) → List ((String × String) × K)
  | [] => []
  | xs :: rest => (rest.flatMap fun ys => crossOne xs ys) ++ crossPairs rest

mutual
def distGo [Add K] [Zero K] (d : K) : PTree K → List (String × K) × List ((String × String) × K)
  | .node n _ [] => ([(n, 0)], [])
  | .node _ _ (c :: cs) =>
    let r := distL d (c :: cs)
    (r.1.flatten, r.2 ++ crossPairs r.1)
def distL [Add K] [Zero K] (d : K) :
    List (PTree K) → List (List (String × K)) × List ((String × String) × K)
  | [] => ([], [])
  | c :: cs =>
    let a := distGo d c
    let b := distL d cs
    ((a.1.map fun x => (x.1, x.2 + lenOr d c.len)) :: b.1, a.2 ++ b.2)
end

/-- entries in the order the implementation writes them into its dict (later wins) -/
def getDistances [Add K] [Zero K] (d : K) (t : PTree K) : List ((String × String) × K) :=
  (distGo d t).2

/-- dict lookup = the *last* write -/
def lookupLast {α β : Type} [DecidableEq α] (k : α) : List (α × β) → Option β
  | [] => none
  | (k', v) :: rest =>
    match lookupLast k rest with
    | some w => some w
    | none => if k' = k then some v else none

/-! ## histories of distance-preserving transformations -/
inductive TOp where
  | reroot (path : List Nat)          -- rooted_at / rooted_with_tip / the last step of root_at_midpoint
  | sorted (order : List String)
  | copy                              -- copy / deepcopy: the identity on values

def applyOp (t : PTree K) : TOp → Option (PTree K)
  | .reroot p => rerootAt t p
  | .sorted o => some (sorted t o)
  | .copy => some t

def applyOps : PTree K → List TOp → Option (PTree K)
  | t, [] => some t
  | t, op :: ops =>
    match applyOp t op with
    | none => none
    | some r => applyOps r ops

end CogentModel.Phylo
