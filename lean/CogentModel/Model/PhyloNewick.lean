import CogentModel.Model.PhyloTree
/-
  C09 — token-level model of the newick writer (`TreeNode.get_newick`, escape_name=True,
  with_node_names=False) and of the parser state machine `parse/newick.py::parse_string`.

  Tokens are what `_Tokeniser.tokens()` yields: the punctuation `( ) , : ;` and labels
  (already unquoted / unescaped).  The token after `:` is converted with `float`, so the
  model carries it as a `num`.  Quoting/escaping of labels and the regular-expression
  tokeniser are *exercised* by the harness (real tokeniser on the real writer's output must
  give exactly the model's token list), not modelled.  Comments `[...]` are out of scope.
-/
namespace CogentModel.Phylo
open PTree
variable {K : Type}

inductive Tok (K : Type) where
  | lp | rp | comma | colon | semi
  | label (s : String)
  | num (k : K)

/-- a name is printed only when `name_loaded` (model: non-empty) -/
def nameToks (n : String) : List (Tok K) := if n = "" then [] else [.label n]

def lenToks (w : Bool) : Option K → List (Tok K)
  | some k => if w then [.colon, .num k] else []
  | none => []

mutual
def toks (w : Bool) : PTree K → List (Tok K)
  | .node n l [] => nameToks n ++ lenToks w l
  | .node n l (c :: cs) => Tok.lp :: ((toks w c ++ toksTail w cs) ++ (nameToks n ++ lenToks w l))
/-- the remaining children, each preceded by a comma, then the closing parenthesis -/
def toksTail (w : Bool) : List (PTree K) → List (Tok K)
  | [] => [Tok.rp]
  | c :: cs => Tok.comma :: (toks w c ++ toksTail w cs)
end

/-- `get_newick(with_distances=w)` with the final semicolon -/
def newickToks (w : Bool) (t : PTree K) : List (Tok K) := toks w t ++ [Tok.semi]

/- what survives printing: everything when `w` (with_distances), otherwise no lengths -/
mutual
def stripLens (w : Bool) : PTree K → PTree K
  | .node n l cs => .node n (if w then l else none) (stripLensL w cs)
def stripLensL (w : Bool) : List (PTree K) → List (PTree K)
  | [] => []
  | c :: cs => stripLens w c :: stripLensL w cs
end

/-! ### `parse_string` -/
structure Frame (K : Type) where
  nodes : List (PTree K)
  inParen : Bool                -- sentinels = [")"] (true) or [";", EOT] (false)

structure PState (K : Type) where
  stack : List (Frame K) := []
  nodes : List (PTree K) := []
  inParen : Bool := false
  children : Option (List (PTree K)) := none
  name : Option String := none
  len : Option K := none
  expectLen : Bool := false

inductive PRes (K : Type) where
  | cont (σ : PState K)
  | done (t : PTree K)
  | err

/-- `constructor(children, name, attributes)` = `TreeBuilder.create_edge` (an absent name
becomes an unprinted auto-name, model `""`) -/
def mkNode (children : Option (List (PTree K))) (name : Option String) (len : Option K) : PTree K :=
  .node (name.getD "") len (children.getD [])

/-- closing a node on `)`, `;`, `,` or end of text -/
def closeNode (σ : PState K) (isSentinel isComma : Bool) : PRes K :=
  let nodes := σ.nodes ++ [mkNode σ.children σ.name σ.len]
  if isSentinel then
    match σ.stack with
    | [] => match nodes with
      | [t] => .done t
      | _ => .err                      -- `assert len(nodes) == 1`
    | f :: rest =>
      .cont { stack := rest, nodes := f.nodes, inParen := f.inParen, children := some nodes,
              name := none, len := none, expectLen := false }
  else if isComma && σ.inParen then
    .cont { σ with nodes := nodes, children := none, name := none, len := none, expectLen := false }
  else .err

/-- one token (`none` = end of text) -/
def pstep (σ : PState K) : Option (Tok K) → PRes K
  | tok =>
    if σ.expectLen then
      match tok with
      | some (.num k) => .cont { σ with len := some k, expectLen := false }
      | _ => .err                                             -- float() fails
    else
      match tok with
      | some .lp =>
        if σ.children.isSome then .err
        else if (σ.name.getD "") ≠ "" || σ.len.isSome then .err
        else .cont { stack := ⟨σ.nodes, σ.inParen⟩ :: σ.stack, nodes := [], inParen := true,
                     children := none, name := σ.name, len := none, expectLen := false }
      | some .colon => if σ.len.isSome then .err else .cont { σ with expectLen := true }
      | some .rp => closeNode σ σ.inParen false
      | some .semi => closeNode σ (!σ.inParen) false
      | none => closeNode σ (!σ.inParen) false
      | some .comma => closeNode σ false true
      | some (.label s) => if σ.name.isNone then .cont { σ with name := some s } else .err
      | some (.num _) => .err                                 -- numbers only follow ':'

def prun : PState K → List (Tok K) → Option (PTree K)
  | σ, [] => match pstep σ none with
    | .done t => some t
    | _ => none
  | σ, t :: ts => match pstep σ (some t) with
    | .cont σ' => prun σ' ts
    | .done r => some r          -- `break`: the rest of the text is ignored
    | .err => none

def parseToks (ts : List (Tok K)) : Option (PTree K) := prun {} ts

end CogentModel.Phylo
