/-
  Extension of `Model/AnnotDb.lean` by the two things a `Rec` leaves out:

  * a stored row may have NO location (`GenbankAnnotationDb.add_records`: a feature whose
    `record["location"]` is `None` / empty gets NULL `spans`, `start`, `stop`, `strand`), and
  * the `user` table has an `on_alignment` column (0 / 1, written by `add_feature`), the `gff` / `gb`
    tables do not; `get_features_matching`, `get_records_matching` and `num_matches` take an
    `on_alignment` argument.

  Mirrors `core/annotation_db.py`: `get_features_matching` l.849-883, `get_records_matching`
  l.816-842, `num_matches` l.885-910 (as repaired by 26f741b86), `subset` l.1148-1187, `GenbankAnnotationDb.add_records`
  l.1420-1452, `GenbankAnnotationDb.get_feature_children` / `get_feature_parent` l.1485-1583.
  The small decision expressions (which tables are visited, which table keeps `on_alignment` in its copy
  of the arguments, the normalisation of the bounds in
  `subset`, the coordinate tests of children / parent) are NOT written here: they are
  `Gen/C17Query.lean`, re-translated from the source on every run.
-/
import CogentModel.Model.AnnotDb
import CogentModel.Model.AnnotDbRoundTrip
import CogentModel.Gen.C17Query
namespace CogentModel.AnnotDb
open CogentModel.Gen.C17Query

/-- a stored row: `row.spans/start/stop` are meaningful only when `located`; `onAln` is the
`on_alignment` column (`none` = NULL, and always NULL for rows of the gff / gb table, which has no
such column) -/
structure XRec where
  row : Rec
  located : Bool
  onAln : Option Bool
  deriving DecidableEq, Repr, Inhabited

/-- the db: the class, the rows of the gff / gb table (none for `BasicAnnotationDb`) and of `user` -/
structure XDb where
  kind : Kind
  main : List XRec
  user : List XRec
  deriving Repr, Inhabited

def XDb.table (db : XDb) (n : String) : List XRec := if n = "user" then db.user else db.main

/-- all rows in `table_names` order -/
def XDb.records (db : XDb) : List XRec := (tableNames db.kind).flatMap db.table

/-- `on_alignment = ?` (a python bool is bound as 0 / 1; NULL matches nothing) -/
def oaCond (oa : Option Bool) (r : XRec) : Bool :=
  match oa with
  | none => true
  | some v => r.onAln == some v

/-- the window conjunct on a row whose `start` / `stop` may be NULL: every comparison with NULL is
NULL, so is any AND / OR of them, and a row is selected only when the WHERE expression is true -/
def xWindow (q : Query) (r : XRec) : Bool :=
  match windowConds q with
  | [] => true
  | cs => r.located && cs.all fun c => c r.row

/-- the WHERE expression of one table: column atoms AND `on_alignment = ?` (when handed to that table)
AND the window -/
def xRowMatches (q : Query) (oa : Option Bool) (r : XRec) : Bool :=
  (columnConds q).all (fun c => c r.row) && oaCond oa r && xWindow q r

/-- one table of a query: the table called `n` gets ITS OWN copy of the arguments, from which
`on_alignment` is dropped unless `keep n` (generated from the loop body: only `user` keeps it) -/
def tableQuery (keep : String → Bool) (db : XDb) (q : Query) (oa : Option Bool) (n : String) : List XRec :=
  (db.table n).filter (xRowMatches q (if keep n then oa else none))

/-- a gff / gb table that is still asked for `on_alignment` has no such column: `OperationalError` -/
def oaReachesMain (keep : String → Bool) (oa : Option Bool) (names : List String) : Bool :=
  oa.isSome && names.any fun n => n != "user" && keep n

/-- the rows `get_features_matching` selects: the tables are `["user"] if on_alignment else self.table_names`
(generated); every table gets its own copy of the arguments (`featuresKeepOa`, generated).
`get_features_matching` then builds the feature dict of every selected row, reading
`[tuple(c) for c in result["spans"]]`, which raises `TypeError` on a NULL blob. -/
def selectFeaturesX (db : XDb) (q : Query) (oa : Option Bool) : List XRec :=
  (featuresTables oa (tableNames db.kind)).flatMap (tableQuery featuresKeepOa db q oa)

def getFeaturesMatchingX (db : XDb) (q : Query) (oa : Option Bool) : Except Err (List XRec) :=
  let sel := selectFeaturesX db q oa
  if oaReachesMain featuresKeepOa oa (featuresTables oa (tableNames db.kind)) then .error .operationalError
  else if sel.all (·.located) then .ok sel else .error .typeError

/-- `get_records_matching` (as repaired by 26f741b86): the same tables, every table its own copy of the
arguments (`recordsKeepOa`, generated); the whole row is returned, NULL spans included -/
def getRecordsMatchingX (db : XDb) (q : Query) (oa : Option Bool) : Except Err (List XRec) :=
  let names := recordsTables oa (tableNames db.kind)
  if oaReachesMain recordsKeepOa oa names then .error .operationalError
  else .ok (names.flatMap (tableQuery recordsKeepOa db q oa))

/-- `num_matches` (as repaired by 26f741b86): `["user"] if on_alignment else self.table_names`
(`countTables`, generated), every table its own copy of the conditions (`countKeepOa`, generated) -/
def numMatchesX (db : XDb) (q : Query) (oa : Option Bool) : Except Err Nat :=
  let names := countTables oa (tableNames db.kind)
  if oaReachesMain countKeepOa oa names then .error .operationalError
  else .ok (names.flatMap fun n =>
    (db.table n).filter fun r => countMatches q r.row && oaCond (if countKeepOa n then oa else none) r).length

/-- `subset(**kwargs)`: the bounds go through the generated normalisation, then the same WHERE
expression table by table (no `on_alignment` argument); rows are copied whole, NULLs included -/
def subsetX (db : XDb) (q : Query) : XDb :=
  let q' := { q with start := subsetStart q.start, stop := subsetStop q.stop }
  if db.records.length = 0 then { kind := db.kind, main := [], user := [] }
  else { kind := db.kind, main := db.main.filter (xRowMatches q' none), user := db.user.filter (xRowMatches q' none) }

/-! ### `GenbankAnnotationDb.add_records` -/

/-- what `add_records` reads of one parsed feature: its type, its location (`none`: the parser could
not make coordinates of it), the list the namer returns (`none`: a name is made up), and the rest
of the qualifiers as the attributes text -/
structure GbFeature where
  biotype : String
  loc : Option Loc
  names : Option (List String)
  attrs : String
  deriving Repr, Inhabited

def joinComma : List String → String
  | [] => ""
  | [x] => x
  | x :: xs => x ++ "," ++ joinComma xs

/-- the row built from ONE feature (the dict `store` is created anew for every feature): `spans`,
`start`, `stop` and `strand` are set only under `if location := record.get("location")` (an empty
location list is falsy), `strand` only when the location has a single strand; the name is the
namer's list joined by commas, or `<type>-<n>` with the running counter `_num_fakeids` -/
def gbRow (seqid : String) (n : Nat) (f : GbFeature) : XRec × Nat :=
  let (name, n') := match f.names with
    | some l => (joinComma l, n)
    | none => (f.biotype ++ "-" ++ toString n, n + 1)
  let base : Rec := { seqid := some seqid, biotype := some f.biotype, name := some name, strand := none,
                      attrs := some f.attrs, spans := [], start := 0, stop := 0 }
  match f.loc with
  | none => ({ row := base, located := false, onAln := none }, n')
  | some l =>
    if l.flat.isEmpty then ({ row := base, located := false, onAln := none }, n')
    else
      let s := gbCoords l
      ({ row := { base with strand := gbStrand l, spans := s, start := spanStart s, stop := spanStop s },
         located := true, onAln := none }, n')

/-- the loop over the records of one `add_records(records, seqid)` call -/
def gbAddRecords (seqid : String) : Nat → List GbFeature → List XRec × Nat
  | n, [] => ([], n)
  | n, f :: fs =>
    let (r, n1) := gbRow seqid n f
    let (rs, n2) := gbAddRecords seqid n1 fs
    (r :: rs, n2)

/-! ### `GenbankAnnotationDb.get_feature_children` / `get_feature_parent` -/

/-- candidates: rows of every table with `name = ?` (`LIKE` when the name holds a `%`) and the
optional `biotype`; `_select_records_sql` ignores its start / stop arguments, the window is applied in
python by the generated tests; rows of `exclude_biotype` are skipped first.  Reading
`result["spans"]` of a candidate without location raises `TypeError` (before any test). -/
def familyCandidates (db : XDb) (name : String) (biotype : Option String) : List XRec :=
  (tableNames db.kind).flatMap fun n => (db.table n).filter fun r =>
    colCond (.one name) r.row.name && (match biotype with | none => true | some b => colCond (.one b) r.row.biotype)

def familyKeep (skip : Int → Int → Int → Int → Bool) (exclude : Option String) (start stop : Int) (r : XRec) : Bool :=
  !(r.row.biotype == exclude) && !skip start stop r.row.start r.row.stop

def gbChildrenX (db : XDb) (name : String) (biotype exclude : Option String) (start stop : Int) : Except Err (List XRec) :=
  let c := familyCandidates db name biotype
  if c.all (·.located) then .ok (c.filter (familyKeep childSkip exclude start stop)) else .error .typeError

def gbParentX (db : XDb) (name : String) (exclude : Option String) (start stop : Int) : Except Err (List XRec) :=
  let c := familyCandidates db name none
  if c.all (·.located) then .ok (c.filter (familyKeep parentSkip exclude start stop)) else .error .typeError

/-! ### `SqliteAnnotationDbMixin.get_feature_children` (GffAnnotationDb, BasicAnnotationDb) -/

/-- a stored row together with its `parent_id` column (GFF `Parent=`, `add_feature(parent_id=…)`) -/
structure PRec where
  x : XRec
  parent : Option String
  deriving DecidableEq, Repr, Inhabited

/-- `get_feature_children(name, biotype, **kwargs)` of the mixin: every table in `table_names` order (`rows` = their
rows in that order) is asked for `parent_id LIKE '%name%'` and, when given, the biotype atom; `_select_records_sql`
drops the `start` / `stop` / `allow_partial` it is handed, so a window changes nothing; then the feature dict is
built from `result["spans"]` (TypeError on a NULL blob); `childSel` = the selected rows -/
def btCond (biotype : Option String) (r : Rec) : Bool :=
  match biotype with
  | none => true
  | some b => colCond (.one b) r.biotype

/-- the column called `c` of a stored row -/
def PRec.col (r : PRec) (c : String) : Option String :=
  if c = "parent_id" then r.parent else if c = "name" then r.x.row.name else if c = "biotype" then r.x.row.biotype
  else if c = "seqid" then r.x.row.seqid else if c = "strand" then r.x.row.strand else none

/-- which column is compared with which pattern is generated (`mixinChildColumn`, `mixinChildPattern`) -/
def childSel (rows : List PRec) (name : String) (biotype : Option String) : List PRec :=
  rows.filter fun r => colCond (.one (mixinChildPattern name)) (r.col mixinChildColumn) && btCond biotype r.x.row

def mixinChildren (rows : List PRec) (name : String) (biotype : Option String) : Except Err (List PRec) :=
  if (childSel rows name biotype).all (·.x.located) then .ok (childSel rows name biotype) else .error .typeError

/-! ### `to_rich_dict` / `from_dict` on rows that may lack a location (as repaired by 26f741b86) -/

/-- one row of `to_rich_dict`: the NON-NULL columns; `spans` is converted to a list only `if "spans" in store`
(a row without a location has none of spans / start / stop); `on_alignment` (user table) travels as 0 / 1 -/
def xrecToRich (r : XRec) : Rich :=
  optField "seqid" r.row.seqid ++ optField "biotype" r.row.biotype ++ optField "name" r.row.name ++
  optField "strand" r.row.strand ++ optField "attributes" r.row.attrs ++
  (if r.located then [("spans", .spans r.row.spans), ("start", .int r.row.start), ("stop", .int r.row.stop)] else []) ++
  (match r.onAln with | none => [] | some b => [("on_alignment", .int (if b then 1 else 0))])

/-- the row `_update_db_from_rich_dict` inserts: `spans` becomes an array only
`if record.get("spans") is not None`; absent keys become NULL -/
def richToXRec (d : Rich) : XRec :=
  { row := richToRec d, located := (d.lookup "spans").isSome,
    onAln := match d.lookup "on_alignment" with | some (.int n) => some (n != 0) | _ => none }

/-- `deserialise_object(db.to_json())` of an in-memory db, table by table -/
def jsonRoundTripX (db : XDb) : XDb :=
  { kind := db.kind, main := db.main.map fun r => richToXRec (xrecToRich r),
    user := db.user.map fun r => richToXRec (xrecToRich r) }

/-- the representation convention of a row without location (what `parseXRec` and `gbRow` produce) -/
def XRec.normal (r : XRec) : Bool := r.located || (r.row.spans == [] && r.row.start == 0 && r.row.stop == 0)

end CogentModel.AnnotDb
