import CogentModel.Model.SeqFormats
/-
  C06 — executable model of the Clustal writer (`format/clustal.py clustal_from_alignment`) and of the Clustal
  parser (`parse/clustal.py`: `is_clustal_seq_line`, `delete_trailing_number`, `last_space = DelimitedSplitter(None, -1)`
  of `parse/record.py`, `LabelLineParser`, `MinimalClustalParser`, `ClustalParser`).
  Every definition mirrors the case analysis of the Python function named in its doc-comment.  Import free.
-/
namespace CogentModel.Clustal
open CogentModel.SeqFormats

/-! ### Python primitives used by the Clustal code -/

/-- `str.rstrip()` -/
def rstrip (s : Str) : Str := rstripBy isSpaceStr s

/-- `" ".join(pieces)` -/
def joinSp : List Str → Str
  | [] => []
  | l :: ls => match ls with
    | [] => l
    | _ :: _ => l ++ ' ' :: joinSp ls

/-- the part of an `int()` literal after its first digit: ASCII digits, a single `_` allowed between two digits -/
def usTail : Str → Bool
  | [] => true
  | c :: rest =>
    if c = '_' then
      (match rest with
        | [] => false
        | d :: r => isDigit d && usTail r)
    else isDigit c && usTail rest

/-- does `int(tok)` succeed for a token without whitespace (`tok` comes from `str.split()`): optional sign, then a
digit, then digits with single underscores between digits (PEP 515).  Non-ASCII digits are outside the modelled
fragment. -/
def pyIntOk (tok : Str) : Bool :=
  match (signSplit tok).2 with
  | [] => false
  | c :: rest => isDigit c && usTail rest

/-- `is_clustal_seq_line(line)`: non-empty, first character not white space, not starting with `CLUSTAL` / `MUSCLE` -/
def isSeqLine (line : Str) : Bool :=
  match line with
  | [] => false
  | c :: _ => !isSpaceStr c && !("CLUSTAL".toList.isPrefixOf line) && !("MUSCLE".toList.isPrefixOf line)

/-- `delete_trailing_number(line)`: `pieces = line.split(); int(pieces[-1])` succeeds -> `" ".join(pieces[:-1])`,
`ValueError` -> the line unchanged.  (`pieces == []` is an IndexError in Python; it cannot happen after the
`is_clustal_seq_line` filter and yields the line here.) -/
def deleteTrailingNumber (line : Str) : Str :=
  let pieces := splitWs line
  match pieces.getLast? with
  | none => line
  | some t => if pyIntOk t then joinSp pieces.dropLast else line

/-- `last_space = DelimitedSplitter(None, -1)` (parse/record.py l.83-103): split on white space, join all fields but
the last with one blank, strip every piece -/
def lastSpace (line : Str) : List Str :=
  let fields := splitWs line
  match fields.getLast? with
  | none => []                                   -- `fields == []`: return []
  | some lastField =>
    let first := fields.dropLast
    ((if first.isEmpty then [] else [joinSp first]) ++ [lastField]).map strip

/-- `result[key].append(val)` / `result[key] = [val]; labels.append(key)`: a dict in insertion order -/
def assocAppend (k v : Str) : List (Str × List Str) → List (Str × List Str)
  | [] => [(k, [v])]
  | (k', vs) :: rest => if k' = k then (k', vs ++ [v]) :: rest else (k', vs) :: assocAppend k v rest

/-- the loop of `LabelLineParser(record, splitter, strict)`: `key, val = splitter(line.rstrip())`; anything but
exactly two pieces is a `RecordError` when strict, a skipped line otherwise -/
def labelLineGo (strict : Bool) : List (Str × List Str) → List Str → Except Err (List (Str × List Str))
  | acc, [] => .ok acc
  | acc, line :: rest =>
    match lastSpace (rstrip line) with
    | [k, v] => labelLineGo strict (assocAppend k v acc) rest
    | _ => if strict then .error .recordError else labelLineGo strict acc rest

/-- `MinimalClustalParser(record, strict)`: filter, delete trailing numbers, group by label -/
def minimalClustalParser (strict : Bool) (lines : List Str) : Except Err (List (Str × List Str)) :=
  labelLineGo strict [] ((lines.filter isSeqLine).map deleteTrailingNumber)

/-- `ClustalParser(record, strict)`: `for l in labels: yield l, "".join(seqs[l])` -/
def clustalParser (strict : Bool) (lines : List Str) : Except Err (List Rec) :=
  (minimalClustalParser strict lines).map (fun acc => acc.map (fun e => (e.1, e.2.flatten)))

/-- the registry's `LineBasedParser(ClustalParser)` on the text of a file read at once -/
def clustalParse (text : Str) : Except Err (List Rec) := clustalParser true (CogentModel.Splitlines.pySplitlines text)

/-! ### writer -/

/-- `f"{x}{' ' * (max_spaces - len(x))}"` (`' ' * n` is empty for `n ≤ 0`) -/
def padTo (w : Nat) (x : Str) : Str := x ++ List.replicate (w - x.length) ' '

/-- `max(label_lengths)` -/
def labelMax (recs : List Rec) : Nat := (recs.map (fun r => r.1.length)).foldl max 0

/-- one block: a line per sequence (`order` = the record order), then `clustal_list.append("")`;
`c` is the slice written: `y[curr_ix:curr_ix + wrap]` or `y` -/
def block (ms : Nat) (recs : List Rec) (c : Rec → Str) : List Str :=
  recs.map (fun r => padTo ms r.1 ++ c r) ++ [[]]

/-- `while curr_ix < aln_len: ...; curr_ix += wrap` (`wrap = 0` does not terminate in Python: not a legal call,
no blocks here) -/
def blocks (ms w L : Nat) (recs : List Rec) : Nat → Nat → List Str
  | 0, _ => []
  | fuel + 1, i =>
    if i < L ∧ 0 < w then block ms recs (fun r => (r.2.drop i).take w) ++ blocks ms w L recs fuel (i + w) else []

/-- `clustal_from_alignment(aln, wrap)` for a dict given as the list of its items in output order (the code sorts the
keys of a dict).  `if not aln: return ""`; ragged -> `ValueError`; `"\n".join(["CLUSTAL\n"] + lines)` -/
def clustalFormat (wrap : Option Nat) (recs : List Rec) : Except Err Str :=
  match recs with
  | [] => .ok []
  | r0 :: _ =>
    if recs.any (fun r => r.2.length != r0.2.length) then .error .valueError
    else
      let L := r0.2.length
      let ms := labelMax recs + 4
      let body := match wrap with
        | none => block ms recs (fun r => r.2)
        | some w => blocks ms w L recs (L + 1) 0
      .ok (joinNl ("CLUSTAL\n".toList :: body))

end CogentModel.Clustal
