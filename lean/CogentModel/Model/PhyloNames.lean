/-
  C09 — the naming algorithm of `core/tree.py::TreeBuilder` (`_unique_name`, `create_edge`) and of
  `cogent3.make_tree` (an unnamed root is renamed "root" afterwards), on label lists.

  Labels are given in CREATION order (children before parents = post-order, the root last).
  `none` = the node has no label (name=None: `name_loaded=False`), `some ""` = an empty quoted label.
-/
namespace CogentModel.Phylo

/-- `TreeBuilder._used_names` : name -> counter (a Python dict; assoc list, first hit wins) -/
abbrev Used := List (String × Int)

def usedGet (u : Used) (k : String) : Option Int :=
  match u with
  | [] => none
  | (k', v) :: u' => if k' = k then some v else usedGet u' k

def usedSet (u : Used) (k : String) (v : Int) : Used :=
  match u with
  | [] => [(k, v)]
  | (k', v') :: u' => if k' = k then (k', v) :: u' else (k', v') :: usedSet u' k v

def usedKeys (u : Used) : List String := u.map (·.1)

/-- the recursive part of `_unique_name` (after `if not name: name = "edge"`); `fuel` bounds the
recursion depth (the real recursion always ends: every call makes the name longer) -/
def uniqueNameFuel : Nat → Used → String → Used × String
  | 0, u, name => (u, name)
  | fuel + 1, u, name =>
    match usedGet u name with
    | some c => uniqueNameFuel fuel (usedSet u name (c + 1)) (name ++ "." ++ toString (c + 1))
    | none => (usedSet u name 1, name)

def uniqueName (u : Used) (label : Option String) : Used × String :=
  let name := match label with
    | none => "edge"
    | some s => if s = "" then "edge" else s
  uniqueNameFuel (u.length + 1) u name

/-- names given by one `TreeBuilder` to the labels of the nodes in creation order -/
def assignFrom : Used → List (Option String) → List String
  | _, [] => []
  | u, l :: ls => let r := uniqueName u l; r.2 :: assignFrom r.1 ls

/-- `TreeBuilder.__init__`: `self._used_names = {"edge": -1}` -/
def assignNames (labels : List (Option String)) : List String := assignFrom [("edge", -1)] labels

/-- `make_tree`: `if not tree.name_loaded: tree.name = "root"` (the root is created last) -/
def makeTreeNames (labels : List (Option String)) : List String :=
  let ns := assignNames labels
  if labels.getLast? = some none then ns.dropLast ++ ["root"] else ns

end CogentModel.Phylo
