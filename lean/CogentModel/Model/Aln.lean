import CogentModel.Model.IndelMap
import CogentModel.Spec.PySlice
/-
  Hand-written mirror of `cogent3/core/alignment.py::Aligned` (one alignment row =
  `IndelMap` + ungapped `Sequence`) and of the collection-level operations built on it, and of
  the dense `ArrayAlignment` rows.  The `Sequence` under a row is modelled by the string it
  displays (that a sequence view displays the sliced / complemented string is property C01).
  Import-free, executable.
-/
namespace CogentModel.Aln
open CogentModel.IndelMap

/-- one row of `Alignment`: `Aligned(map, data)` -/
structure Row where
  map : IMap
  data : List Char
  deriving DecidableEq, Repr, Inhabited

abbrev AlnA := List (String × Row)
/-- rows of `ArrayAlignment` (dense) -/
abbrev AlnD := List (String × List Char)

def isGap (c : Char) : Bool := c == '-'

/-- `Alignment._seq_to_aligned`: `make_seq(s).parse_out_gaps()` -/
def rowOfString (s : List Char) : Row := ⟨fromGapped (s.map isGap), s.filter (! isGap ·)⟩

/-- `str(aligned)` = `data.gapped_by_map(map)`: every span shows `data[start:end]` (clamped like any
slice), every lost span shows gaps -/
def showCol (data : List Char) : Option Nat → Option Char
  | none => some '-'
  | some i => data[i]?

def gapped (r : Row) : List Char := (absSpans r.map).filterMap (showCol r.data)

def pyIdx (a : Option Int) : Option Int := a

/-- `Aligned.__getitem__(slice(a, b))` -/
def rowSlice (r : Row) (a b : Option Int) : Except Err Row :=
  match getitem r.map a b none with
  | .error e => .error e
  | .ok nm =>
    let a' := match a with | none => 0 | some x => x                -- `span.start or 0`
    let b' := match b with | none => len r.map | some x => if x = 0 then len r.map else x   -- `span.stop or len(self)`
    match getSeqIndex r.map a', getSeqIndex r.map b' with
    | .error e, _ => .error e
    | _, .error e => .error e
    | .ok s, .ok e =>
      if nm.parentLength ≠ 0 ∧ s > e then .error .runtimeError   -- `IndelMap(locations=…)` is a TypeError
      else .ok ⟨nm, if nm.parentLength ≠ 0 then PySlice.slice r.data (some s) (some e) 1 else []⟩

/-- `Aligned.__getitem__(int)`: python index semantics, then `self[i : i + 1]` -/
def rowInt (r : Row) (i : Int) : Except Err Row :=
  let i := if i < 0 then i + len r.map else i
  if 0 ≤ i ∧ i < len r.map then rowSlice r (some i) (some (i + 1)) else .error .indexError

/-- IUPAC complement (`dna = true`: A↔T, else A↔U) -/
def comp (dna : Bool) (c : Char) : Char :=
  match c with
  | 'A' => if dna then 'T' else 'U'
  | 'T' => 'A' | 'U' => 'A' | 'C' => 'G' | 'G' => 'C'
  | 'R' => 'Y' | 'Y' => 'R' | 'K' => 'M' | 'M' => 'K'
  | 'B' => 'V' | 'V' => 'B' | 'D' => 'H' | 'H' => 'D'
  | c => c

/-- `Aligned.rc()` -/
def rowRc (dna : Bool) (r : Row) : Except Err Row :=
  match nucleicReversed r.map with
  | .error e => .error e
  | .ok m => .ok ⟨m, (r.data.reverse).map (comp dna)⟩

/-- `Aligned.__add__`: concatenate the gapped strings and re-parse -/
def rowAddOther (r o : Row) : Row := rowOfString (gapped r ++ gapped o)

/-- `Aligned.__getitem__(FeatureMap)` for a feature map made of the real spans `locs` (non-empty,
as `filtered()` / `gapped_by_map` build it) -/
def rowKeep (r : Row) (locs : List (Int × Int)) : Except Err Row :=
  match locs with
  | [] => .error .valueError
  | [(s, e)] =>
    match getitem r.map (some s) (some e) none, getSeqIndex r.map s, getSeqIndex r.map e with
    | .ok im, .ok ss, .ok se => .ok ⟨im, PySlice.slice r.data (some ss) (some se) 1⟩
    | .error er, _, _ => .error er
    | _, .error er, _ => .error er
    | _, _, .error er => .error er
  | _ =>
    match joinedSegments r.map locs with
    | .error er => .error er
    | .ok im =>
      let rec segs : List (Int × Int) → Except Err (List Char)
        | [] => .ok []
        | (s, e) :: rest =>
          match getSeqIndex r.map s, getSeqIndex r.map e, segs rest with
          | .ok ss, .ok se, .ok tl => .ok (PySlice.slice r.data (some ss) (some se) 1 ++ tl)
          | .error er, _, _ => .error er
          | _, .error er, _ => .error er
          | _, _, .error er => .error er
      match segs locs with
      | .error er => .error er
      | .ok d => .ok ⟨im, d⟩

def mapRows (f : Row → Except Err Row) : AlnA → Except Err AlnA
  | [] => .ok []
  | (n, r) :: rest =>
    match f r, mapRows f rest with
    | .ok r', .ok rest' => .ok ((n, r') :: rest')
    | .error e, _ => .error e
    | _, .error e => .error e

/-- `take_positions(cols)` (negate = False): each row is rebuilt from the 1-column rows `seq[i]` -/
def rowTakePositions (r : Row) (cols : List Int) : Except Err Row :=
  let rec go : List Int → Except Err (List Char)
    | [] => .ok []
    | i :: rest =>
      match rowInt r i, go rest with
      | .ok x, .ok tl => .ok (gapped x ++ tl)
      | .error e, _ => .error e
      | _, .error e => .error e
  match go cols with
  | .error e => .error e
  | .ok s => .ok (rowOfString s)

/-- `take_positions(cols, negate=True)`: every column `i in range(len(seq))` not in `cols` -/
def rowTakePositionsNeg (r : Row) (cols : List Int) : Except Err Row :=
  let keep := ((List.range (len r.map).toNat).map fun (i : Nat) => (i : Int)).filter fun i => !cols.contains i
  rowTakePositions r keep

/-- `take_seqs(names, negate)` -/
def takeSeqs {α} (a : List (String × α)) (names : List String) (negate : Bool) : List (String × α) :=
  if negate then a.filter fun p => !names.contains p.1
  else names.filterMap fun n => (a.find? (·.1 = n)).map fun p => (n, p.2)

def toRna (c : Char) : Char := if c = 'T' then 'U' else c
def toDna (c : Char) : Char := if c = 'U' then 'T' else c

/-! dense rows (`ArrayAlignment`): plain positional operations -/

def denseTake (s : List Char) (cols : List Int) : Except Err (List Char) :=
  cols.foldr (fun i acc => match PySlice.index s i, acc with
    | some c, .ok tl => .ok (c :: tl)
    | none, _ => .error .indexError
    | _, .error e => .error e) (.ok [])

def mapDense (f : List Char → Except Err (List Char)) : AlnD → Except Err AlnD
  | [] => .ok []
  | (n, r) :: rest =>
    match f r, mapDense f rest with
    | .ok r', .ok rest' => .ok ((n, r') :: rest')
    | .error e, _ => .error e
    | _, .error e => .error e

/-- dense `take_positions(cols, negate=True)` -/
def denseTakeNeg (s : List Char) (cols : List Int) : List Char :=
  (s.zipIdx.filter fun p => !cols.contains (p.2 : Int)).map (·.1)

/-- columns of a gapped string that do not hold a gap (`get_degapped_relative_to`) -/
def nonGapCols (s : List Char) : List Int :=
  (s.zipIdx.filter fun p => !isGap p.1).map fun p => (p.2 : Int)

/-- `sample`: `make_seq("".join(str(seq[loc*ml : (loc+1)*ml]) for loc in locations))` on one row -/
def rowSample (r : Row) (ml : Int) : List Int → Except Err (List Char)
  | [] => .ok []
  | loc :: rest =>
    match rowSlice r (some (loc * ml)) (some ((loc + 1) * ml)), rowSample r ml rest with
    | .ok x, .ok tl => .ok (gapped x ++ tl)
    | .error e, _ => .error e
    | _, .error e => .error e

/-- the same on a plain string -/
def denseSample (s : List Char) (ml : Int) : List Int → List Char
  | [] => []
  | loc :: rest => PySlice.slice s (some (loc * ml)) (some ((loc + 1) * ml)) 1 ++ denseSample s ml rest

/-- the kept blocks joined, on a plain string -/
def denseKeep (s : List Char) (locs : List (Int × Int)) : List Char :=
  locs.flatMap fun c => PySlice.slice s (some c.1) (some c.2) 1

/-- `Alignment.filtered`: the run-length blocks `[(gv[0], gv[1]), (gv[2], gv[3]), …]` of the columns
for which the predicate holds (`mask`), scanning with the `kept` toggle; `start` = first column of
the block being extended -/
def maskRuns (pos : Int) (start : Option Int) : List Bool → List (Int × Int)
  | [] => match start with | some s => [(s, pos)] | none => []
  | true :: r => maskRuns (pos + 1) (some (start.getD pos)) r
  | false :: r => (match start with | some s => [(s, pos)] | none => []) ++ maskRuns (pos + 1) none r

/-- `ArrayAlignment.filtered`: take the columns for which the predicate holds -/
def denseFilter (s : List Char) (mask : List Bool) : List Char :=
  ((s.zip mask).filter (·.2)).map (·.1)

/-! ### operation histories on both classes -/

/-- the operations of a history (on either class) -/
inductive AOp where
  | slice (a b : Option Int) | int (i : Int) | rc | takeSeqs (names : List String) (neg : Bool)
  | takePositions (cols : List Int) (neg : Bool) | toRna | toDna | addSelf | addCopy
  | keep (locs : List (Int × Int))
  | degap (name : String) | sample (locs : List Int) (ml : Int) | reparse
  | filterMask (mask : List Bool)

/-- one operation on the annotatable class (`dna` tracks DNA vs RNA complementing) -/
def stepA (dna : Bool) (a : AlnA) : AOp → Except Err (AlnA × Bool)
  | .slice x y => (mapRows (fun r => rowSlice r x y) a).map (·, dna)
  | .int i => (mapRows (fun r => rowInt r i) a).map (·, dna)
  | .rc => (mapRows (rowRc dna) a).map (·, dna)
  | .takeSeqs ns neg => .ok (takeSeqs a ns neg, dna)
  | .takePositions cols neg =>
    (mapRows (fun r => if neg then rowTakePositionsNeg r cols else rowTakePositions r cols) a).map (·, dna)
  | .toRna => .ok (a.map fun p => (p.1, { p.2 with data := p.2.data.map toRna }), false)
  | .toDna => .ok (a.map fun p => (p.1, { p.2 with data := p.2.data.map toDna }), true)
  | .addSelf => .ok (a.map fun p => (p.1, rowAddOther p.2 p.2), dna)
  | .addCopy => .ok (a.map fun p => (p.1, rowAddOther p.2 (rowOfString (gapped p.2))), dna)
  | .keep locs => (mapRows (fun r => rowKeep r locs) a).map (·, dna)
  -- `get_degapped_relative_to(name)`: `take_positions` of the non-gap columns of that row
  | .degap name =>
    match a.find? (·.1 = name) with
    | none => .error .valueError
    | some p => (mapRows (fun r => rowTakePositions r (nonGapCols (gapped p.2))) a).map (·, dna)
  -- `sample` with given locations and motif length: new rows from the joined row slices
  | .sample locs ml =>
    (mapRows (fun r => (rowSample r ml locs).map rowOfString) a).map (·, dna)
  -- `to_type(array_align=True).to_type(array_align=False)`: rows rebuilt from `to_dict()`
  | .reparse => .ok (a.map fun p => (p.1, rowOfString (gapped p.2)), dna)
  -- `filtered(predicate)` (also `no_degenerates`, `omit_gap_pos`) with the predicate already
  -- evaluated on the columns: run-length FeatureMap of the kept blocks, then `gapped_by_map`;
  -- `None` (here an error) when nothing is kept
  | .filterMask mask =>
    match maskRuns 0 none mask with
    | [] => .error .notImplemented
    | locs => (mapRows (fun r => rowKeep r locs) a).map (·, dna)

/-- the same operation on the dense class = on the plain gapped strings (`none`: not modelled) -/
def stepD (dna : Bool) (a : AlnD) : AOp → Option (Except Err (AlnD × Bool))
  | .slice x y => some (.ok (a.map fun p => (p.1, PySlice.slice p.2 x y 1), dna))
  | .int i => some ((mapDense (fun s => denseTake s [i]) a).map (·, dna))
  | .rc => some (.ok (a.map fun p => (p.1, p.2.reverse.map (comp dna)), dna))
  | .takeSeqs ns neg => some (.ok (takeSeqs a ns neg, dna))
  | .takePositions cols neg =>
    some ((mapDense (fun s => if neg then .ok (denseTakeNeg s cols) else denseTake s cols) a).map (·, dna))
  | .toRna => some (.ok (a.map fun p => (p.1, p.2.map toRna), false))
  | .toDna => some (.ok (a.map fun p => (p.1, p.2.map toDna), true))
  | .addSelf => some (.ok (a.map fun p => (p.1, p.2 ++ p.2), dna))
  | .addCopy => some (.ok (a.map fun p => (p.1, p.2 ++ p.2), dna))
  | .keep locs => some (.ok (a.map fun p => (p.1, denseKeep p.2 locs), dna))
  | .degap name =>
    match a.find? (·.1 = name) with
    | none => some (.error .valueError)
    | some p => some ((mapDense (fun s => denseTake s (nonGapCols p.2)) a).map (·, dna))
  | .sample locs ml => some (.ok (a.map fun p => (p.1, denseSample p.2 ml locs), dna))
  | .reparse => some (.ok (a, dna))
  | .filterMask mask =>
    if mask.all (! ·) then some (.error .notImplemented)
    else some (.ok (a.map fun p => (p.1, denseFilter p.2 mask), dna))

/-- a whole history on the annotatable class -/
def runA (dna : Bool) (a : AlnA) : List AOp → Except Err (AlnA × Bool)
  | [] => .ok (a, dna)
  | op :: ops => match stepA dna a op with
    | .ok (a', dna') => runA dna' a' ops
    | .error e => .error e

/-- the same history on the plain gapped strings -/
def runD (dna : Bool) (d : AlnD) : List AOp → Option (Except Err (AlnD × Bool))
  | [] => some (.ok (d, dna))
  | op :: ops => match stepD dna d op with
    | some (.ok (d', dna')) => runD dna' d' ops
    | some (.error e) => some (.error e)
    | none => none

end CogentModel.Aln
