/-
  Hand-written mirror of the remaining pure span algebra of `cogent3/core/location.py` that `Model/FMap.lean` does not
  carry: `Span.__contains__` / `overlaps` / `starts_*` / `ends_*`, `Span.__mul__` / `__truediv__` /
  `reversed_relative_to`, `Span[int]`, the `_LostSpan` counterparts, and `FeatureMap.__add__` / `__mul__` /
  `__truediv__` / `without_gaps` / `get_coordinates` / `start` / `end` / `get_covering_span`.
  Import-free (only `Model/FMap.lean`), executable.  `Props/C08Gen.lean` proves the definitions that
  `translator/c08_span2lean.py` generates from the python source equal to these for all arguments.
-/
import CogentModel.Model.FMap
namespace CogentModel.FMap

/-! ### predicates of `Span` / `SpanI` (the `other` argument is a number or a span) -/

/-- `x in Span(s, e)` -/
def containsInt (s e x : Int) : Bool := decide (s ≤ x ∧ x < e)

/-- `Span(os, oe) in Span(s, e)` -/
def containsSpan (s e os oe : Int) : Bool := decide (s ≤ os ∧ oe ≤ e)

/-- `Span(s, e).overlaps(Span(os, oe))` : `(self.start in other) or (other.start in self)` -/
def overlapsSpan (s e os oe : Int) : Bool := containsInt os oe s || containsInt s e os

/-! ### scaling and mirroring of one span -/

/-- `span * k` (`Span.__mul__` re-normalises through the constructor, `_LostSpan.__mul__`) -/
def FSp.mul : FSp → Int → FSp
  | .span s e r, k => mkSpan (s * k) (e * k) r
  | .lost n, k => .lost (n * k)

/-- `span / k`: `Span.__truediv__` asserts `not start % k or end % k`; `_LostSpan.__truediv__` asserts `length % 3 == 0`
(a literal 3 in the source, whatever the scale is) -/
def FSp.truediv : FSp → Int → Except FErr FSp
  | .span s e r, k =>
    if Int.fmod s k = 0 ∨ Int.fmod e k ≠ 0 then .ok (mkSpan (Int.fdiv s k) (Int.fdiv e k) r) else .error .assertionError
  | .lost n, k => if Int.fmod n 3 = 0 then .ok (.lost (Int.fdiv n k)) else .error .assertionError

/-- `span.reversed_relative_to(length)`: the span as seen from the other end of a parent of that length, read on the
other strand -/
def FSp.reversedRelativeTo : FSp → Int → Except FErr FSp
  | .span s e r, L =>
    if L - e ≥ 0 then .ok (mkSpan (L - e) (L - e + (e - s)) (!r)) else .error .assertionError
  | .lost n, _ => .ok (.lost n)

/-- `span[i]` for an int: `_norm_slice(int)` raises IndexError for `i ≥ len`; an index below `-len` is NOT refused -/
def spanAt (sp : FSp) (i : Int) : Except FErr FSp :=
  let L := sp.length
  let st := if i < 0 then i + L else i
  if st ≥ L then .error .indexError else
  match sp with
  | .lost _ => .ok (.lost 1)
  | .span s e rev => if rev then .ok (mkSpan (e - (st + 1)) (e - st) true) else .ok (mkSpan (s + st) (s + (st + 1)) false)

/-! ### `FeatureMap` -/

/-- first-error-wins map over the spans -/
def mapSpans (f : FSp → Except FErr FSp) : List FSp → Except FErr (List FSp)
  | [] => .ok []
  | x :: xs =>
    match f x with
    | .error e => .error e
    | .ok y =>
      match mapSpans f xs with
      | .error e => .error e
      | .ok ys => .ok (y :: ys)

/-- `FeatureMap.__mul__` -/
def fmMul (m : FM) (k : Int) : FM := ⟨m.spans.map (·.mul k), m.parentLength * k⟩

/-- `FeatureMap.__truediv__` -/
def fmTruediv (m : FM) (k : Int) : Except FErr FM :=
  match mapSpans (·.truediv k) m.spans with
  | .error e => .error e
  | .ok sp => .ok ⟨sp, Int.fdiv m.parentLength k⟩

/-- `FeatureMap.__add__` -/
def fmAdd (a b : FM) : Except FErr FM :=
  if b.parentLength ≠ a.parentLength then .error .valueError else .ok ⟨a.spans ++ b.spans, a.parentLength⟩

/-- `FeatureMap.without_gaps` -/
def withoutGaps (m : FM) : FM := ⟨m.spans.filter (fun s => !s.isLost), m.parentLength⟩

/-- `FeatureMap.get_coordinates` -/
def getCoordinates (m : FM) : List (Int × Int) :=
  m.spans.filterMap fun
    | .span s e _ => some (s, e)
    | .lost _ => none

/-- `FeatureMap.start` : `self._start or 0` -/
def fmStart (m : FM) : Int := match startEnd m with | none => 0 | some (a, _) => a

/-- `FeatureMap.end` : `self._end or 0` -/
def fmEnd (m : FM) : Int := match startEnd m with | none => 0 | some (_, b) => b

/-- `FeatureMap.get_covering_span` -/
def coveringSpan (m : FM) : Except FErr FM := fromLocations [(fmStart m, fmEnd m)] m.parentLength

end CogentModel.FMap
