/-
  C18 — model of the conversion "score matrix + gap costs → pair HMM" that `classic_align_pairwise` performs
  (align/align.py l.72-84 as of 9627cb7d1, align/indel_model.py `classic_gap_scores` / `pair_transition_matrix`,
  maths/markov.py `TransitionMatrix.StationaryProbs`, align/pairwise.py `adapt_pair_tm` and
  `PairEmissionProbs.make_partial_likelihoods` / `_makeEmissionProbs` with `use_cost_function=True`).

  Everything here happens in *probability space* over a field `P` (executed at `Rat`); the transcendental steps are
  inputs: `ed = exp(-d)`, `ee = exp(-e)`, `es a b = exp(Sd[a, b])` (a = motif of s1, b = motif of s2).  The code then
  takes `numpy.log` of the results; `logHMM` does that with an abstract `lg : P → Option S`.

  State order as in `pair_transition_matrix("XYM", …)`: X = 1 (gap in s2), Y = 2 (gap in s1), M = 3.
  Import-free.
-/
import CogentModel.Model.PairHMM
namespace CogentModel.ClassicHMM

variable {P : Type} [Add P] [Mul P] [Div P] [OfNat P 0] [OfNat P 1]

/-- a 3×3 matrix over the states X, Y, M (row = from, column = to) -/
structure M3 (P : Type) where
  xx : P
  xy : P
  xm : P
  yx : P
  yy : P
  ym : P
  mx : P
  my : P
  mm : P

/-- `numpy.exp(-C)` for `C = [[e, inf, 0], [inf, e, 0], [d, d, 0]]` (rows/cols X, Y, M) -/
def expNegC (ed ee : P) : M3 P := ⟨ee, 0, 1, 0, ee, 1, ed, ed, 1⟩

/-- `T / numpy.sum(T, axis=1)[..., newaxis]` -/
def normalise (A : M3 P) : M3 P :=
  ⟨A.xx / (A.xx + A.xy + A.xm), A.xy / (A.xx + A.xy + A.xm), A.xm / (A.xx + A.xy + A.xm),
   A.yx / (A.yx + A.yy + A.ym), A.yy / (A.yx + A.yy + A.ym), A.ym / (A.yx + A.yy + A.ym),
   A.mx / (A.mx + A.my + A.mm), A.my / (A.mx + A.my + A.mm), A.mm / (A.mx + A.my + A.mm)⟩

/-- `classic_gap_scores(d, e)` as a transition matrix over X, Y, M -/
def gapT (ed ee : P) : M3 P := normalise (expNegC ed ee)

/-- `numpy.dot(A, B)` -/
def mul3 (A B : M3 P) : M3 P :=
  ⟨A.xx * B.xx + A.xy * B.yx + A.xm * B.mx, A.xx * B.xy + A.xy * B.yy + A.xm * B.my, A.xx * B.xm + A.xy * B.ym + A.xm * B.mm,
   A.yx * B.xx + A.yy * B.yx + A.ym * B.mx, A.yx * B.xy + A.yy * B.yy + A.ym * B.my, A.yx * B.xm + A.yy * B.ym + A.ym * B.mm,
   A.mx * B.xx + A.my * B.yx + A.mm * B.mx, A.mx * B.xy + A.my * B.yy + A.mm * B.my, A.mx * B.xm + A.my * B.ym + A.mm * B.mm⟩

/-- `for _ in range(k): matrix = numpy.dot(matrix, matrix)` -/
def sqN : Nat → M3 P → M3 P
  | 0, A => A
  | k + 1, A => sqN k (mul3 A A)

def M3.get (A : M3 P) (i j : Nat) : P :=
  match i, j with
  | 0, 0 => A.xx | 0, 1 => A.xy | 0, 2 => A.xm
  | 1, 0 => A.yx | 1, 1 => A.yy | 1, 2 => A.ym
  | 2, 0 => A.mx | 2, 1 => A.my | 2, 2 => A.mm
  | _, _ => 0

/-- `TransitionMatrix._getStationaryProbs`: row 0 of `T^(2^10)` -/
def stationary (A : M3 P) (j : Nat) : P := (sqN 10 A).get 0 j

/-- `adapt_pair_tm(pairTM, finite=False)`: the 5×5 matrix with BEGIN (0) and END (4) -/
def fullMatrix (A : M3 P) (i j : Nat) : P :=
  if j = 4 then (if i ≤ 4 then 1 else 0)
  else if j = 0 then 0
  else if i = 0 then stationary A (j - 1)
  else if i ≤ 3 then A.get (i - 1) (j - 1)
  else 0

/-- sum over `j < n` -/
def sumTo (f : Nat → P) : Nat → P
  | 0 => 0
  | n + 1 => sumTo f n + f n

variable [NatCast P]

/-- `match_scores[x, y]` for two unambiguous motifs `a` (of s1), `b` (of s2) of an alphabet of `n` motifs, as
`make_partial_likelihoods`/`_makeEmissionProbs` compute it with `use_cost_function=True`:
`plh1 = inner(onehot_a, psub) / gap1`, `plh2 = inner(onehot_b, I) / gap2`, `gap = inner(onehot, mprobs)`,
`match = inner(plh1 * mprobs, plh2)`, with `mprobs = 1/n` and `psub[j, a] = es a j` -/
def matchProb (n : Nat) (es : Nat → Nat → P) (a b : Nat) : P :=
  let mp : P := 1 / (n : P)
  let gap1 : P := sumTo (fun k => (if k = a then 1 else 0) * mp) n
  let gap2 : P := sumTo (fun k => (if k = b then 1 else 0) * mp) n
  sumTo (fun j => (es a j / gap1 * mp) * ((if j = b then 1 else 0) / gap2)) n

/-- gap emissions after the cost-function normalisation: `gap_plh[:] = 1.0` -/
def gapProb : P := 1

/-! ### log space -/

open CogentModel.PairHMM in
/-- the pair HMM the kernel receives: `numpy.log` (`lg`) of the matrices above.  `x i`, `y j` are the motif indices
of the `i`-th / `j`-th residue (1-based) of the two sequences. -/
def logHMM {S : Type} (lg : P → Option S) (n : Nat) (ed ee : P) (es : Nat → Nat → P) (x y : Nat → Nat) : HMM S where
  dirs := [(true, false), (false, true), (true, true)]
  T := fun a b => lg (fullMatrix (gapT ed ee) a b)
  em := fun s i j => if s = 3 then lg (matchProb n es (x i) (y j)) else lg gapProb

end CogentModel.ClassicHMM
