import CogentModel.Model.PhyloTree
/-
  C09 — model of the split-based tree-to-tree distances
  (`TreeNode.subsets`, `phylo/tree_distance.py`: rooted_robinson_foulds,
  unrooted_robinson_foulds, `_compute_splits`, and the `tree_distance(method="rf")` dispatch).

  A Python `frozenset` of names is a `List String` compared with `seteq`; a set of such sets
  is a list without `seteq`-duplicates (`dedupSets`).  The matching distances
  (lin_rajan_moret, matching_cluster) call scipy's `linear_sum_assignment`; they are
  exercised on the implementation against a brute-force optimum, not modelled.
-/
namespace CogentModel.Phylo
open PTree
variable {K : Type}

def subsetB (a b : List String) : Bool := a.all fun x => b.contains x
def seteq (a b : List String) : Bool := subsetB a b && subsetB b a
def memSet (x : List String) (S : List (List String)) : Bool := S.any (seteq x)

def dedupSets : List (List String) → List (List String)
  | [] => []
  | x :: xs => if memSet x xs then dedupSets xs else x :: dedupSets xs

def dedupStr : List String → List String
  | [] => []
  | x :: xs => if xs.contains x then dedupStr xs else x :: dedupStr xs

/-- `len(A.symmetric_difference(B))` for duplicate-free `A`, `B` -/
def symDiffCount (S₁ S₂ : List (List String)) : Nat :=
  (S₁.filter fun x => !memSet x S₂).length + (S₂.filter fun x => !memSet x S₁).length

/- `subsets()`: post-order over proper descendants; a tip contributes nothing, an internal
   node contributes its leaf set when that has more than one element -/
mutual
def clusters : PTree K → List (List String)
  | .node _ _ cs => clustersL cs
def clustersL : List (PTree K) → List (List String)
  | [] => []
  | c :: cs =>
    (clusters c ++
      (if c.children.isEmpty then [] else if 1 < (dedupStr (tips c)).length then [tips c] else []))
    ++ clustersL cs
end

def rootedRF (t₁ t₂ : PTree K) : Except TErr Nat :=
  if !seteq (tips t₁) (tips t₂) then .error .valueError
  else if t₁.children.length != 2 || t₂.children.length != 2 then .error .valueError
  else .ok (symDiffCount (dedupSets (clusters t₁)) (dedupSets (clusters t₂)))

/-- `_compute_splits`: the side containing the reference tip -/
def normSplit (ref : String) (names c : List String) : List String :=
  if c.contains ref then c else names.filter fun x => !c.contains x

def unrootedRF (t₁ t₂ : PTree K) : Except TErr Nat :=
  let names := tips t₁
  if !seteq names (tips t₂) then .error .valueError
  else if t₁.children.length == 2 || t₂.children.length == 2 then .error .valueError
  else
    match names with
    | [] => .error .valueError        -- names[0] on an empty list (IndexError; unreachable for trees with tips)
    | ref :: _ =>
      .ok (symDiffCount (dedupSets ((clusters t₁).map (normSplit ref names)))
                        (dedupSets ((clusters t₂).map (normSplit ref names))))

/-- `tree.tree_distance(other, method="rf")` -/
def treeDistanceRF (t₁ t₂ : PTree K) : Except TErr Nat :=
  let rooted := t₁.children.length == 2
  if (rooted && t₂.children.length != 2) || (!rooted && t₂.children.length == 2) then .error .valueError
  else if rooted then rootedRF t₁ t₂ else unrootedRF t₁ t₂

end CogentModel.Phylo
