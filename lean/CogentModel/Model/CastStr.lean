/-
  C20 — type inference of a delimited column on load (`cast_str_to_array` / `cast_str_to_numeric` in
  util/table.py): `values.astype(int)`, else `values.astype(float)`, else text.  (`complex` and the
  `eval()` pass over text columns — the open finding C20-load-eval-changes-text — are not modelled.)

  Strings are `List Char`.  Import-free.
-/
namespace CogentModel.CastStr

abbrev Str := List Char

def isSpace (c : Char) : Bool := c == ' ' || c == '\t' || c == '\n' || c == '\r' || c == '\x0b' || c == '\x0c'

/-- `str.strip()` -/
def strip (s : Str) : Str := ((s.dropWhile isSpace).reverse.dropWhile isSpace).reverse

def charDigit (c : Char) : Option Nat :=
  if '0' ≤ c ∧ c ≤ '9' then some (c.toNat - 48) else none

def digitChar (d : Nat) : Char := Char.ofNat (48 + d)

/-- decimal digits with single underscores between digits (python's integer literal grammar) -/
def parseBody : Str → Nat → Bool → Option Nat
  | [], acc, prev => if prev then some acc else none
  | c :: cs, acc, prev =>
    match charDigit c with
    | some d => parseBody cs (acc * 10 + d) true
    | none => if c = '_' ∧ prev then parseBody cs acc false else none

/-- `int(text)`: surrounding blanks, an optional sign, digits -/
def parseInt (s : Str) : Option Int :=
  match strip s with
  | '-' :: ds => (parseBody ds 0 false).map fun n => -(n : Int)
  | '+' :: ds => (parseBody ds 0 false).map fun n => (n : Int)
  | ds => (parseBody ds 0 false).map fun n => (n : Int)

/-- most significant digit first -/
def natDigits (n : Nat) : List Nat :=
  if h : n < 10 then [n] else natDigits (n / 10) ++ [n % 10]
decreasing_by omega

/-- `str(n)` -/
def showNat (n : Nat) : Str := (natDigits n).map digitChar

def showInt (z : Int) : Str := if z < 0 then '-' :: showNat z.natAbs else showNat z.natAbs

/-- the loaded column -/
inductive Column (F : Type) where
  | ints (l : List Int)
  | floats (l : List F)
  | text (l : List Str)
  deriving Repr

/-- `cast_str_to_array` on the cells of one column: all cells parse as int → ints; else all as float →
floats; else the text is kept.  A column without rows stays as it is. -/
def castColumn {F : Type} (parseFloat : Str → Option F) (cells : List Str) : Column F :=
  if cells = [] then .text []
  else match cells.mapM parseInt with
    | some ns => .ints ns
    | none =>
      match cells.mapM parseFloat with
      | some fs => .floats fs
      | none => .text cells

/-! a recogniser of python's `float(text)` grammar, for the driver (the *value* of a float is never computed
in the model: float64 parsing / repr is trusted) -/

def allDigitsUnderscore (s : Str) : Bool := (parseBody s 0 false).isSome

def isDecimal (s : Str) : Bool :=
  -- digits [ "." [digits] ] | "." digits
  match s.span (· != '.') with
  | (ip, []) => allDigitsUnderscore ip
  | (ip, _ :: fp) =>
    (ip = [] ∧ allDigitsUnderscore fp) ∨ (allDigitsUnderscore ip ∧ (fp = [] ∨ allDigitsUnderscore fp))

def lower (s : Str) : Str := s.map Char.toLower

def isFloatText (s : Str) : Bool :=
  let t := lower (strip s)
  let t := match t with
    | '-' :: r => r
    | '+' :: r => r
    | r => r
  if t = "inf".toList ∨ t = "infinity".toList ∨ t = "nan".toList then true
  else match t.span (· != 'e') with
    | (m, []) => isDecimal m
    | (m, _ :: ex) =>
      let ex := match ex with
        | '-' :: r => r
        | '+' :: r => r
        | r => r
      isDecimal m && allDigitsUnderscore ex

end CogentModel.CastStr
