/-
  Hand-written mirror of `cogent3/core/location.py::IndelMap` (and the helper
  functions it uses) with lists for numpy arrays.  Import-free, executable.

  The model follows the *case analysis of the code* (searchsorted + index
  arithmetic, the early returns, the clamp of `stop` to `len` added by the repair 52439bb91), not what a
  gapped string "should" do: that is `Spec/Gapped.lean`.

  numpy `int32` arrays are modelled by `List Int` (no overflow: assumption).
-/
namespace CogentModel.IndelMap

inductive Err where
  | valueError | indexError | notImplemented | assertionError | runtimeError
  deriving DecidableEq, Repr, Inhabited

/-- `IndelMap`: gap insertion points in sequence coordinates, cumulative gap lengths,
length of the ungapped parent. -/
structure IMap where
  gapPos : List Int
  cumLens : List Int
  parentLength : Int
  deriving DecidableEq, Repr, Inhabited

/-! ### numpy / list helpers -/

/-- `xs[i]` for a non-negative index that the code knows to be in range (0 if not) -/
@[inline] def getN (xs : List Int) (i : Nat) : Int := xs.getD i 0

/-- `xs[-1]` (0 on the empty list, which the code never asks for) -/
def lastD : List Int → Int
  | [] => 0
  | [x] => x
  | _ :: y :: r => lastD (y :: r)

/-- `numpy.cumsum` started from `acc` -/
def cumsumFrom (acc : Int) : List Int → List Int
  | [] => []
  | x :: xs => (acc + x) :: cumsumFrom (acc + x) xs

def cumsum (xs : List Int) : List Int := cumsumFrom 0 xs

/-- `get_gap_lengths`: `lengths[0] = cum[0]`, `lengths[1:] = diff(cum)`; generalised by the
previous cumulative value -/
def diffsFrom (prev : Int) : List Int → List Int
  | [] => []
  | c :: cs => (c - prev) :: diffsFrom c cs

def gapLengths (cum : List Int) : List Int := diffsFrom 0 cum

/-- `numpy.searchsorted(xs, v, side="left")` on a sorted list: number of leading elements `< v` -/
def ssLeft : List Int → Int → Nat
  | [], _ => 0
  | x :: xs, v => if x < v then ssLeft xs v + 1 else 0

/-- `numpy.searchsorted(xs, v, side="right")` on a sorted list: number of leading elements `≤ v` -/
def ssRight : List Int → Int → Nat
  | [], _ => 0
  | x :: xs, v => if x ≤ v then ssRight xs v + 1 else 0

/-- `_gap_spans`: gap starts in alignment coordinates, generalised by the previous cumulative
length (`starts[i] = gap_pos[i] + cum[i-1]`) -/
def startsFrom (prev : Int) : List Int → List Int → List Int
  | p :: ps, c :: cs => (p + prev) :: startsFrom c ps cs
  | _, _ => []

def gapStarts (gp cum : List Int) : List Int := startsFrom 0 gp cum

/-- `_gap_spans`: gap ends in alignment coordinates (`gap_pos + cum_gap_lengths`) -/
def gapEnds : List Int → List Int → List Int
  | p :: ps, c :: cs => (p + c) :: gapEnds ps cs
  | _, _ => []

/-- first index of `v` in `xs` -/
def indexOf? (v : Int) : List Int → Option Nat
  | [] => none
  | x :: xs => if x = v then some 0 else (indexOf? v xs).map (· + 1)

/-- insert into a sorted duplicate-free list (`numpy.union1d`, `sorted(dict)`) -/
def insertUniq (v : Int) : List Int → List Int
  | [] => [v]
  | x :: xs => if v < x then v :: x :: xs else if v = x then x :: xs else x :: insertUniq v xs

def sortUniq (xs : List Int) : List Int := xs.foldr insertUniq []

/-- insertion sort of coordinate pairs, lexicographic (`sorted(coords)`) -/
def insertPair (v : Int × Int) : List (Int × Int) → List (Int × Int)
  | [] => [v]
  | x :: xs => if v.1 < x.1 ∨ (v.1 = x.1 ∧ v.2 ≤ x.2) then v :: x :: xs else x :: insertPair v xs

def sortPairs (xs : List (Int × Int)) : List (Int × Int) := xs.foldr insertPair []

/-! ### construction -/

/-- `IndelMap.__post_init__` with `cum_gap_lengths` given -/
def mk (gp cum : List Int) (pl : Int) : Except Err IMap :=
  if gp.length ≠ cum.length then .error .valueError
  else if gp ≠ [] ∧ lastD gp > pl then .error .valueError
  else .ok ⟨gp, cum, pl⟩

/-- `IndelMap(gap_pos=…, gap_lengths=…, parent_length=…)` -/
def mkLengths (gp lengths : List Int) (pl : Int) : Except Err IMap := mk gp (cumsum lengths) pl

def emptyMap (pl : Int) : IMap := ⟨[], [], pl⟩

/-- `re.finditer("[-]+", seq)`: `(match.start(), match.end() - match.start())` of every maximal
gap run; `true` = gap character.  `cur` is the run being extended. -/
def gapRunsAux (pos : Int) (cur : Option (Int × Int)) : List Bool → List (Int × Int)
  | [] => cur.toList
  | true :: r =>
    match cur with
    | none => gapRunsAux (pos + 1) (some (pos, 1)) r
    | some (s, l) => gapRunsAux (pos + 1) (some (s, l + 1)) r
  | false :: r => cur.toList ++ gapRunsAux (pos + 1) none r

def gapRuns (s : List Bool) : List (Int × Int) := gapRunsAux 0 none s

/-- `gap_pos[1:] = gap_pos[1:] - cum_lengths[:-1]` -/
def shiftPos (prev : Int) : List Int → List Int → List Int
  | p :: ps, c :: cs => (p - prev) :: shiftPos c ps cs
  | _, _ => []

/-- `Sequence.parse_out_gaps` (the map part): the `IndelMap` of a gapped string -/
def fromGapped (s : List Bool) : IMap :=
  let runs := gapRuns s
  let cum := cumsum (runs.map (·.2))
  ⟨shiftPos 0 (runs.map (·.1)) cum, cum, ((s.filter (! ·)).length : Int)⟩

/-- flatten()[1:-1] reshaped to pairs (end of segment i, start of segment i+1) -/
def gapPairs : List Int → List (Int × Int)
  | a :: b :: r => (a, b) :: gapPairs r
  | _ => []

/-- `IndelMap.from_aligned_segments(locations, aligned_length)` -/
def fromAlignedSegments (locs : List (Int × Int)) (alignedLength : Int) : Except Err IMap :=
  let full : Bool := match locs with
    | [first] => first.1 = 0 ∧ first.2 = alignedLength
    | _ => false
  if (locs = [] ∧ alignedLength = 0) ∨ full then .ok (emptyMap alignedLength) else
  -- no ungapped segment: the whole row is one gap; otherwise a leading gap needs a (0, 0) sentinel
  let locs := match locs with
    | [] => [(0, 0)]
    | first :: _ => if first.1 ≠ 0 then (0, 0) :: locs else locs
  let lastEnd := match locs.getLast? with | some l => l.2 | none => 0
  let locs := if lastEnd < alignedLength then locs ++ [(alignedLength, alignedLength)] else locs
  let flat := (locs.flatMap fun l => [l.1, l.2]).drop 1 |>.dropLast
  let gc := gapPairs flat
  let gapStarts := gc.map (·.1)
  let lengths := gc.map fun g => g.2 - g.1
  let cum := cumsum lengths
  let gp := shiftPos 0 gapStarts cum
  -- `cum_lens[-1]` on an empty array raises IndexError
  if cum = [] then .error .indexError else
  mk gp cum (alignedLength - lastD cum)

/-- `gap_coords_to_map(gaps_lengths, seq_length)`; the dict arrives as its item list -/
def gapCoordsToMap (items : List (Int × Int)) (seqLength : Int) : Except Err IMap :=
  let items := sortPairs items
  mkLengths (items.map (·.1)) (items.map (·.2)) seqLength

/-! ### observers -/

def numGaps (m : IMap) : Nat := m.gapPos.length

/-- `__len__` -/
def len (m : IMap) : Int :=
  m.parentLength + (if m.gapPos = [] then 0 else lastD m.cumLens)

/-- `get_seq_index` after the negative-index conversion (`0 ≤ ai`) -/
def seqIndexNN (m : IMap) (ai : Int) : Int :=
  if m.gapPos = [] ∨ ai < m.gapPos.headD 0 then ai else
  let starts := gapStarts m.gapPos m.cumLens
  let ends := gapEnds m.gapPos m.cumLens
  if ai ≥ lastD ends then ai - lastD m.cumLens else
  let index := ssLeft ends ai
  if ai < getN starts index then
    ai - (if index = 0 then lastD m.cumLens else getN m.cumLens (index - 1))
  else if ai = getN ends index then ai - getN m.cumLens index
  else getN m.gapPos index

/-- `get_seq_index(align_index)` -/
def getSeqIndex (m : IMap) (ai : Int) : Except Err Int :=
  let ai := if ai < 0 then len m + ai else ai
  if ai < 0 then .error .indexError else .ok (seqIndexNN m ai)

/-- `get_align_index(seq_index, slice_stop)` -/
def getAlignIndex (m : IMap) (si : Int) (sliceStop : Bool) : Except Err Int :=
  let si := if si < 0 then si + m.parentLength else si
  if si < 0 then .error .indexError else
  if m.gapPos = [] ∨ si < m.gapPos.headD 0 then .ok si else
  match (if sliceStop then indexOf? si m.gapPos else none) with
  | some idx =>
    let gapLen := if idx = 0 then getN m.cumLens 0 else getN m.cumLens idx - getN m.cumLens (idx - 1)
    .ok (getN m.gapPos idx + getN m.cumLens idx - gapLen)
  | none =>
    if si ≥ lastD m.gapPos then .ok (si + lastD m.cumLens) else
    let index := ssLeft m.gapPos si
    if si < getN m.gapPos index then .ok (si + (if index = 0 then 0 else getN m.cumLens (index - 1)))
    else .ok (si + getN m.cumLens index)

/-- the `start` case analysis of `__getitem__`: `(begin, shift, lengths)` -/
def sliceBegin (m : IMap) (start : Int) (l : Nat) (starts ends lengths : List Int) : Nat × Int × List Int :=
  if start < m.gapPos.headD 0 then (0, start, lengths)
  else if getN starts l ≤ start ∧ start < getN ends l then
    let beginDiff := start - getN starts l
    (l, (if l ≠ 0 then start - getN m.cumLens (l - 1) - beginDiff else m.gapPos.headD 0),
      lengths.set l (getN lengths l - beginDiff))
  else if start = getN ends l then (l + 1, start - getN m.cumLens l, lengths)
  else (l, (if l ≠ 0 then start - getN m.cumLens (l - 1) else start), lengths)

/-- the `stop` case analysis of `__getitem__`: `(end, lengths)` -/
def sliceEnd (m : IMap) (stop : Int) (r : Nat) (starts ends lengths : List Int) : Nat × List Int :=
  if r = numGaps m then (r, lengths)
  else if getN starts r < stop ∧ stop ≤ getN ends r then
    (r + 1, lengths.set r (getN lengths r - (getN ends r - stop)))
  else (r, lengths)

/-- `__getitem__` once `0 ≤ start < stop` and the map has gaps -/
def getitemGaps (m : IMap) (start stop : Int) : Except Err IMap :=
  let firstGap := m.gapPos.headD 0
  let lastGap := lastD m.gapPos + lastD m.cumLens
  if stop < firstGap ∨ start ≥ lastGap then .ok (emptyMap (stop - start)) else
  let starts := gapStarts m.gapPos m.cumLens
  let ends := gapEnds m.gapPos m.cumLens
  let l := ssLeft ends start
  if getN starts l ≤ start ∧ start < getN ends l ∧ stop ≤ getN ends l then
    .ok ⟨[0], [stop - start], 0⟩
  else
    let b := sliceBegin m start l starts ends (gapLengths m.cumLens)
    let r := ssRight (ends.drop l) stop + l
    let e := sliceEnd m stop r starts ends b.2.2
    let posResult := ((m.gapPos.take e.1).drop b.1).map (· - b.2.1)
    let lengths := (e.2.take e.1).drop b.1
    mkLengths posResult lengths (seqIndexNN m stop - seqIndexNN m start)

/-- `__getitem__(slice(start, stop, step))` -/
def getitem (m : IMap) (start stop step : Option Int) : Except Err IMap :=
  if step.isSome then .error .notImplemented else
  let start := match start with | none => 0 | some s => s      -- `item.start or 0`
  let stop := match stop with | none => len m | some s => s
  let start := if start ≥ 0 then start else len m + start
  let stop := if stop ≥ 0 then stop else len m + stop
  if start < 0 ∨ stop < 0 then .error .indexError else
  let stop := min stop (len m)          -- a stop beyond the end is clamped
  if start ≥ stop then .ok (emptyMap 0) else
  if m.gapPos = [] then .ok (emptyMap (stop - start)) else
  getitemGaps m start stop

/-- `__getitem__(int)` : `self[item : item + 1]` -/
def getitemInt (m : IMap) (i : Int) : Except Err IMap := getitem m (some i) (some (i + 1)) none

/-- `__add__`: a trailing gap of `a` and a leading gap of `b` are one gap (its cumulative length is
the one `b` contributes, which already includes `a`'s total) -/
def add (a b : IMap) : Except Err IMap :=
  let cl := if a.gapPos = [] then 0 else lastD a.cumLens
  let merge : Bool := a.gapPos ≠ [] ∧ b.gapPos ≠ [] ∧ lastD a.gapPos = a.parentLength ∧ b.gapPos.headD 0 = 0
  let selfPos := if merge then a.gapPos.dropLast else a.gapPos
  let selfCum := if merge then a.cumLens.dropLast else a.cumLens
  mk (selfPos ++ b.gapPos.map (a.parentLength + ·)) (selfCum ++ b.cumLens.map (cl + ·))
    (a.parentLength + b.parentLength)

/-- `__mul__` -/
def mul (m : IMap) (k : Int) : Except Err IMap :=
  mk (m.gapPos.map (· * k)) (m.cumLens.map (· * k)) (m.parentLength * k)

/-- `nucleic_reversed` -/
def nucleicReversed (m : IMap) : Except Err IMap :=
  mkLengths ((m.gapPos.map (m.parentLength - ·)).reverse) (gapLengths m.cumLens).reverse m.parentLength

inductive Sp where
  | span (s e : Int)
  | lost (n : Int)
  deriving DecidableEq, Repr, Inhabited

/-- the loop of the `spans` property, generalised by the previous gap (position, cumulative length) -/
def spansFrom (first : Bool) (prevPos prevCum : Int) : List Int → List Int → List Sp
  | p :: ps, c :: cs =>
    (if p = 0 then [Sp.lost c]
     else [Sp.span (if first then 0 else prevPos) p, Sp.lost (c - (if first then 0 else prevCum))])
      ++ spansFrom false p c ps cs
  | _, _ => []

/-- `spans` -/
def spans (m : IMap) : List Sp :=
  if m.gapPos = [] then [Sp.span 0 m.parentLength] else
  spansFrom true 0 0 m.gapPos m.cumLens ++
    (if lastD m.gapPos < m.parentLength then [Sp.span (lastD m.gapPos) m.parentLength] else [])

/-- loop of `nongap()` : ungapped segments in alignment coordinates -/
def nongapFrom (first : Bool) (prevPos prevCum : Int) : List Int → List Int → List (Int × Int)
  | p :: ps, c :: cs =>
    (if p = 0 then [] else
      [((if first then 0 else prevPos) + (if first then 0 else prevCum), p + (if first then 0 else prevCum))])
      ++ nongapFrom false p c ps cs
  | _, _ => []

def nongap (m : IMap) : List (Int × Int) :=
  if m.gapPos = [] then (if m.parentLength ≠ 0 then [(0, m.parentLength)] else []) else
  nongapFrom true 0 0 m.gapPos m.cumLens ++
    (if m.gapPos ≠ [] ∧ lastD m.gapPos + lastD m.cumLens < len m then
      [(lastD m.gapPos + lastD m.cumLens, len m)] else [])

/-- `get_coordinates` -/
def getCoordinates (m : IMap) : List (Int × Int) :=
  let n := numGaps m
  if n = 0 ∨ (n = 1 ∧ m.gapPos.headD 0 = 0) then [(0, m.parentLength)]
  else if n = 1 then [(0, m.gapPos.headD 0), (m.gapPos.headD 0, m.parentLength)]
  else
    let starts := m.gapPos.dropLast
    let ends := m.gapPos.drop 1
    let (starts, ends) := if m.gapPos.headD 0 ≠ 0 then (0 :: starts, starts.take 1 ++ ends) else (starts, ends)
    let (starts, ends) :=
      if lastD m.gapPos < m.parentLength then (starts ++ [lastD ends], ends ++ [m.parentLength])
      else (starts, ends)
    starts.zip ends

/-- `get_gap_coordinates` : `[(gap pos, gap length)]` -/
def getGapCoordinates (m : IMap) : List (Int × Int) := m.gapPos.zip (gapLengths m.cumLens)

/-- `get_gap_align_coordinates` -/
def getGapAlignCoordinates (m : IMap) : List (Int × Int) :=
  (gapStarts m.gapPos m.cumLens).zip (gapEnds m.gapPos m.cumLens)

/-! ### binary operations -/

/-- `span_and_span`: `none` = ValueError, `some none` = `(None, None)` -/
def spanAndSpan (a1 a2 b1 b2 : Int) : Option (Option (Int × Int)) :=
  if a1 ≥ a2 ∨ b1 ≥ b2 then none
  else if a1 < b1 ∧ a2 > b2 then some (some (b1, b2))
  else if a1 ≥ b1 ∧ a2 ≤ b2 then some (some (a1, a2))
  else if a1 = b1 then some (some (a1, min a2 b2))
  else if a2 = b2 then some (some (max a1 b1, a2))
  else if a1 < b1 ∧ b1 < a2 then some (some (b1, min a2 b2))
  else if a1 < b2 ∧ b2 < a2 then some (some (max a1 b1, b2))
  else some none

/-- inner loop of `coords_minus_coords` for one `(a1, a2)`: total intersect (`none` = None) -/
def minusInner (a1 a2 : Int) (tot : Option Int) : List (Int × Int) → Except Err (Option Int)
  | [] => .ok tot
  | (b1, b2) :: r =>
    if b2 < a1 then minusInner a1 a2 tot r
    else if a2 ≤ b1 then .ok tot
    else match spanAndSpan a1 a2 b1 b2 with
      | none => .error .valueError
      | some none => minusInner a1 a2 tot r
      | some (some (x, y)) => minusInner a1 a2 (some (y - x + tot.getD 0)) r

/-- `coords_minus_coords` -/
def coordsMinusCoords : List (Int × Int) → List (Int × Int) → Except Err (List (Int × Int))
  | [], _ => .ok []
  | (a1, a2) :: r, c2 =>
    match minusInner a1 a2 none c2 with
    | .error e => .error e
    | .ok tot =>
      let e := a2 - tot.getD 0
      if e < 0 then .error .valueError
      else match coordsMinusCoords r c2 with
        | .error er => .error er
        | .ok rest => if some (a2 - a1) ≠ tot then .ok ((a1, e) :: rest) else .ok rest

def intersectInner (a1 a2 : Int) : List (Int × Int) → Except Err (List (Int × Int))
  | [] => .ok []
  | (b1, b2) :: r =>
    if a1 ≤ b2 ∧ b1 ≤ a2 then
      match spanAndSpan a1 a2 b1 b2 with
      | none => .error .valueError
      | some none => intersectInner a1 a2 r
      | some (some p) => match intersectInner a1 a2 r with
        | .error e => .error e
        | .ok rest => .ok (p :: rest)
    else if a2 < b1 then .ok []
    else intersectInner a1 a2 r

/-- `coords_intersect` -/
def coordsIntersect : List (Int × Int) → List (Int × Int) → Except Err (List (Int × Int))
  | [], _ => .ok []
  | (a1, a2) :: r, c2 =>
    match intersectInner a1 a2 c2 with
    | .error e => .error e
    | .ok x => match coordsIntersect r c2 with
      | .error e => .error e
      | .ok y => .ok (x ++ y)

/-- `shared_gaps(other: IndelMap)` -/
def sharedGaps (a b : IMap) : Except Err (List (Int × Int)) :=
  if len a ≠ len b then .error .assertionError else
  if a.gapPos = [] ∨ b.gapPos = [] then .ok [] else
  let og := getGapAlignCoordinates b
  match og.getLast? with
  | none => .ok []
  | some l =>
    if l.2 > len a then .error .assertionError else
    coordsIntersect (getGapAlignCoordinates a) og

/-- `minus_gaps(other: IndelMap)` -/
def minusGaps (a b : IMap) : Except Err IMap :=
  if len a ≠ len b then .error .assertionError else
  let og := getGapAlignCoordinates b
  match og.getLast? with
  | none => .ok a
  | some l =>
    if l.2 > len a then .error .assertionError else
    match coordsMinusCoords (getGapAlignCoordinates a) og with
    | .error e => .error e
    | .ok uniq =>
      -- `start ≥ 0` always (alignment coordinates), so `get_seq_index` cannot raise here
      mkLengths (uniq.map fun u => seqIndexNN a u.1) (uniq.map fun u => u.2 - u.1) a.parentLength

/-- sum of `lengths[i]` over the positions equal to `p` (`_update_lengths` for one slot) -/
def lenAt (p : Int) : List Int → List Int → Int
  | q :: qs, l :: ls => (if q = p then l else 0) + lenAt p qs ls
  | _, _ => 0

/-- `merge_maps(other, parent_length=None)` -/
def mergeMaps (a b : IMap) (pl : Option Int) : Except Err IMap :=
  let up := sortUniq (a.gapPos ++ b.gapPos)
  let la := gapLengths a.cumLens
  let lb := gapLengths b.cumLens
  let lengths := up.map fun p => lenAt p a.gapPos la + lenAt p b.gapPos lb
  let pl := match pl with | none => a.parentLength | some n => if n = 0 then a.parentLength else n
  mkLengths up lengths pl

/-- dict update `gaps[pos] = gaps.get(pos, dflt) + v` on an insertion-ordered assoc list -/
def dictAdd (pos dflt v : Int) : List (Int × Int) → List (Int × Int)
  | [] => [(pos, dflt + v)]
  | (k, x) :: r => if k = pos then (k, x + v) :: r else (k, x) :: dictAdd pos dflt v r

/-- inner loop of `joined_segments` over the gaps of one slice -/
def joinGaps (cumParent cumLength : Int) : List Int → List Int → List (Int × Int) → List (Int × Int)
  | p :: ps, c :: cs, g => joinGaps cumParent cumLength ps cs (dictAdd (p + cumParent) cumLength c g)
  | _, _, g => g

def joinedAux (m : IMap) : List (Int × Int) → Int → Int → List (Int × Int) → Except Err (List (Int × Int) × Int)
  | [], cumParent, _, g => .ok (g, cumParent)
  | (s, e) :: r, cumParent, cumLength, g =>
    -- `self[start:end]` with explicit ints (a literal 0 start is `or`-ed to 0 anyway)
    match getitem m (some s) (some e) none with
    | .error er => .error er
    | .ok im =>
      let g := joinGaps cumParent cumLength im.gapPos im.cumLens g
      joinedAux m r (cumParent + im.parentLength)
        (cumLength + (if im.gapPos = [] then 0 else lastD im.cumLens)) g

/-- `joined_segments(coords)` -/
def joinedSegments (m : IMap) (coords : List (Int × Int)) : Except Err IMap :=
  match joinedAux m (sortPairs coords) 0 0 [] with
  | .error e => .error e
  | .ok (g, cumParent) =>
    let g := sortPairs g
    mk (g.map (·.1)) (g.map (·.2)) cumParent

/-! ### abstraction: the gapped string a map describes -/

/-- residues `a, a+1, …, b-1` -/
def seg (a b : Int) : List (Option Nat) := (List.range' a.toNat (b - a).toNat).map some

/-- `n` gap columns -/
def gapCols (n : Int) : List (Option Nat) := List.replicate n.toNat none

/-- columns from residue `next` on: ungapped segment up to each gap position, then the gap run -/
def absFrom (next prevCum : Int) : List Int → List Int → Int → List (Option Nat)
  | p :: ps, c :: cs, pl => seg next p ++ gapCols (c - prevCum) ++ absFrom p c ps cs pl
  | _, _, pl => seg next pl

/-- the gapped string (column ↦ sequence index or gap) an `IndelMap` stands for -/
def abs (m : IMap) : List (Option Nat) := absFrom 0 0 m.gapPos m.cumLens m.parentLength

/-- what `Sequence.gapped_by_map` displays: expansion of `spans` -/
def expandSp : Sp → List (Option Nat)
  | .span s e => seg s e
  | .lost n => gapCols n

def absSpans (m : IMap) : List (Option Nat) := (spans m).flatMap expandSp

end CogentModel.IndelMap
