import CogentModel.Model.Composable
/-
  C14 — the semantic domain into which `translator/c14_select2lean.py` translates the SOURCE TEXT of the
  selection part of `composable._apply_to` (from `inputs = {}` to `inputs = _proxy_input(inputs.values())`)
  and of `composable._proxy_input` (generated file: `Gen/C14Select.lean`).  Hand-written, import-free.

  An element of `dstore` is a natural number `m` (as in `Model/Composable.lean`); everything the code asks
  about it is a field of `SelEnv`.
-/
namespace CogentModel.SelectPrims
open CogentModel.Composable

/-- what is handed to `id_from_source` -/
inductive IdArg where
  | pathOfUniqueId (m : Nat)   -- `Path(m.unique_id)` (the element is a DataMember)
  | self (m : Nat)             -- the element itself
  deriving DecidableEq, Repr

/-- an element handed to `_proxy_input`: the bare input or a `source_proxy` around it -/
inductive PIn where
  | raw (m : Nat)
  | proxy (m : Nat)
  deriving DecidableEq, Repr

/-- a raised exception: class name and the literal message of the source -/
structure PyErr where
  exc : String
  msg : String
  deriving DecidableEq, Repr

structure SelEnv where
  /-- `isinstance(m, DataMember)` -/
  isDataMember : Nat → Bool
  /-- `bool(m)` -/
  truthy : Nat → Bool
  /-- the caller's `id_from_source` -/
  idFromSource : IdArg → Id
  /-- `input_id in self.data_store` -/
  inStore : Id → Bool

/-- a python dict (insertion ordered) from identifiers to elements -/
abbrev Dict := List (Id × Nat)

def Dict.empty : Dict := []

/-- `k in d` -/
def Dict.has (d : Dict) (k : Id) : Bool := d.any (fun p => p.1 == k)

/-- `d[k] = v`: an existing key keeps its position, a new key goes to the end -/
def Dict.set : Dict → Id → Nat → Dict
  | [], k, v => [(k, v)]
  | (k', v') :: t, k, v => if k' == k then (k', v) :: t else (k', v') :: Dict.set t k v

/-- `d.values()` -/
def Dict.values (d : Dict) : List Nat := d.map (·.2)

namespace PIn

def member : PIn → Nat
  | .raw m => m
  | .proxy m => m

/-- `bool(e)`; a proxy forwards to its object -/
def truthy (env : SelEnv) (e : PIn) : Bool := env.truthy e.member

/-- `isinstance(e, source_proxy)` -/
def isProxy : PIn → Bool
  | .proxy _ => true
  | .raw _ => false

/-- `source_proxy(e)` -/
def mkProxy (e : PIn) : PIn := .proxy e.member

end PIn

end CogentModel.SelectPrims
