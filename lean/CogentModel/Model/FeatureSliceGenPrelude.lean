/-
  Prelude of the GENERATED feature-slicing code (`Gen/C04Slice.lean`, written by translator/c04_slice2lean.py): the
  semantics of the methods of OTHER classes the translated functions call (FeatureMap accessors, C01's slicing of a
  Sequence, `rc()`, the Sequence constructors) -- nothing of the logic of get_slice / _do_seq_slice / _mapped /
  gapped_by_map_segment_iter themselves.
-/
import CogentModel.Model.FeatureGenPrelude
import CogentModel.Model.FeatureSeq
namespace CogentModel.FeatureView
open CogentModel.View CogentModel.SeqWrap

/-- `FeatureMap.complete` (`__post_init__`): no span is a LostSpan -/
def FMapG.complete (m : FMapG) : Bool := m.spans.all fun x => !x.isLost

/-- `FeatureMap.without_gaps()` -/
def FMapG.withoutGaps (m : FMapG) : FMapG := { m with spans := m.spans.filter fun x => !x.isLost }

/-- `FeatureMap.num_spans` = `len(self._spans)` (lost spans included) -/
def FMapG.numSpans (m : FMapG) : Int := (m.spans.length : Int)

/-- `FeatureMap.start` = `self._start or 0`: the smallest start over the non-lost spans -/
def FMapG.start (m : FMapG) : Int := mapStart (realOf m.spans)

/-- `FeatureMap.end` -/
def FMapG.stop (m : FMapG) : Int := mapEnd (realOf m.spans)

/-- S3: the `terminal` flag of a LostSpan is not modelled -/
def MSpan.terminal (_ : MSpan) : Bool := false

/-- S4: `str(self[a:b])` for a slice inside the view: the characters of `str(self)` at the view indices `a … b-1`
(C01 `str_getitem`; the same reading as the hand model `getSlice`) -/
def strSlice (comp : Char → Char) (s : Seq) (a b : Int) : List Char :=
  (irange a b).map fun i => (str comp s)[i.toNat]!

/-- S4: `result.rc()` on a nucleic sequence -/
def rcChars (comp : Char → Char) (l : List Char) : List Char := (l.reverse).map comp

/-- `ch * n` -/
def repeatChar (c : Char) (n : Int) : List Char := List.replicate n.toNat c

/-- `self.__class__("<string>", …, annotation_offset=k)`: a fresh sequence over a plain string (no guard) -/
def ctorStr (chars : List Char) (_annotation_offset : Int) : Except FErr (List Char) := .ok chars

/-- new-style `self.__class__(seq=self._seq[a:b], …, annotation_offset=k)`: `_coerce_to_seqview` raises
`ValueError('cannot set offset …')` when both `k` and the SeqView's own offset are non-zero -/
def ctorView (comp : Char → Char) (s : Seq) (a b : Int) (annotation_offset : Int) : Except FErr (List Char) :=
  if annotation_offset ≠ 0 ∧ s.v.offset ≠ 0 then .error .valueError else .ok (strSlice comp s a b)

end CogentModel.FeatureView
