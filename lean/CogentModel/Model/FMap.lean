/-
  Hand-written mirror of `cogent3/core/location.py::FeatureMap` / `Span` /
  `_LostSpan` (the span algebra: `from_locations`, `__getitem__` /
  `Span.remap_with`, `inverse`, `covered`, `gaps`, `shadow`, `nongap`,
  `nucleic_reversed`).  Import-free, executable.  `tidy_*` flags and `value`
  are not modelled (exercised only).
-/
namespace CogentModel.FMap

inductive FErr where
  | valueError | runtimeError | assertionError | indexError
  deriving DecidableEq, Repr, Inhabited

/-- `Span(start, end, reverse)` or `LostSpan(length)` -/
inductive FSp where
  | span (s e : Int) (rev : Bool)
  | lost (n : Int)
  deriving DecidableEq, Repr, Inhabited

/-- `Span.__init__`: start and end are swapped so that start is first -/
def mkSpan (s e : Int) (rev : Bool) : FSp := if s > e then .span e s rev else .span s e rev

def FSp.length : FSp → Int
  | .span s e _ => e - s
  | .lost n => n

def FSp.isLost : FSp → Bool
  | .lost _ => true
  | _ => false

structure FM where
  spans : List FSp
  parentLength : Int
  deriving DecidableEq, Repr, Inhabited

/-- `FeatureMap.offsets` -/
def offsetsFrom (pos : Int) : List FSp → List Int
  | [] => []
  | s :: r => pos :: offsetsFrom (pos + s.length) r

def offsets (m : FM) : List Int := offsetsFrom 0 m.spans

/-- `__len__` -/
def len (m : FM) : Int := (m.spans.map FSp.length).foldl (· + ·) 0

/-- `_start` / `_end` bookkeeping of `__post_init__` : `none` = not useful -/
def startEnd (m : FM) : Option (Int × Int) :=
  m.spans.foldl (fun acc s => match s with
    | .lost _ => acc
    | .span a b _ => match acc with
      | none => some (a, b)
      | some (x, y) => some (min x a, max y b)) none

/-- `_spans_from_locations` body loop -/
def spansFromLocs (pl : Int) : List (Int × Int) → Except FErr (List FSp)
  | [] => .ok []
  | (s, e) :: r =>
    if s > e ∨ min s e < 0 then .error .valueError
    else if s > pl then .error .runtimeError
    else match spansFromLocs pl r with
      | .error er => .error er
      | .ok rest =>
        if e > pl then .ok (.span s pl false :: .lost (e - pl) :: rest)
        else .ok (.span s e false :: rest)

/-- `_spans_from_locations` -/
def spansFromLocations (locs : List (Int × Int)) (pl : Int) : Except FErr (List FSp) :=
  match locs, locs.getLast? with
  | first :: _, some last =>
    if first.1 > last.2 then .error .valueError else spansFromLocs pl locs
  | _, _ => .ok []

/-- `FeatureMap.from_locations` -/
def fromLocations (locs : List (Int × Int)) (pl : Int) : Except FErr FM :=
  match spansFromLocations locs pl with
  | .error e => .error e
  | .ok sp => .ok ⟨sp, pl⟩

/-! ### covered -/

def deltaAdd (k v : Int) : List (Int × Int) → List (Int × Int)
  | [] => [(k, v)]
  | (a, x) :: r => if a = k then (a, x + v) :: r else (a, x) :: deltaAdd k v r

def insertKey (v : Int × Int) : List (Int × Int) → List (Int × Int)
  | [] => [v]
  | x :: xs => if v.1 ≤ x.1 then v :: x :: xs else x :: insertKey v xs

/-- the sweep of `covered()` over the sorted positions: `(y, start)` state -/
def sweep (y : Int) (start : Option Int) : List (Int × Int) → Except FErr (List (Int × Int))
  | [] => .ok []
  | (x, d) :: r =>
    let y' := y + d
    if y' ≠ 0 ∧ y = 0 then
      (if start.isSome then .error .assertionError else sweep y' (some x) r)
    else if y ≠ 0 ∧ y' = 0 then
      match sweep y' none r with
      | .error e => .error e
      | .ok rest => .ok ((start.getD 0, x) :: rest)
    else sweep y' start r

/-- `covered()` -/
def covered (m : FM) : Except FErr FM :=
  let delta := m.spans.foldl (fun d s => match s with
    | .lost _ => d
    | .span a b _ => deltaAdd b (-1) (deltaAdd a 1 d)) []
  let sorted := delta.foldr insertKey []
  match sweep 0 none sorted with
  | .error e => .error e
  | .ok locs => fromLocations locs m.parentLength

/-- `nucleic_reversed()` -/
def nucleicReversed (m : FM) : Except FErr FM :=
  let rec go : List FSp → Except FErr (List FSp)
    | [] => .ok []
    | .lost n :: r => (go r).map (FSp.lost n :: ·)
    | .span s e _ :: r =>
      let start := m.parentLength - e
      if start < 0 then .error .assertionError
      else (go r).map (mkSpan start (start + (e - s)) false :: ·)
  match go m.spans with
  | .error e => .error e
  | .ok sp => .ok ⟨sp.reverse, m.parentLength⟩

/-- locations (map coordinates) of the lost (`wantLost = true`) or real spans -/
def locsOf (wantLost : Bool) (offset : Int) : List FSp → List (Int × Int)
  | [] => []
  | s :: r => (if s.isLost = wantLost then [(offset, offset + s.length)] else []) ++ locsOf wantLost (offset + s.length) r

/-- `gaps()` -/
def gaps (m : FM) : Except FErr FM := fromLocations (locsOf true 0 m.spans) (len m)

/-- `nongap()` -/
def nongap (m : FM) : Except FErr (List FSp) := spansFromLocations (locsOf false 0 m.spans) (len m)

/-! ### inverse -/

abbrev Q := Int × Int × Int × Int

def qle (a b : Q) : Bool :=
  a.1 < b.1 ∨ (a.1 = b.1 ∧ (a.2.1 < b.2.1 ∨ (a.2.1 = b.2.1 ∧ (a.2.2.1 < b.2.2.1 ∨ (a.2.2.1 = b.2.2.1 ∧ a.2.2.2 ≤ b.2.2.2)))))

def insertQ (v : Q) : List Q → List Q
  | [] => [v]
  | x :: xs => if qle v x then v :: x :: xs else x :: insertQ v xs

def invTemp (cum : Int) : List FSp → List Q
  | [] => []
  | .lost n :: r => invTemp (cum + n) r
  | .span s e rev :: r =>
    (if rev then (s, e, cum + (e - s), cum) else (s, e, cum, cum + (e - s))) :: invTemp (cum + (e - s)) r

def invLoop (lastStart : Int) : List Q → Except FErr (List FSp × Int)
  | [] => .ok ([], lastStart)
  | (s, e, cs, ce) :: r =>
    if s < lastStart then .error .valueError else
    match invLoop e r with
    | .error er => .error er
    | .ok (rest, ls) =>
      let sp := mkSpan cs ce (cs > ce)
      .ok ((if s > lastStart then [FSp.lost (s - lastStart), sp] else [sp]) ++ rest, ls)

/-- `inverse()` -/
def inverse (m : FM) : Except FErr FM :=
  let temp := (invTemp 0 m.spans).foldr insertQ []
  match invLoop 0 temp with
  | .error e => .error e
  | .ok (sp, lastStart) =>
    .ok ⟨sp ++ (if m.parentLength > lastStart then [FSp.lost (m.parentLength - lastStart)] else []), len m⟩

/-- `shadow()` = `inverse().gaps()` -/
def shadow (m : FM) : Except FErr FM :=
  match inverse m with
  | .error e => .error e
  | .ok i => gaps i

/-! ### `__getitem__` / `Span.remap_with` -/

/-- `_norm_index(i, length, default)` for a given int -/
def normIndex (i length : Int) : Int :=
  let i := if i < 0 then i + length else i
  min (max i 0) length

/-- `span[a:b]` (`Span.__getitem__` / `_LostSpan.__getitem__` with an int slice; `none` bound = default) -/
def spanSlice (sp : FSp) (a b : Option Int) : Except FErr FSp :=
  let L := sp.length
  let st := match a with | none => 0 | some i => normIndex i L
  let en := match b with | none => L | some i => normIndex i L
  match sp with
  | .lost _ => .ok (.lost (if en - st < 0 then st - en else en - st))
  | .span s e rev =>
    if st > en then .error .assertionError
    else if rev then .ok (mkSpan (e - en) (e - st) true) else .ok (mkSpan (s + st) (s + en) false)

/-- `bisect_right(xs, v)` -/
def bisectRight : List Int → Int → Nat
  | [], _ => 0
  | x :: xs, v => if x ≤ v then bisectRight xs v + 1 else 0

/-- `bisect_left(xs, v)` -/
def bisectLeft : List Int → Int → Nat
  | [], _ => 0
  | x :: xs, v => if x < v then bisectLeft xs v + 1 else 0

def FSp.reversed : FSp → FSp
  | .span s e r => .span s e (!r)
  | .lost n => .lost n

def setLast (xs : List FSp) (v : FSp) : List FSp := xs.dropLast ++ [v]

/-- `Span.remap_with(map)` for `Span(s, e, rev)` -/
def remapSpan (s e : Int) (rev : Bool) (m : FM) : Except FErr (List FSp) :=
  let offs := offsets m
  match offs.getLast?, m.spans.getLast? with
  | some lo, some ls =>
    let mapLength := lo + ls.length
    let zlo := max 0 s
    let zhi := min mapLength e
    let trimmed : Except FErr (List FSp) :=
      -- `self` lies entirely outside the map
      if zlo > zhi then .ok [] else
      let first : Int := (bisectRight offs zlo : Int) - 1
      -- bisect_left(offsets, zhi, lo=first): a negative `lo` raises ValueError
      if first < 0 then .error .valueError else
      let firstN := first.toNat
      let last : Int := (bisectLeft (offs.drop firstN) zhi + firstN : Nat) - 1
      let result := (m.spans.take (last + 1).toNat).drop firstN
      match result with
      | [] => .ok []
      | _ =>
        let lastSp := m.spans.getD last.toNat (.lost 0)
        let endTrim := offs.getD last.toNat 0 + lastSp.length - zhi
        let startTrim := zlo - offs.getD firstN 0
        let r1 : Except FErr (List FSp) :=
          if endTrim > 0 then
            match result.getLast? with
            | some x => (spanSlice x none (some (x.length - endTrim))).map (setLast result ·)
            | none => .ok result
          else .ok result
        match r1 with
        | .error er => .error er
        | .ok r1 =>
          if startTrim > 0 then
            match r1 with
            | x :: rest => (spanSlice x (some startTrim) none).map (· :: rest)
            | [] => .ok []
          else .ok r1
    match trimmed with
    | .error er => .error er
    | .ok res =>
      let res := if s < 0 then FSp.lost (min e 0 - s) :: res else res
      let res := if e > mapLength then res ++ [FSp.lost (e - max s mapLength)] else res
      .ok (if rev then (res.map FSp.reversed).reverse else res)
  | _, _ => .error .indexError

/-- `FeatureMap.__getitem__(new_map: FeatureMap)` -/
def getitem (m n : FM) : Except FErr FM :=
  let rec go : List FSp → Except FErr (List FSp)
    | [] => .ok []
    | .lost k :: r => (go r).map (FSp.lost k :: ·)
    | .span s e rev :: r =>
      match remapSpan s e rev m with
      | .error er => .error er
      | .ok parts => (go r).map (parts ++ ·)
  match go n.spans with
  | .error e => .error e
  | .ok sp => .ok ⟨sp, m.parentLength⟩

/-! ### abstraction: map position ↦ parent position or lost -/

def coverSp : FSp → List (Option Int)
  | .lost n => List.replicate n.toNat none
  | .span s e rev =>
    let xs := (List.range (e - s).toNat).map fun (i : Nat) => some (s + (i : Int))
    if rev then xs.reverse else xs

def cover (m : FM) : List (Option Int) := m.spans.flatMap coverSp

end CogentModel.FMap
