/-
  Hand-written mirror of the feature machinery of `cogent3/core/sequence.py` /
  `core/new_sequence.py` (the two carry the same code; the harness runs both):
  `Sequence.get_features` (window arithmetic, absolute -> relative spans),
  `Sequence.make_feature` (clipping, lost spans, strand flip),
  `location._spans_from_locations`, `FeatureMap.nucleic_reversed`,
  `Feature.get_slice` (`without_gaps`, `parent[fmap]`, `rc` if reversed).

  Slice-record arithmetic (`absolute_position`, `relative_position`, `len`) is
  C01's model `Model/View.lean`.
-/
import CogentModel.Model.View
namespace CogentModel.FeatureView
open CogentModel.View

inductive FErr where
  | valueError | indexError | assertionError | runtimeError
  deriving DecidableEq, Repr, Inhabited

def liftErr {α} : Except Err α → Except FErr α
  | .ok a => .ok a
  | .error .valueError => .error .valueError
  | .error .indexError => .error .indexError
  | .error .assertionError => .error .assertionError

/-- `start = start or 0` / `stop = stop or len(self)`: `None` and `0` both take the default -/
def orDefault (x : Option Int) (d : Int) : Int :=
  match x with
  | none => d
  | some s => if s = 0 then d else s

/-- the window arithmetic of `get_features`: the `(start, stop)` sent to the annotation db -/
def queryWindow (v : View) (start stop : Option Int) : Except FErr (Int × Int) :=
  let n := len v
  let start := orDefault start 0
  let stop := orDefault stop n
  let start := if start < 0 then start + n else start
  let stop := if stop < 0 then stop + n else stop
  let lo := if start < stop then start else stop
  let hi := if start < stop then stop else start
  match liftErr (absolutePosition v lo false), liftErr (absolutePosition v hi true) with
  | .error e, _ => .error e
  | _, .error e => .error e
  | .ok qs, .ok qe =>
    let qs' := if v.step < 0 then qe else qs
    let qe' := if v.step < 0 then qs else qe
    .ok (max qs' 0, qe')

/-- one db coordinate made relative to the view: `relative_position(v)` (always with `stop=False`),
then `len(self) - x` on a reversed view -/
def relCoord (v : View) (c : Int) : Except FErr Int :=
  match liftErr (relativePosition v c false) with
  | .error e => .error e
  | .ok r => .ok (if v.step < 0 then len v - r else r)

def relSpan (v : View) (sp : Int × Int) : Except FErr (Int × Int) :=
  match relCoord v sp.1, relCoord v sp.2 with
  | .error e, _ => .error e
  | _, .error e => .error e
  | .ok a, .ok b => .ok (a, b)

def mapExcept {α β ε} (f : α → Except ε β) : List α → Except ε (List β)
  | [] => .ok []
  | x :: xs =>
    match f x, mapExcept f xs with
    | .error e, _ => .error e
    | _, .error e => .error e
    | .ok y, .ok ys => .ok (y :: ys)

/-- a span of a feature map -/
inductive MSpan where
  | span (s e : Int)
  | lost (n : Int)
  deriving DecidableEq, Repr, Inhabited

/-- the per-span `if / elif / elif / (else keep)` of `make_feature` (`L = len(self)`):
`none` = `continue` (span dropped; since 11fcfbb18 also a span that only touches a view boundary) -/
def clipSpan (L : Int) (sp : Int × Int) : Option (Int × Int) :=
  let mn := min sp.1 sp.2
  let mx := max sp.1 sp.2
  if mn < 0 ∧ 0 < mx then
    -- `new[new < 0] = 0` then (since dea246735) `new[new > len(self)] = len(self)`
    let a := if sp.1 < 0 then 0 else sp.1
    let b := if sp.2 < 0 then 0 else sp.2
    some (if a > L then L else a, if b > L then L else b)
  else if mn < L ∧ L < mx then some (if sp.1 > L then L else sp.1, if sp.2 > L then L else sp.2)
  else if sp.1 = sp.2 ∨ mn ≥ L ∨ mx ≤ 0 then none
  else some sp

/-- the body of the loop of `_spans_from_locations` for one location -/
def locate (L : Int) (sp : Int × Int) : Except FErr (List MSpan) :=
  if sp.1 > sp.2 ∨ min sp.1 sp.2 < 0 then .error .valueError
  else if sp.1 > L then .error .runtimeError
  else if sp.2 > L then .ok [.span sp.1 (min sp.2 L), .lost (sp.2 - L)]
  else .ok [.span sp.1 sp.2]

def firstLastOk (locs : List (Int × Int)) : Bool :=
  match locs.head?, locs.getLast? with
  | some f, some l => !(f.1 > l.2)
  | _, _ => true

/-- `_spans_from_locations(locations, parent_length)` -/
def spansFromLocations (L : Int) (locs : List (Int × Int)) : Except FErr (List MSpan) :=
  if !firstLastOk locs then .error .valueError
  else match mapExcept (locate L) locs with
    | .error e => .error e
    | .ok xs => .ok xs.flatten

def minOfSpans : List (Int × Int) → Int
  | [] => 0
  | [p] => min p.1 p.2
  | p :: ps => min (min p.1 p.2) (minOfSpans ps)

def maxOfSpans : List (Int × Int) → Int
  | [] => 0
  | [p] => max p.1 p.2
  | p :: ps => max (max p.1 p.2) (maxOfSpans ps)

/-- one span of `FeatureMap.nucleic_reversed` (asserts `start >= 0`) -/
def revSpan (L : Int) : MSpan → Except FErr MSpan
  | .lost n => .ok (.lost n)
  | .span s e => if L - e < 0 then .error .assertionError else .ok (.span (L - e) (L - e + (e - s)))

/-- a feature as `make_feature` returns it: map spans (view coordinates) and the `reversed` flag -/
structure Feat where
  spans : List MSpan
  reversed : Bool
  deriving DecidableEq, Repr, Inhabited

/-- `make_feature(feature)` with `spans` already relative to the view; `minus` = db strand is `-`,
`rced` = the view is reverse complemented -/
def makeFeature (L : Int) (rced minus : Bool) (spans : List (Int × Int)) : Except FErr Feat :=
  let pre := if minOfSpans spans < 0 then -(minOfSpans spans) else 0
  let post := if maxOfSpans spans > L then maxOfSpans spans - L else 0
  let kept := spans.filterMap (clipSpan L)
  match spansFromLocations L kept with
  | .error e => .error e
  | .ok m =>
    let m := if pre ≠ 0 ∨ post ≠ 0 then
      (if pre ≠ 0 then [MSpan.lost pre] else []) ++ m ++ (if post ≠ 0 then [MSpan.lost post] else [])
      else m
    -- `strand = "+" if revd == seq_rced else "-"`
    let reversed := minus != rced
    if rced then
      match mapExcept (revSpan L) m with
      | .error e => .error e
      | .ok r => .ok { spans := r.reverse, reversed := reversed }
    else .ok { spans := m, reversed := reversed }

/-- the feature `get_features` yields for one db record on view `v` -/
def featureOnView (v : View) (minus : Bool) (dbSpans : List (Int × Int)) : Except FErr Feat :=
  match mapExcept (relSpan v) dbSpans with
  | .error e => .error e
  | .ok rel => makeFeature (len v) (v.step < 0) minus rel

/-- integers `a, a+1, …, b-1` -/
def irange (a b : Int) : List Int := (List.range (b - a).toNat).map fun (i : Nat) => a + (i : Int)

/-- view indices read by `parent[fmap.without_gaps()]`, in order -/
def sliceIdx (f : Feat) : List Int :=
  f.spans.flatMap fun
    | .span s e => irange s e
    | .lost _ => []

/-- absolute plus-strand position shown at view index `i` (|step| = 1) -/
def viewPos (v : View) (i : Int) : Int :=
  if v.step < 0 then v.offset + v.start + v.seqLen - i else v.offset + v.start + i

/-- `Feature.get_slice()` as a list of absolute plus-strand positions in reading order, and whether
the letters come out complemented (view complement xor the `rc()` applied to reversed features) -/
def slicePositions (v : View) (f : Feat) : List Int × Bool :=
  let ps := (sliceIdx f).map (viewPos v)
  (if f.reversed then ps.reverse else ps, (decide (v.step < 0)) != f.reversed)

/-- absolute plus-strand position shown at view index `i`, for ANY stride: `offset + elems[i]` -/
def viewPosAny (v : View) (i : Int) : Int :=
  v.offset + (if v.step > 0 then v.start else v.start + v.seqLen) + i * v.step

/-- `slicePositions` for any stride -/
def slicePositionsAny (v : View) (f : Feat) : List Int × Bool :=
  let ps := (sliceIdx f).map (viewPosAny v)
  (if f.reversed then ps.reverse else ps, (decide (v.step < 0)) != f.reversed)

end CogentModel.FeatureView
