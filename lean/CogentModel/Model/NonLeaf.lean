/-
  C07 — `_NonLeafDefn.update` (recalculation/scope.py): the rebuild of the scope → input-ordinal mapping, the
  grouping of identical calculations (`_indexed`) and the recomputation of one value per group.

  HAND MODEL `updateSpec` + the primitives the GENERATED text (`Gen/C07Rules.lean`, namespace `Gen.C07NonLeaf`)
  uses.  A scope tuple (a key of `self.assignments`) is its rank among the sorted keys; an input definition is what
  `update` reads of it: `output_ordinal_for` (scope ↦ ordinal of the input's group) and `values` (one per group).
  A value is `Option V`: `none` stands for python `None` / `Undefined`.  Import-free.
-/
namespace CogentModel.NonLeaf

/-- an input definition (`arg in self.args`) as `update` sees it -/
structure Arg (V : Type) where
  ord : Nat → Nat              -- `arg.output_ordinal_for(scope)`
  values : List (Option V)     -- `arg.values`

structure St (V : Type) where
  scopes : List Nat            -- the keys of `self.assignments` (sorted)
  asg : Nat → List Nat         -- `self.assignments`: scope ↦ tuple of input ordinals
  uniq : List (List Nat)       -- `self.uniq`
  index : Nat → Nat            -- `self.index`
  values : List (Option V)     -- `self.values`

def upd {α : Type} (f : Nat → α) (i : Nat) (v : α) : Nat → α := fun j => if j = i then v else f j

/-- one pass of the loop of `_indexed` -/
def indexedStep (asg : Nat → List Nat) (acc : List (List Nat) × (Nat → Nat)) (t : Nat) :
    List (List Nat) × (Nat → Nat) :=
  if acc.1.contains (asg t) then (acc.1, upd acc.2 t (acc.1.idxOf (asg t)))
  else (acc.1 ++ [asg t], upd acc.2 t acc.1.length)

/-- `_indexed(self.assignments)`: distinct values in order of first appearance, key ↦ position of its value -/
def indexed (scopes : List Nat) (asg : Nat → List Nat) : List (List Nat) × (Nat → Nat) :=
  scopes.foldl (indexedStep asg) ([], fun _ => 0)

/-- `nullor(name, f, recycled)(*args)`: `Undefined` when an argument is None / Undefined, else the calculation
(a recycling calc is handed `None` for the array to reuse; its result does not depend on it) -/
def nullor {V : Type} (f : List V → V) (args : List (Option V)) : Option V :=
  if args.all Option.isSome then some (f (args.filterMap id)) else none

/-- `[arg.output_ordinal_for(scope) for arg in self.args]` -/
def inputNums {V : Type} (args : List (Arg V)) (t : Nat) : List Nat := args.map (fun a => a.ord t)

/-- `[a.values[i] for (i, a) in zip(u, self.args)]` -/
def callArgs {V : Type} (args : List (Arg V)) (u : List Nat) : List (Option V) :=
  (u.zip args).map (fun p => (p.2.values[p.1]?).getD none)

/-- HAND MODEL of `_NonLeafDefn.update`: NOTHING of the previous mapping / grouping / values survives: every scope
is mapped to the CURRENT ordinals of its inputs, the groups are recomputed from that mapping and every group's
value is recalculated from the inputs' current values -/
def updateSpec {V : Type} (args : List (Arg V)) (f : List V → V) (self : St V) : St V :=
  let asg := fun t => if self.scopes.contains t then inputNums args t else self.asg t
  let ui := indexed self.scopes asg
  { scopes := self.scopes, asg := asg, uniq := ui.1, index := ui.2,
    values := ui.1.map (fun u => nullor f (callArgs args u)) }

namespace Prim

/-- iterating `self.assignments` -/
def keys {V : Type} (self : St V) : List Nat := self.scopes

/-- `dict(list(zip(self.valid_dimensions, scope_t)))`: the scope as a dimension ↦ value dict -/
def scopeDict {V : Type} (_self : St V) (scope_t : Nat) : Nat := scope_t

/-- `arg.output_ordinal_for(scope)` -/
def outputOrdinalFor {V : Type} (arg : Arg V) (scope : Nat) : Nat := arg.ord scope

/-- `tuple(xs)` -/
def pyTuple (xs : List Nat) : List Nat := xs

/-- `self.assignments[scope_t] = v` -/
def setAssignment {V : Type} (self : St V) (scope_t : Nat) (v : List Nat) : St V :=
  { self with asg := upd self.asg scope_t v }

/-- `self._update_from_assignments()`: `(self.uniq, self.index) = _indexed(self.assignments)` -/
def updateFromAssignments {V : Type} (self : St V) : St V :=
  { self with uniq := (indexed self.scopes self.asg).1, index := (indexed self.scopes self.asg).2 }

/-- `self.make_calc_function()` -/
def makeCalcFunction {V : Type} (f : List V → V) : List V → V := f

/-- `self.uniq` -/
def uniq {V : Type} (self : St V) : List (List Nat) := self.uniq

/-- `a.values[i]` -/
def argValue {V : Type} (a : Arg V) (i : Nat) : Option V := (a.values[i]?).getD none

/-- `nullor(self.name, calc, self.recycling)(*args)` -/
def nullorCall {V : Type} (calc_ : List V → V) (args : List (Option V)) : Option V := nullor calc_ args

/-- `self.values = vs` -/
def setValues {V : Type} (self : St V) (vs : List (Option V)) : St V := { self with values := vs }

end Prim
end CogentModel.NonLeaf
