import CogentModel.Model.Aln
import CogentModel.Model.SeqWrap
/-
  The same `Aligned` row with its data kept as the C01 sequence model (`SeqWrap.Seq`: parent
  string + slice record) instead of the displayed string: `Aligned.__getitem__(slice)` slices the
  `Sequence` (`self.data[seq_start:seq_end]`, `self.data[:0]`), `Aligned.rc` calls `self.data.rc()`.
  `Proofs/AlnViewSim.lean` shows that displaying the sequence turns this model into `Model/Aln.lean`.
-/
namespace CogentModel.Aln
open CogentModel.IndelMap

structure RowV where
  map : IMap
  seq : SeqWrap.Seq

/-- display the sequence: the row of `Model/Aln.lean` -/
def RowV.toRow (cf : Char → Char) (rv : RowV) : Row := ⟨rv.map, SeqWrap.str cf rv.seq⟩

/-- `span.stop or len(self)` -/
def stopOr (b : Option Int) (n : Int) : Int :=
  match b with | none => n | some x => if x = 0 then n else x

/-- `Aligned.__getitem__(slice(a, b))` with the data sliced as a `Sequence` -/
def rowSliceV (rv : RowV) (a b : Option Int) : Except Err RowV :=
  match getitem rv.map a b none with
  | .error e => .error e
  | .ok nm =>
    match getSeqIndex rv.map (a.getD 0), getSeqIndex rv.map (stopOr b (len rv.map)) with
    | .error e, _ => .error e
    | _, .error e => .error e
    | .ok s, .ok e =>
      if nm.parentLength ≠ 0 ∧ s > e then .error .runtimeError
      else
        match (if nm.parentLength ≠ 0 then SeqWrap.getitem rv.seq (some s) (some e) none
               else SeqWrap.getitem rv.seq none (some 0) none) with
        | .ok q => .ok ⟨nm, q⟩
        | .error _ => .error .runtimeError

/-- `Aligned.rc()` with `self.data.rc()` on the sequence model -/
def rowRcV (rv : RowV) : Except Err RowV :=
  match nucleicReversed rv.map with
  | .error e => .error e
  | .ok m => .ok ⟨m, SeqWrap.rc rv.seq⟩

/-- `rowRc` with an arbitrary complement function -/
def rowRcWith (cf : Char → Char) (r : Row) : Except Err Row :=
  match nucleicReversed r.map with
  | .error e => .error e
  | .ok m => .ok ⟨m, (r.data.reverse).map cf⟩

end CogentModel.Aln
