import CogentModel.Model.Prune
/-
  The likelihood tree as cogent3 actually stores and evaluates it
  (likelihood_tree.py: make_likelihood_tree_leaf, _LikelihoodTreeEdge.__init__, sum_input_likelihoods
  through `indexes`; likelihood_calculation.py: make_partial_likelihood_defns):
  every node keeps only its *unique* columns.  A leaf de-duplicates its motifs, an internal node
  de-duplicates the tuples of its children's unique-column numbers (`_indexed(zip(*[c.index ...]))`),
  `numpy.inner(child_plh, psub)` is applied to the child's whole table and the product over the
  children is taken through the index arrays.  (The extra all-gap column with count 0 that the
  implementation appends to every `uniq` never contributes and is not modelled.)  Import-free.
-/
namespace CogentModel.Prune

structure CNode (R : Type) where
  table : List (Vec R)     -- partial likelihoods of the unique columns (`plh` array, one row each)
  index : List Nat         -- alignment column ↦ unique column (`self.index`)
  uniq : List (List Nat)   -- `self.uniq`: per unique column the children's unique-column numbers (a leaf: its symbol)

section
variable {R α : Type} [Add R] [Mul R] [Zero R] [One R]

/-- `list(zip(*[c.index for c in children]))` for an alignment of `n` columns -/
def childTuples (n : Nat) (kids : List (CNode R)) : List (List Nat) :=
  (List.range n).map fun j => kids.map fun k => k.index.getD j 0

/-- one row of `sum_input_likelihoods`: the product over the children of their (already
`inner`-ed) row selected by `child_indexes` -/
def prodRow (m : Nat) : List (List (Vec R)) → List Nat → Vec R
  | u :: us, i :: is => mulVec m ((u[i]?).getD ⟨fun _ => 0⟩) (prodRow m us is)
  | _, _ => ⟨fun _ => 1⟩

mutual
/-- the compressed likelihood tree with its partial-likelihood tables; `seqs a` is the sequence of
leaf `a` as symbol numbers (one per alignment column), `symProf` the profile of a symbol -/
def cplh (m n : Nat) (seqs : α → List Nat) (symProf : Nat → Nat → R) : PTree R α → CNode R
  | .leaf _ a =>
    let ix := indexed (seqs a)
    { table := ix.uniq.map (fun sym => ⟨symProf sym⟩), index := ix.index, uniq := ix.uniq.map fun s => [s] }
  | .node _ cs =>
    let kids := cplhL m n seqs symProf cs
    let ix := indexed (childTuples n (kids.map (·.2)))
    let ups := kids.map fun k => k.2.table.map (upWith m k.1)
    { table := ix.uniq.map (prodRow m ups), index := ix.index, uniq := ix.uniq }
def cplhL (m n : Nat) (seqs : α → List Nat) (symProf : Nat → Nat → R) :
    List (PTree R α) → List (Mat R × CNode R)
  | [] => []
  | c :: cs => (c.mat, cplh m n seqs symProf c) :: cplhL m n seqs symProf cs
end

/-- root: `numpy.inner(plh, mprobs)` for every unique column, and `likelihoods[self.index]` -/
def clhFull (m n : Nat) (π : Nat → R) (seqs : α → List Nat) (symProf : Nat → Nat → R) (t : PTree R α) : List R :=
  let root := cplh m n seqs symProf t
  let lhs := root.table.map fun v => dot m v π
  root.index.map fun u => lhs.getD u 0

end
end CogentModel.Prune
