/-
  C15 (part 3) — model of cogent3.cluster.UPGMA (`find_smallest_index`, `condense_matrix`,
  `condense_node_order`, `UPGMA_cluster`) on exact rationals.  Import-free.
-/
import CogentModel.Model.NJ
namespace CogentModel.UPGMA
open CogentModel.NJ (Mat get tab)

/-- PhyloNode as built by `condense_node_order`: two children with their `length`s -/
inductive U where
  | tip (name : Nat)
  | node (c1 : U) (l1 : Rat) (c2 : U) (l2 : Rat)
  deriving Repr, Inhabited, DecidableEq

/-- an entry of `node_order`: the node, whether it has children, and `children[0].TipLength`
(the height at which the node was formed; never read for a tip) -/
structure Entry where
  tree : U
  isTip : Bool
  height : Rat
  deriving Repr, Inhabited

/-- `find_smallest_index`: `divmod(argmin(ravel(matrix)), n)`, numpy's argmin = first minimum -/
def findSmallest (m : Mat) (n : Nat) : Nat × Nat :=
  let best := (List.range (n * n)).foldl
    (fun (best : Nat) idx => if get m (idx / n) (idx % n) < get m (best / n) (best % n) then idx else best) 0
  (best / n, best % n)

/-- `new_vector = average(take(matrix, (i, j), 0), 0)` -/
def newVec (m : Mat) (i j b : Nat) : Rat := (get m i b + get m j b) / 2

/-- `condense_matrix`: `matrix[i] = new; matrix[:, i] = new; matrix[j] = large; matrix[:, j] = large` -/
def condenseMatrix (m : Mat) (n i j : Nat) (big : Rat) : Mat :=
  tab n fun a b =>
    if a = j ∨ b = j then big
    else if a = i then newVec m i j b
    else if b = i then newVec m i j a
    else get m a b

/-- `n.length = d - n.children[0].TipLength if n.children else d` -/
def branch (e : Entry) (d : Rat) : Rat := if e.isTip then d else d - e.height

/-- `condense_node_order` -/
def condenseNodes (m : Mat) (i j : Nat) (order : List (Option Entry)) : List (Option Entry) :=
  let d := get m i j / 2
  let e1 := (order.getD i none).getD default
  let e2 := (order.getD j none).getD default
  let new : Entry := { tree := .node e1.tree (branch e1 d) e2.tree (branch e2 d), isTip := false, height := d }
  (order.set i (some new)).set j none

/-- `matrix[diag([True] * len(matrix))] = large_number` -/
def resetDiag (m : Mat) (n : Nat) (big : Rat) : Mat := tab n fun a b => if a = b then big else get m a b

structure State where
  m : Mat
  order : List (Option Entry)
  tree : Option Entry
  deriving Repr

/-- the pair chosen in one pass: `find_smallest_index`, and if it lies on the diagonal the diagonal is
reset to `large_number` and the search repeated; returns the (possibly reset) matrix and the pair -/
def select (n : Nat) (big : Rat) (m : Mat) : Mat × (Nat × Nat) :=
  let s0 := findSmallest m n
  if s0.1 = s0.2 then (resetDiag m n big, findSmallest (resetDiag m n big) n) else (m, s0)

/-- `condense_node_order` then `condense_matrix` for the chosen pair -/
def stepWith (n : Nat) (big : Rat) (order : List (Option Entry)) (m1 : Mat) (s : Nat × Nat) : State :=
  { m := condenseMatrix m1 n s.1 s.2 big, order := condenseNodes m1 s.1 s.2 order,
    tree := (condenseNodes m1 s.1 s.2 order).getD s.1 none }

/-- one pass of the `for i in range(num_entries - 1)` loop of `UPGMA_cluster` -/
def step (n : Nat) (big : Rat) (st : State) : State :=
  stepWith n big st.order (select n big st.m).1 (select n big st.m).2

def iter (n : Nat) (big : Rat) : Nat → State → State
  | 0, st => st
  | k + 1, st => iter n big k (step n big st)

/-- `upgma`: `matrix + eye * BIG`, tips in key order, then `UPGMA_cluster` -/
def upgma (n : Nat) (d : Mat) (big : Rat) : Option U :=
  let m0 := tab n fun a b => if a = b then get d a b + big else get d a b
  let order := (List.range n).map fun a => some ({ tree := .tip a, isTip := true, height := 0 } : Entry)
  ((iter n big (n - 1) { m := m0, order := order, tree := none }).tree).map (·.tree)

/-- (tip, distance from the root of this subtree) -/
def U.depths : U → List (Nat × Rat)
  | .tip x => [(x, 0)]
  | .node c1 l1 c2 l2 => (c1.depths.map fun p => (p.1, p.2 + l1)) ++ (c2.depths.map fun p => (p.1, p.2 + l2))

/-! ### a computable certificate (evaluated by the driver on every instance) -/

def liveB (order : List (Option Entry)) (a : Nat) : Bool := (order.getD a none).isSome

/-- decidable form of "the selected pair is a pair of distinct live clusters at minimal live distance" -/
def goodSelB (n : Nat) (big : Rat) (st : State) : Bool :=
  liveB st.order (select n big st.m).2.1 && liveB st.order (select n big st.m).2.2 &&
  decide ((select n big st.m).2.1 ≠ (select n big st.m).2.2) &&
  (List.range n).all fun a => (List.range n).all fun b =>
    !(liveB st.order a && liveB st.order b && decide (a ≠ b)) ||
    decide (get (select n big st.m).1 (select n big st.m).2.1 (select n big st.m).2.2 ≤ get (select n big st.m).1 a b)

/-- the check holds at each of the next `k` passes -/
def allGood (n : Nat) (big : Rat) : Nat → State → Bool
  | 0, _ => true
  | k + 1, st => goodSelB n big st && allGood n big k (step n big st)

/-- the state `upgma` starts from -/
def init (n : Nat) (d : Mat) (big : Rat) : State :=
  { m := tab n fun a b => if a = b then get d a b + big else get d a b,
    order := (List.range n).map fun a => some ({ tree := .tip a, isTip := true, height := 0 } : Entry),
    tree := none }

def upgmaCertified (n : Nat) (d : Mat) (big : Rat) : Bool := allGood n big (n - 1) (init n d big)

end CogentModel.UPGMA
