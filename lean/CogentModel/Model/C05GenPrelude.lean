/-
  C05 — semantic domain of the TRANSLATED decision logic (`Gen/C05Inst.lean`, written on every run by
  `translator/c05_inst2lean.py` from the current source of
     evolve/substitution_model.py     _ContinuousSubstitutionModel._is_instantaneous / _is_any_indel,
                                      _Codon._is_instantaneous, the class constants long_indels_are_instantaneous
     evolve/substitution_calculation.py  ExpDefn.calc, _EigenPade.__call__).

  Motifs are lists of character codes (`List Nat`); Python `None`-able ints are `Option Nat`.
  Only the meaning of the Python *primitives* the translator emits is defined here.  No imports.
-/
namespace CogentModel.C05Gen

/-- `sum([f(X, Y) for (X, Y) in zip(x, y)])` for a boolean `f` -/
def countZip (f : Nat → Nat → Bool) : List Nat → List Nat → Nat
  | x :: xs, y :: ys => (if f x y then 1 else 0) + countZip f xs ys
  | _, _ => 0

/-- `[a, b].index(g)`; 2 stands for the `ValueError` (not reachable in the translated code: the call is guarded) -/
def index2 (a b g : Nat) : Nat := if a = g then 0 else if b = g then 1 else 2

/-- the code no motif character has: value of `s[i]` beyond the end of `s` (an `IndexError` in Python) -/
def noChar : Nat := 1000003

/-- `s[i]` -/
def charAt (s : List Nat) (i : Nat) : Nat := s.getD i noChar

/-- the exponentiator constructors `ExpDefn.calc` can return -/
inductive Backend
  | pade                          -- PadeExponentiator
  | fast                          -- FastExponentiator (unchecked eigen)
  | checked                       -- CheckedExponentiator (eigen + reconstruction test)
  | eigenPade (eigen : Backend)   -- _EigenPade(eigen=…)
  deriving DecidableEq, Repr

/-- exception classes that matter to `_EigenPade.__call__` -/
inductive ErrKind
  | arithmetic   -- ArithmeticError and its subclasses (FloatingPointError, OverflowError, ZeroDivisionError)
  | linalg       -- numpy.linalg.LinAlgError
  | other        -- anything else
  deriving DecidableEq, Repr

/-- `try: return eigen(Q)  except <caught>: return fallback(Q)` -/
def tryExcept {E : Type} (caught : List ErrKind) (body : Except ErrKind E) (handler : Except ErrKind E) : Except ErrKind E :=
  match body with
  | .ok r => .ok r
  | .error k => if caught.contains k then handler else .error k

/-! ## hand model of the selection (what the property needs; `Gen.C05Inst.expSelect` is proved equal to it) -/

/-- `ExpDefn.calc`: the exponentiator constructor for an `expm` setting (`none` = `KeyError`) -/
def backendTable : List (String × Backend) :=
  [("eigen", .fast), ("checked", .checked), ("pade", .pade), ("either", .eigenPade .checked)]

def backendFor (expm : String) : Option Backend := backendTable.lookup expm

/-- what calling a back-end constructor on `Q` gives, given the outcome of each primitive constructor on that `Q`:
`fast` / `checked` may raise, Pade's constructor never does -/
def runBackend {E : Type} (fast checked : Except ErrKind E) (pade : E) : Backend → Except ErrKind E
  | .pade => .ok pade
  | .fast => fast
  | .checked => checked
  | .eigenPade e =>
    match runBackend fast checked pade e with
    | .ok r => .ok r
    | .error k => if k = .arithmetic ∨ k = .linalg then .ok pade else .error k

end CogentModel.C05Gen
