/-
  C07 — model of the scoped settings of ONE scalar parameter over the edges of a tree
  (`recalculation/scope.py` `_LeafDefn.assign_all`, `interpret_scopes`, `get_current_bounds`,
  `get_mean_current_value`; `evolve/parameter_controller.py` `set_param_rule` / `apply_param_rules`;
  `recalculation/definition.py` `_InputDefn.get_param_rules`, `setting.py` `get_param_rule_dict`).

  Setting objects have identity (`self.assignments[scope_t] = setting`; `uniq` / the number of free
  parameters count distinct objects): a state maps every edge to the id of its setting object and
  ids to settings; every `assign_all` scope gets a fresh id.  Values are exact rationals.
  Import-free.
-/
namespace CogentModel.Rules

inductive Setting where
  | const (v : Rat)                 -- ConstVal
  | var (lo v hi : Rat)             -- Var((lower, value, upper))
  deriving DecidableEq, Repr, Inhabited

def Setting.value : Setting → Rat
  | .const v => v
  | .var _ v _ => v

def Setting.isVar : Setting → Bool
  | .var _ _ _ => true
  | .const _ => false

/-- the parameter definition: number of edges, class defaults, `independent_by_default` -/
structure Defn where
  nEdges : Nat
  dLo : Rat
  dVal : Rat
  dHi : Rat
  indepDefault : Bool

structure St where
  asg : Nat → Nat            -- edge ↦ id of its setting object (`self.assignments`)
  store : Nat → Setting      -- id ↦ setting
  next : Nat                 -- next fresh id

def upd {α : Type} (f : Nat → α) (i : Nat) (v : α) : Nat → α := fun j => if j = i then v else f j

def St.setting (s : St) (e : Nat) : Setting := s.store (s.asg e)

/-- a newly built function: one shared default Var, or one per edge when `independent_by_default` -/
def fresh (d : Defn) : St :=
  if d.indepDefault then
    { asg := fun e => e, store := fun _ => .var d.dLo d.dVal d.dHi, next := d.nEdges }
  else
    { asg := fun _ => 0, store := fun _ => .var d.dLo d.dVal d.dHi, next := 1 }

/-- `interpret_scope`: the selected edges (an empty / missing edge list means every edge) -/
def selected (d : Defn) (edges : Option (List Nat)) : List Nat :=
  match edges with
  | none => List.range d.nEdges
  | some es => if es.isEmpty then List.range d.nEdges else (List.range d.nEdges).filter (fun e => es.contains e)

/-- `interpret_scopes`: one scope per edge when independent, else one scope with all of them -/
def scopes (d : Defn) (edges : Option (List Nat)) (independent : Bool) : List (List Nat) :=
  if independent then (selected d edges).map (fun e => [e])
  else if (selected d edges).isEmpty then [] else [selected d edges]

/-- `get_current_bounds` -/
def curBounds (d : Defn) (s : St) (scope : List Nat) : Rat × Rat :=
  let bs := scope.filterMap (fun e =>
    match s.setting e with
    | .var lo _ hi => if hi = lo then none else some (lo, hi)
    | .const _ => none)
  match bs with
  | [] => (d.dLo, d.dHi)
  | b :: rest => rest.foldl (fun acc x => (min acc.1 x.1, max acc.2 x.2)) b

/-- `get_mean_current_value` -/
def meanValue (s : St) (scope : List Nat) : Rat :=
  match scope with
  | [e] => (s.setting e).value
  | _ => (scope.foldl (fun acc e => acc + (s.setting e).value) 0) / (scope.length : Rat)

/-- the bounds test and the two clamps of `assign_all` -/
def clampVar (lo v hi : Rat) : Except String Setting :=
  if hi < lo then .error "ValueError"
  else if v < lo then .ok (.var lo lo hi)
  else if hi < v then .ok (.var lo hi hi)
  else .ok (.var lo v hi)

def orElse (o : Option Rat) (dflt : Rat) : Rat :=
  match o with
  | some v => v
  | none => dflt

/-- the body of the `for scope in ...` loop of `assign_all` -/
def mkSetting (d : Defn) (s : St) (scope : List Nat) (value lower upper : Option Rat) (const : Bool) :
    Except String Setting :=
  if const then .ok (.const (orElse value (meanValue s scope)))
  else clampVar (orElse lower (curBounds d s scope).1) (orElse value (meanValue s scope))
        (orElse upper (curBounds d s scope).2)

/-- `for scope, setting in settings: for scope_t in scope: self.assignments[scope_t] = setting` -/
def assignScopes (s : St) : List (List Nat × Setting) → St
  | [] => s
  | (sc, σ) :: rest =>
    assignScopes
      { asg := fun e => if sc.contains e then s.next else s.asg e, store := upd s.store s.next σ, next := s.next + 1 }
      rest

def mkSettings (d : Defn) (s : St) (value lower upper : Option Rat) (const : Bool) :
    List (List Nat) → Except String (List (List Nat × Setting))
  | [] => .ok []
  | sc :: rest =>
    match mkSetting d s sc value lower upper const with
    | .error e => .error e
    | .ok σ =>
      match mkSettings d s value lower upper const rest with
      | .error e => .error e
      | .ok l => .ok ((sc, σ) :: l)

/-- some edge name occurs more than once in the list -/
def hasDup : List Nat → Bool
  | [] => false
  | a :: as => as.contains a || hasDup as

/-- `interpret_scope` raises `InvalidScopeError(unused)`: `unused[d] = kw[d][:]` loses ONE occurrence of
an edge name per matching scope, so what is left over is every name that is not in the tree and
every repeated occurrence of a name (`edges=['Cat','Cat']` raises, replayed on the real code) -/
def badEdges (d : Defn) (edges : Option (List Nat)) : Bool :=
  match edges with
  | some es => es.any (fun e => decide (d.nEdges ≤ e)) || hasDup es
  | none => false

/-- `if independent is None: independent = self.independent_by_default` -/
def indepOf (d : Defn) (o : Option Bool) : Bool :=
  match o with
  | some b => b
  | none => d.indepDefault

/-- `_LeafDefn.assign_all` -/
def assignAll (d : Defn) (s : St) (edges : Option (List Nat)) (value lower upper : Option Rat)
    (const independent : Bool) : Except String St :=
  if badEdges d edges then .error "InvalidScopeError"
  else
    match mkSettings d s value lower upper const (scopes d edges independent) with
    | .error e => .error e
    | .ok l => .ok (assignScopes s l)

structure RuleArgs where
  edges : Option (List Nat)
  isIndependent : Option Bool
  isConstant : Bool
  value : Option Rat
  init : Option Rat
  lower : Option Rat
  upper : Option Rat

/-- python truthiness of an optional number -/
def truthy : Option Rat → Bool
  | some v => v != 0
  | none => false

/-- `ParameterController.set_param_rule` -/
def setRule (d : Defn) (s : St) (r : RuleArgs) : Except String St :=
  if r.isConstant && (truthy r.init || truthy r.lower || truthy r.upper) then .error "AssertionError"
  else if !r.isConstant && r.init.isSome && truthy r.value then .error "AssertionError"
  else
    assignAll d s r.edges
      (if r.isConstant then r.value else match r.init with
        | some i => some i
        | none => r.value)
      r.lower r.upper r.isConstant (indepOf d r.isIndependent)

/-- `apply_param_rules` (the rules of this parameter, in order) -/
def applyRules (d : Defn) : St → List RuleArgs → Except String St
  | s, [] => .ok s
  | s, r :: rs =>
    match setRule d s r with
    | .error e => .error e
    | .ok s' => applyRules d s' rs

/-! ### export (`get_param_rules`) -/

/-- edge `e` is the first edge holding its setting object -/
def isFirst (s : St) (e : Nat) : Bool := (List.range e).all (fun e' => s.asg e' != s.asg e)

/-- the edges sharing `e`'s setting object -/
def group (d : Defn) (s : St) (e : Nat) : List Nat := (List.range d.nEdges).filter (fun e' => s.asg e' == s.asg e)

/-- number of distinct setting objects in use (`len(scoped)`) -/
def nGroups (d : Defn) (s : St) : Nat := ((List.range d.nEdges).filter (isFirst s)).length

def ruleOf (d : Defn) (s : St) (e : Nat) : RuleArgs :=
  let g := group d s e
  { edges := if nGroups d s = 1 then none else some g
    isIndependent := if d.indepDefault && decide (2 ≤ g.length) then some false else none
    isConstant := !(s.setting e).isVar
    value := match s.setting e with
      | .const v => some v
      | .var _ _ _ => none
    init := match s.setting e with
      | .const _ => none
      | .var _ v _ => some v
    lower := match s.setting e with
      | .const _ => none
      | .var lo _ _ => some lo
    upper := match s.setting e with
      | .const _ => none
      | .var _ _ hi => some hi }

/-- `get_param_rules`: one rule per setting object, in order of first appearance -/
def exportRules (d : Defn) (s : St) : List RuleArgs :=
  ((List.range d.nEdges).filter (isFirst s)).map (ruleOf d s)

/-- `get_num_free_params`: distinct setting objects in use that are Vars -/
def nfp (d : Defn) (s : St) : Nat :=
  ((List.range d.nEdges).filter (fun e => isFirst s e && (s.setting e).isVar)).length

end CogentModel.Rules
