import CogentModel.Model.SeqFormats
/-
  C06 — model of the GenBank location machinery shared by `minimal_parser` and `rich_parser`
  (parse/genbank.py: `location_line_tokenizer`, `parse_simple_location_segment`, `parse_location_line`,
  `Location.start/stop`, `LocationList.get_coordinates / strand`), and of the record frame of
  `iter_genbank_records` (split on "\n//", "\nORIGIN", LOCUS name, sequence conversion). Import free.
-/
namespace CogentModel.GenBank
open CogentModel.SeqFormats

/-- one parsed `Location`: 1-based inclusive `first..second` as written, and its strand -/
structure Span where
  first : Int
  second : Int
  strand : Int
  deriving DecidableEq, Repr

/-- `location_line_tokenizer` on the joined, stripped text -/
def tokGo : Str → Str → List Str
  | curr, [] => if curr.isEmpty then [] else [strip curr]
  | curr, c :: cs =>
    if c = '(' then (strip curr ++ ['(']) :: tokGo [] cs
    else if c = ')' then (if curr.isEmpty then [] else [strip curr]) ++ [')'] :: tokGo [] cs
    else if c = ',' then (if curr.isEmpty then [] else [strip curr]) ++ [','] :: tokGo [] cs
    else tokGo (curr ++ [c]) cs

def tokenize (text : Str) : List Str := tokGo [] text

/-- `str.split("..")` -/
def splitDotDot : Str → List Str
  | [] => [[]]
  | [c] => [[c]]
  | c :: d :: cs =>
    if c = '.' ∧ d = '.' then [] :: splitDotDot cs
    else CogentModel.Splitlines.consHead c (splitDotDot (d :: cs))

/-- `first[0].isdigit()` else the first character is an ambiguity marker that is cut off; then `int(...)` -/
def parseEnd (s : Str) : Except Err Int :=
  match s with
  | [] => .error .indexError
  | c :: r => if isDigit c then pyInt (c :: r) else pyInt r

/-- `parse_simple_location_segment`: `a..b` or `a` (with optional `<` / `>`); strand +1 -/
def parseSegment (seg : Str) : Except Err Span :=
  match splitDotDot seg with
  | [one] => do
    let a ← parseEnd one
    pure ⟨a, a, 1⟩
  | [x, y] => do
    let a ← parseEnd x
    let b ← parseEnd y
    pure ⟨a, b, 1⟩
  | _ => .error .valueError

def kwComplement : Str := ['c', 'o', 'm', 'p', 'l', 'e', 'm', 'e', 'n', 't', '(']

/-- `parse_location_line`: a stack of open frames (keyword, children so far); the bottom frame is the result list.
`")"`: for `complement(` reverse the children and flip their strands, then splice them into the parent. -/
def locGo : List (Str × List Span) → List Str → Except Err (List Span)
  | [(_, out)], [] => .ok out
  | _, [] => .error .valueError                     -- unbalanced: the real code returns a malformed nested list
  | frames, t :: ts =>
    if t.getLast? = some '(' then locGo ((t, []) :: frames) ts
    else if t = [','] then locGo frames ts
    else if t = [')'] then
      match frames with
      | (kw, children) :: (pkw, pch) :: rest =>
        let ch := if kw = kwComplement then children.reverse.map (fun s => { s with strand := -s.strand })
                  else children
        locGo ((pkw, pch ++ ch) :: rest) ts
      | _ => .error .valueError
    else match parseSegment t with
      | .error e => .error e
      | .ok s =>
        match frames with
        | (kw, ch) :: rest => locGo ((kw, ch ++ [s]) :: rest) ts
        | [] => .error .valueError

def parseLocation (text : Str) : Except Err (List Span) := locGo [([], [])] (tokenize text)

/-- `Location.start`, `Location.stop + 1` of every part, in list order: what `minimal_parser` exposes -/
def pyCoords (l : List Span) : List (Int × Int) := l.map (fun s => (s.first - 1, s.second))

/-- insertion sort = `sorted(...)` on pairs of ints -/
def insertPair (p : Int × Int) : List (Int × Int) → List (Int × Int)
  | [] => [p]
  | q :: qs => if p.1 < q.1 ∨ (p.1 = q.1 ∧ p.2 ≤ q.2) then p :: q :: qs else q :: insertPair p qs
def sortPairs : List (Int × Int) → List (Int × Int)
  | [] => []
  | p :: ps => insertPair p (sortPairs ps)

/-- `LocationList.get_coordinates()`: what `rich_parser` stores as the spans of the feature -/
def getCoordinates (l : List Span) : List (Int × Int) := sortPairs (pyCoords l)

/-- `LocationList.strand`: 0 if parts of both strands, else the common strand (`KeyError`/IndexError on empty) -/
def listStrand (l : List Span) : Except Err Int :=
  match l with
  | [] => .error .indexError
  | s :: rest => .ok (if rest.all (fun t => t.strand = s.strand) then s.strand else 0)

/-! record frame of `iter_genbank_records(bytes)` -/

def sepOrigin : Str := ['\n', 'O', 'R', 'I', 'G', 'I', 'N']
def sepRecord : Str := ['\n', '/', '/']

/-- `bytes.split(sep)` for a non-empty separator -/
def splitSub (sep : Str) : Nat → Str → Str → List Str
  | 0, cur, rest => [cur ++ rest]
  | _ + 1, cur, [] => [cur]
  | fuel + 1, cur, c :: cs =>
    if sep.isPrefixOf (c :: cs) then cur :: splitSub sep fuel [] ((c :: cs).drop sep.length)
    else splitSub sep fuel (cur ++ [c]) cs

def splitOnSub (sep s : Str) : List Str := splitSub sep (s.length + 1) [] s

/-- `_seq_converter`: upper-case, delete `b"\n\r\t 0123456789"` -/
def convertSeq (s : Str) : Str :=
  upper (s.filter (fun c => !(c = '\n' || c = '\r' || c = '\t' || c = ' ' || isDigit c)))

/-- one record: `features, seq = record.split(b"\nORIGIN")`; `locus = first_line.split()[1]` -/
def gbRecord (record : Str) : Except Err (Str × Str) :=
  match splitOnSub sepOrigin record with
  | [features, seq] =>
    -- `features[: features.find(b"\n")]`: find = -1 without a newline, i.e. the last byte is cut off
    let line := if features.contains '\n' then features.takeWhile (· ≠ '\n') else features.dropLast
    match splitWs line with
    | _ :: locus :: _ => .ok (locus, convertSeq seq)
    | _ => .error .indexError
  | _ => .error .valueError

/-- `iter_genbank_records(bytes)` reduced to (locus, sequence): `data.split(b"\n//")`, `record.lstrip()`, skip empty -/
def gbRecords (text : Str) : Except Err (List (Str × Str)) :=
  ((splitOnSub sepRecord text).map (fun r => r.dropWhile isSpaceBytes)).filter (fun r => !r.isEmpty)
    |>.mapM gbRecord

end CogentModel.GenBank
