import CogentModel.Model.Registry
/-! C10 (wave 2): string primitives for the translated `_get_class` of util/deserialise.py (Gen/C10GetClass.lean). Import-free. -/
namespace CogentModel.Registry

/-- `s.rfind(c)` for a one-character `c`: index of the last occurrence, -1 if there is none -/
def rfindChar (c : Char) (s : Str) : Int :=
  match s.reverse.findIdx? (· == c) with
  | none => -1
  | some i => (s.length : Int) - 1 - i

/-- a slice bound normalised as CPython does for step 1 (`PySlice_AdjustIndices`) -/
def normIdx (s : Str) (i : Int) : Nat :=
  if i < 0 then (max ((s.length : Int) + i) 0).toNat else (min i s.length).toNat

/-- `s[i:]` -/
def sliceFrom (s : Str) (i : Int) : Str := s.drop (normIdx s i)
/-- `s[:i]` -/
def sliceTo (s : Str) (i : Int) : Str := s.take (normIdx s i)

end CogentModel.Registry
