/-
  Hand-written mirror of the slice-record arithmetic of
  `cogent3/core/sequence.py` and `cogent3/core/new_sequence.py`
  (`_input_vals_pos_step`, `_input_vals_neg_step`, `SliceRecordABC`, `SeqView`).
  The two Python modules carry the same code (their ASTs are compared by the
  harness on every run), so there is one model; the correspondence check runs
  it against both implementations.

  Python `int` = Lean `Int`; `//` = `Int.fdiv`; `%` = `Int.fmod`.
  The model mirrors the *case analysis of the code*, not Python's slicing
  semantics: that is `Spec/PySlice.lean`.
-/
namespace CogentModel.View

inductive Err where
  | valueError | indexError | assertionError
  deriving DecidableEq, Repr, Inhabited

structure View where
  start : Int
  stop : Int
  step : Int
  offset : Int
  seqLen : Int
  deriving DecidableEq, Repr, Inhabited

@[inline] def pyabs (x : Int) : Int := if x < 0 then -x else x

/-- `_input_vals_pos_step(seqlen, start, stop, step)` -/
def inputValsPos (seqlen : Int) (start stop : Option Int) (step : Int) : Int × Int × Int :=
  let start := match start with | none => 0 | some s => s
  if start > 0 ∧ start ≥ seqlen then (0, 0, 1) else
  let stop := match stop with | none => seqlen | some s => s
  if stop < 0 ∧ pyabs stop ≥ seqlen then (0, 0, 1) else
  let start := if start < 0 then max (seqlen + start) 0 else start
  let stop := if stop > 0 then min seqlen stop else if stop < 0 then stop + seqlen else stop
  if start ≥ stop then (0, 0, 1) else (start, stop, step)

/-- the part of `_input_vals_neg_step` after `start` has been normalised -/
def inputValsNegTail (seqlen start : Int) (stop : Option Int) (step : Int) : Int × Int × Int :=
  let stop := match stop with
    | none => -seqlen - 1
    | some s => if s ≥ 0 then s - seqlen else s
  let stop := max stop (-seqlen - 1)
  if start < stop then (0, 0, 1) else (start, stop, step)

/-- `_input_vals_neg_step(seqlen, start, stop, step)`: the first if/elif/elif chain
normalises `start` (or returns early), then the tail runs. -/
def inputValsNeg (seqlen : Int) (start stop : Option Int) (step : Int) : Int × Int × Int :=
  match start with
  | none => inputValsNegTail seqlen (-1) stop step
  | some s =>
    if s ≥ seqlen then inputValsNegTail seqlen (-1) stop step
    else if s ≥ 0 then inputValsNegTail seqlen (s - seqlen) stop step
    else if s < -seqlen then (0, 0, 1)
    else inputValsNegTail seqlen s stop step

/-- `SeqView.__init__` (the arithmetic part): `step == 0` raises `ValueError`,
`step is None` means 1, then the start/stop/step normalisation. -/
def mk (seqLen : Int) (start stop step : Option Int) (offset : Int) : Except Err View :=
  if step = some 0 then .error .valueError else
  let step := step.getD 1
  let r := if step > 0 then inputValsPos seqLen start stop step else inputValsNeg seqLen start stop step
  .ok { start := r.1, stop := r.2.1, step := r.2.2, offset := offset, seqLen := seqLen }

/-- `SeqView._zero_slice`: `self.__class__(seq="")` -/
def zeroSlice : View := { start := 0, stop := 0, step := 1, offset := 0, seqLen := 0 }

/-- `SeqDataView._zero_slice`: same parent, `start=0, stop=0`, offset not passed (0). -/
def zeroSliceData (v : View) : View := { start := 0, stop := 0, step := 1, offset := 0, seqLen := v.seqLen }

def isReversed (v : View) : Bool := v.step < 0

/-- `__len__`: `abs((self.start - self.stop) // self.step)` -/
def len (v : View) : Int := pyabs (Int.fdiv (v.start - v.stop) v.step)

/-- `parent_start` (asserts `stop < 0` on reversed views) -/
def parentStart (v : View) : Except Err Int :=
  if v.step < 0 then
    if v.stop < 0 then .ok (v.offset + (v.stop + v.seqLen + 1)) else .error .assertionError
  else .ok (v.offset + v.start)

/-- `parent_stop` (asserts `start < 0` on reversed views) -/
def parentStop (v : View) : Except Err Int :=
  if v.step < 0 then
    if v.start < 0 then .ok (v.offset + (v.start + v.seqLen + 1)) else .error .assertionError
  else .ok (v.offset + v.stop)

/-- `_get_index(val, include_boundary)` -/
def getIndex (v : View) (val : Int) (includeBoundary : Bool := false) : Except Err (Int × Int × Int) :=
  let n := len v
  if n = 0 then .error .indexError
  else if val > 0 ∧ includeBoundary ∧ val > n then .error .indexError
  else if val > 0 ∧ ¬ includeBoundary ∧ val ≥ n then .error .indexError
  else if val < 0 ∧ includeBoundary ∧ pyabs val > n + 1 then .error .indexError
  else if val < 0 ∧ ¬ includeBoundary ∧ pyabs val > n then .error .indexError
  else if v.step > 0 then
    let val := if val ≥ 0 then v.start + val * v.step
               else v.start + n * v.step + val * pyabs v.step
    .ok (val, val + 1, 1)
  else
    -- `elif self.step < 0` (step is never 0)
    let val := if val ≥ 0 then v.start + val * v.step
               else v.start + n * v.step + val * v.step
    .ok (val, val - 1, -1)

/-- `absolute_position(rel_index, include_boundary)` -/
def absolutePosition (v : View) (rel : Int) (includeBoundary : Bool := false) : Except Err Int :=
  if len v = 0 then .ok 0
  else if rel < 0 then .error .indexError
  else do
    let (seqIndex, _, _) ← getIndex v rel includeBoundary
    if v.step < 0 then pure (v.offset + v.seqLen + seqIndex + 1)
    else pure (v.offset + seqIndex)

/-- `relative_position(abs_index, stop)` -/
def relativePosition (v : View) (absIndex : Int) (stop : Bool := false) : Except Err Int :=
  if len v = 0 then .ok 0
  else if absIndex < 0 then .error .indexError
  else if v.step < 0 then
    let tmp := v.seqLen - absIndex + v.offset + v.start + 1
    if Int.fmod tmp v.step = 0 ∨ stop then .ok (Int.fdiv tmp (pyabs v.step))
    else .ok (Int.fdiv tmp (pyabs v.step) + 1)
  else
    let offset := v.offset + v.start
    let tmp := absIndex - offset
    if Int.fmod tmp v.step = 0 ∨ stop then .ok (Int.fdiv tmp v.step)
    else .ok (Int.fdiv tmp v.step + 1)

/-- which `_zero_slice` flavour the class uses -/
inductive Flavour where
  | seqView      -- core/sequence.py, core/new_sequence.py `SeqView`
  | seqDataView  -- core/new_alignment.py `SeqDataView`
  deriving DecidableEq, Repr

def zero (fl : Flavour) (v : View) : View :=
  match fl with
  | .seqView => zeroSlice
  | .seqDataView => zeroSliceData v

/-- re-construction through `self.__class__(start=…, stop=…, step=…, offset=self.offset, seq_len=self.seq_len, …)`;
the step passed is never 0 here because both factors are non-zero, but the constructor check is kept. -/
def remk (v : View) (start stop step : Int) : Except Err View :=
  mk v.seqLen (some start) (some stop) (some step) v.offset

def fwdFromFwd (fl : Flavour) (v : View) (sliceStart sliceStop step : Int) : Except Err View :=
  let n := len v
  let start :=
    if sliceStart ≥ 0 then v.start + sliceStart * v.step
    else max (v.start + n * v.step + sliceStart * v.step) v.start
  let stop :=
    if sliceStop > v.stop then v.stop
    else if sliceStop ≥ 0 then v.start + sliceStop * v.step
    else v.start + n * v.step + sliceStop * v.step
  if start < 0 ∨ stop < 0 then .ok (zero fl v)
  else if stop < start then .ok (zero fl v)
  else if start > v.seqLen then .ok (zero fl v)
  else remk v start (min v.stop stop) (v.step * step)

def fwdFromRev (fl : Flavour) (v : View) (sliceStart sliceStop step : Int) : Except Err View :=
  let n := len v
  let start :=
    if sliceStart ≥ 0 then v.start + sliceStart * v.step
    else if pyabs sliceStart > n then v.start
    else v.start + n * v.step + sliceStart * v.step
  let stop :=
    if sliceStop ≥ 0 then v.start + sliceStop * v.step
    else v.start + n * v.step + sliceStop * v.step
  if start ≥ 0 ∨ stop ≥ 0 then .ok (zero fl v)
  else remk v start (max v.stop stop) (v.step * step)

def revFromFwd (fl : Flavour) (v : View) (sliceStart sliceStop step : Int) : Except Err View :=
  let n := len v
  let start :=
    if sliceStart ≥ n then (v.start + n * v.step - v.step) - v.seqLen
    else if sliceStart ≥ 0 then (v.start + sliceStart * v.step) - v.seqLen
    else v.start + n * v.step + sliceStart * v.step - v.seqLen
  if sliceStop ≥ v.seqLen then .ok (zero fl v) else
  let stop :=
    if sliceStop ≥ 0 then v.start + (sliceStop * v.step) - v.seqLen
    else v.start + (n * v.step) + (sliceStop * v.step) - v.seqLen
  if start ≥ 0 ∨ stop ≥ 0 then .ok (zero fl v)
  else remk v start (max stop (v.start - v.seqLen - 1)) (v.step * step)

/-- tail of `_get_reverse_slice_from_reverse_seqview_` once `start` and `stop` are known -/
def revFromRevTail (fl : Flavour) (v : View) (start stop step : Int) : Except Err View :=
  if stop < start ∨ start > v.seqLen ∨ min start stop < 0 then .ok (zero fl v)
  else remk v start stop (v.step * step)

def revFromRev (fl : Flavour) (v : View) (sliceStart sliceStop step : Int) : Except Err View :=
  let n := len v
  let start :=
    if sliceStart ≥ n then v.seqLen + v.start + n * v.step + pyabs v.step
    else if sliceStart ≥ 0 then v.seqLen + (v.start + sliceStart * v.step)
    else v.seqLen + (v.start + n * v.step + sliceStart * v.step)
  if sliceStop ≥ 0 then
    let stop := v.seqLen + (v.start + sliceStop * v.step)
    if stop ≤ v.seqLen + v.stop then .ok (zero fl v)   -- early return
    else revFromRevTail fl v start stop step
  else
    let stop := v.seqLen + (v.start + n * v.step + sliceStop * v.step)
    let stop := if stop > v.seqLen + v.start then v.seqLen + v.start + 1 else stop
    revFromRevTail fl v start stop step

/-- `__getitem__` with a slice `segStart:segStop:segStep` -/
def getitemSlice (fl : Flavour) (v : View) (segStart segStop segStep : Option Int) : Except Err View :=
  -- `segment.start is segment.stop is segment.step is None` -> self.copy():
  -- `SeqView.copy()` goes back through the constructor, `SeqDataView.copy()` returns self
  if segStart = none ∧ segStop = none ∧ segStep = none then
    (match fl with
     | .seqView => remk v v.start v.stop v.step
     | .seqDataView => .ok v)
  else if len v = 0 then .ok v
  else if segStart ≠ none ∧ segStart = segStop then .ok (zero fl v)
  else
    let sliceStep := segStep.getD 1
    if sliceStep > 0 then
      let sliceStart := segStart.getD 0
      let sliceStop := segStop.getD (len v)
      if v.step > 0 then fwdFromFwd fl v sliceStart sliceStop sliceStep
      else fwdFromRev fl v sliceStart sliceStop sliceStep
    else if sliceStep < 0 then
      let sliceStart := segStart.getD (-1)
      let sliceStop := segStop.getD (-(len v) - 1)
      if v.step < 0 then revFromRev fl v sliceStart sliceStop sliceStep
      else revFromFwd fl v sliceStart sliceStop sliceStep
    else .error .valueError

/-- `__getitem__` with an int -/
def getitemInt (v : View) (i : Int) : Except Err View := do
  let (a, b, c) ← getIndex v i
  remk v a b c

/-- bounds used by `SeqView.to_rich_dict` when it truncates the parent:
`self.seq[start:stop]` with `start, stop` as computed here. -/
def richDictBounds (v : View) : Int × Int :=
  if v.step < 0 then (v.stop + (v.seqLen + 1), v.start + (v.seqLen + 1)) else (v.start, v.stop)

end CogentModel.View
