/-
  Whole operation histories over a register of annotation dbs: the machine the `ops` command of
  `Driver/C17.lean` runs (one `stepOp` per python call of the history) and, next to it, the spec of
  what every db of the register should hold — plain record lists, written from the property text
  ("union, update, subset, copying preserve the multiset of records").

  Mirrors `core/annotation_db.py`: `add_feature` l.669-709, `update` l.1040, `union` l.1054,
  `_update_db_from_other_db` (`if other_db == self: return`) l.1128, `subset` l.1170, `__deepcopy__`.
-/
import CogentModel.Model.AnnotDb
import CogentModel.Model.AnnotDbRoundTrip
import CogentModel.Spec.AnnotDb
namespace CogentModel.AnnotDb

/-- one python call of a history; dbs are named by their position in the register -/
inductive Op where
  | new (k : Kind)                                   -- `cls()`: appended to the register
  | add (i : Nat) (r : Rec)                          -- `dbs[i].add_feature(...)`
  | addTable (i : Nat) (t : String) (r : Rec)        -- a loaded row appended to table `t` of `dbs[i]`
  | update (i k : Nat) (seqids : Option CondVal)     -- `dbs[i].update(dbs[k], seqids=…)`
  | union (i k : Nat)                                -- `dbs[i].union(dbs[k])`: appended
  | subset (i : Nat) (q : Query)                     -- `dbs[i].subset(**q)`: appended
  | copy (i : Nat)                                   -- deepcopy / pickle / write+reload (byte image of the connection): appended
  | copyJson (i : Nat)                               -- `deserialise_object(dbs[i].to_json())` of an in-memory db: appended
  deriving Repr, Inhabited

/-- a register index that does not exist is not a python call at all -/
def Op.inRange (n : Nat) : Op → Bool
  | .new _ => true
  | .add i _ | .addTable i _ _ | .subset i _ | .copy i | .copyJson i => i < n
  | .update i k _ | .union i k => i < n && k < n

/-- one call on the register; `.error` = the call raised (the register is as before) -/
def stepOp (dbs : List Db) : Op → Except Err (List Db)
  | .new k => .ok (dbs ++ [Db.empty k])
  | .add i r =>
    match dbs[i]? with
    | some d => .ok (dbs.set i (addFeature d r))
    | none => .error .typeError
  | .addTable i t r =>
    match dbs[i]? with
    | some d =>
      -- INSERT into a table the class does not have: `no such table`
      if (tableNames d.kind).contains t then .ok (dbs.set i (addToTable d t [r])) else .error .operationalError
    | none => .error .typeError
  | .update i k s =>
    match dbs[i]?, dbs[k]? with
    | some d, some o =>
      -- `_update_db_from_other_db`: `if other_db == self: return` (same connection object)
      if i = k then .ok dbs else
      match update d o s with
      | .ok d' => .ok (dbs.set i d')
      | .error e => .error e
    | _, _ => .error .typeError
  | .union i k =>
    match dbs[i]?, dbs[k]? with
    | some d, some o =>
      match union d o with
      | .ok d' => .ok (dbs ++ [d'])
      | .error e => .error e
    | _, _ => .error .typeError
  | .subset i q =>
    match dbs[i]? with
    | some d =>
      match subset d q with
      | .ok d' => .ok (dbs ++ [d'])
      | .error e => .error e
    | none => .error .typeError
  | .copy i =>
    match dbs[i]? with
    | some d => .ok (dbs ++ [deepcopyDb d false])
    | none => .error .typeError
  | .copyJson i =>
    match dbs[i]? with
    | some d => .ok (dbs ++ [jsonRoundTrip d false])
    | none => .error .typeError

/-- a whole history; stops at the first call that raises -/
def runHistory : List Db → List Op → Except Err (List Db)
  | dbs, [] => .ok dbs
  | dbs, op :: ops =>
    match stepOp dbs op with
    | .ok dbs' => runHistory dbs' ops
    | .error e => .error e

end CogentModel.AnnotDb

namespace CogentModel.AnnotDbSpec
open CogentModel.AnnotDb

/-- the spec: every db is just its list of records (as a multiset) -/
def specStep (ms : List (List Rec)) : Op → List (List Rec)
  | .new _ => ms ++ [[]]
  | .add i r => ms.set i (ms[i]?.getD [] ++ [r])
  | .addTable i _ r => ms.set i (ms[i]?.getD [] ++ [r])
  | .update i k s => if i = k then ms else ms.set i (ms[i]?.getD [] ++ (ms[k]?.getD []).filter (seqidCond s))
  | .union i k => ms ++ [ms[i]?.getD [] ++ ms[k]?.getD []]
  | .subset i q => ms ++ [linearScan (ms[i]?.getD []) q]
  | .copy i => ms ++ [ms[i]?.getD []]
  | .copyJson i => ms ++ [ms[i]?.getD []]

def specHistory (ms : List (List Rec)) (ops : List Op) : List (List Rec) := ops.foldl specStep ms

end CogentModel.AnnotDbSpec
