import CogentModel.Model.Splitlines
/-
  C06 — executable models of the cogent3 sequence-format writers and parsers.
  Strings are `List Char`, files are a `List Char`, line lists are `List (List Char)`.
  Every definition mirrors the case analysis of the Python function named in its doc-comment.
  Import free (apart from the project's own `Model/Splitlines`).
-/
namespace CogentModel.SeqFormats
open CogentModel.Splitlines

abbrev Str := List Char
/-- a parsed record: (label, sequence) -/
abbrev Rec := Str × Str

inductive Err where
  | recordError | valueError | attributeError | indexError | typeError
  deriving DecidableEq, Repr

/-! ### Python string primitives -/

/-- `str.isspace()` of one character (also what `str.strip()` removes and `\s` matches) -/
def isSpaceStr (c : Char) : Bool :=
  c = ' ' || (9 ≤ c.toNat && c.toNat ≤ 13) || (0x1c ≤ c.toNat && c.toNat ≤ 0x1f) ||
  c.toNat = 0x85 || c.toNat = 0xa0 || c.toNat = 0x1680 || (0x2000 ≤ c.toNat && c.toNat ≤ 0x200a) ||
  c.toNat = 0x2028 || c.toNat = 0x2029 || c.toNat = 0x202f || c.toNat = 0x205f || c.toNat = 0x3000

/-- what `bytes.strip()` removes: `b" \t\n\r\x0b\x0c"` -/
def isSpaceBytes (c : Char) : Bool := c = ' ' || (9 ≤ c.toNat && c.toNat ≤ 13)

def rstripBy (p : Char → Bool) (s : Str) : Str := (s.reverse.dropWhile p).reverse
def stripBy (p : Char → Bool) (s : Str) : Str := rstripBy p (s.dropWhile p)
/-- `str.strip()` -/
def strip (s : Str) : Str := stripBy isSpaceStr s
/-- `bytes.strip()` -/
def bstrip (s : Str) : Str := stripBy isSpaceBytes s
/-- `not s.strip()` / `s.isspace() or not s` -/
def isBlank (s : Str) : Bool := s.all isSpaceStr

/-- `_white_space.sub("", s)` with `_white_space = re.compile(r"\s+")` -/
def removeWs (s : Str) : Str := s.filter (fun c => !isSpaceStr c)

/-- `str.upper()` restricted to ASCII letters -/
def upperChar (c : Char) : Char := if 97 ≤ c.toNat ∧ c.toNat ≤ 122 then Char.ofNat (c.toNat - 32) else c
def upper (s : Str) : Str := s.map upperChar

/-- `"\n".join(lines)` -/
def joinNl : List Str → Str
  | [] => []
  | l :: ls => match ls with
    | [] => l
    | _ :: _ => l ++ '\n' :: joinNl ls

/-- every line followed by a newline -/
def unlines (ls : List Str) : Str := ls.flatMap (fun l => l ++ ['\n'])

/-- `str.split()` (split on runs of whitespace, no empty tokens) -/
def splitWs : Str → List Str
  | [] => []
  | c :: cs =>
    if isSpaceStr c then splitWs cs
    else match cs with
      | [] => [[c]]
      | d :: _ => if isSpaceStr d then [c] :: splitWs cs else consHead c (splitWs cs)

/-! decimal integers: `"%d" % n` and `int(token)` -/

def digitChar (d : Nat) : Char := Char.ofNat (48 + d)
def digitVal (c : Char) : Nat := c.toNat - 48
def isDigit (c : Char) : Bool := 48 ≤ c.toNat && c.toNat ≤ 57

/-- decimal digits, least significant first (`fuel > n` suffices) -/
def revDigits : Nat → Nat → List Nat
  | 0, _ => []
  | f + 1, n => if n < 10 then [n] else (n % 10) :: revDigits f (n / 10)

def valRev : List Nat → Nat
  | [] => 0
  | d :: ds => d + 10 * valRev ds

/-- `"%d" % n` for `n ≥ 0` -/
def natDigits (n : Nat) : Str := ((revDigits (n + 1) n).reverse).map digitChar

/-- `int(tok)` for a plain run of ASCII digits with an optional sign; anything else is a
`ValueError` (underscores / non-ASCII digits are outside the modelled fragment) -/
def signSplit : Str → Bool × Str
  | [] => (false, [])
  | c :: r => if c = '-' then (true, r) else if c = '+' then (false, r) else (false, c :: r)

def pyInt (tok : Str) : Except Err Int :=
  let p := signSplit tok
  if p.2.isEmpty || !(p.2.all isDigit) then .error .valueError
  else
    let v : Int := (valRev (p.2.reverse.map digitVal) : Nat)
    .ok (if p.1 then -v else v)

/-- `"%-10s" % s` -/
def pad10 (s : Str) : Str := s ++ List.replicate (10 - s.length) ' '

/-! ### writers -/

/-- `_AlignmentFormatter.slice_string_in_blocks` (format/util.py): consecutive blocks of
`bs` characters; this is also what `textwrap.wrap(seq, bs)` returns for a sequence without
`-`, blanks or other break opportunities. `range(0, n, 0)` raises, so `bs = 0` is not a
legal call and yields `[]` here. -/
def chunkGo (bs : Nat) : Nat → Str → List Str
  | 0, _ => []
  | fuel + 1, s => if s.isEmpty || bs = 0 then [] else s.take bs :: chunkGo bs fuel (s.drop bs)

def chunkWrap (bs : Nat) (s : Str) : List Str := chunkGo bs s.length s

/-- `wrap_string_to_block_size`: `"\n".join(blocks) + "\n"` -/
def wrapNl (bs : Nat) (s : Str) : Str := joinNl (chunkWrap bs s) ++ ['\n']

/-- the `result` list of `seqs_to_fasta` (format/fasta.py l.36-40) for records whose sequences
have already been wrapped into lines (`textwrap.wrap` is an external: any wrapping whatsoever) -/
def fastaLines (recs : List (Str × List Str)) : List Str :=
  recs.flatMap (fun r => ('>' :: r.1) :: r.2)

/-- `seqs_to_fasta`: `if result: result.append(""); return "\n".join(result)` -/
def fastaFormat (recs : List (Str × List Str)) : Str :=
  let result := fastaLines recs
  if result.isEmpty then joinNl result else joinNl (result ++ [[]])

/-- `seqs_to_fasta` for a wrapping function -/
def fastaFormatW (wrap : Str → List Str) (recs : List Rec) : Str :=
  fastaFormat (recs.map (fun r => (r.1, wrap r.2)))

/-- `GDEFormatter.format` (format/gde.py): `"%" + name + "\n" + wrap(seq)` per sequence -/
def gdeFormat (bs : Nat) (recs : List Rec) : Str :=
  recs.flatMap (fun r => '%' :: r.1 ++ '\n' :: wrapNl bs r.2)

/-- the header `"%d  %d\n" % (number_sequences, align_length)`; `align_length` is the length of
the *first* sequence (`set_align_info`) -/
def headerLine (recs : List Rec) : Option Str :=
  match recs with
  | [] => none   -- `"%d" % None` raises TypeError
  | r :: _ => some (natDigits recs.length ++ ' ' :: ' ' :: natDigits r.2.length)

/-- `PamlFormatter.format` (format/paml.py) -/
def pamlFormat (bs : Nat) (recs : List Rec) : Except Err Str :=
  match headerLine recs with
  | none => .error .typeError
  | some h => .ok (h ++ '\n' :: recs.flatMap (fun r => r.1 ++ '\n' :: wrapNl bs r.2))

/-- the block lines of one sequence in `PhylipFormatter.format` (format/phylip.py l.44-61):
`for block in range(0, align_length, block_size)`; `first` is `not block` -/
def phylipBlocks (bs L : Nat) (name seq : Str) : Nat → Nat → List Str
  | 0, _ => []
  | fuel + 1, block =>
    if block < L ∧ 0 < bs then
      let pre : Str := if block = 0 then (if name.length > 9 then pad10 (name.take 9) else pad10 name)
                       else List.replicate 10 ' '
      let to := if block + bs > L then L else block + bs
      (pre ++ (seq.drop block).take (to - block)) :: phylipBlocks bs L name seq fuel (block + bs)
    else []

/-- `PhylipFormatter.format`: header + every block line followed by a newline -/
def phylipFormat (bs : Nat) (recs : List Rec) : Except Err Str :=
  match recs, headerLine recs with
  | r0 :: _, some h =>
    let L := r0.2.length
    .ok (h ++ '\n' :: unlines (recs.flatMap (fun r => phylipBlocks bs L r.1 r.2 (L + 1) 0)))
  | _, _ => .error .typeError

/-! ### FASTA / GDE parsers (parse/fasta.py) -/


/-- `line[0] in label_char` for a non-empty line -/
def isLabel (lc : List Char) (line : Str) : Bool :=
  match line with
  | [] => false
  | c :: _ => lc.contains c

/-- `_white_space.sub("", "".join(seq))` -/
def clean (seq : List Str) : Str := removeWs seq.flatten

/-- `_faster_parser` (l.72-92). `label or ""` collapses `None` and `""`. -/
def fasterGo (lc : List Char) : Option Str → List Str → List Str → List Rec
  | label, seq, [] => if seq.isEmpty then [] else [(label.getD [], clean seq)]
  | label, seq, line :: rest =>
    if line.isEmpty then fasterGo lc label seq rest
    else if isLabel lc line then
      (if seq.isEmpty then [] else [(label.getD [], clean seq)]) ++
        fasterGo lc (some (strip (line.drop 1))) [] rest
    else fasterGo lc label (seq ++ [strip line]) rest

def fasterParser (lc : List Char) (lines : List Str) : List Rec := fasterGo lc none [] lines

/-- `_strict_parser` (l.95-123); the generator's first `raise` is the result of `list(...)` -/
def strictGo (lc : List Char) : Option Str → List Str → List Str → Except Err (List Rec)
  | label, seq, [] =>
    if seq.isEmpty then .error .recordError
    else match label with
      | none => .error .recordError
      | some l => .ok [(l, clean seq)]
  | label, seq, line :: rest =>
    -- `not line or (line[0] == "#" and "#" not in label_char)`: a `#` line is a comment unless `#` labels records (GDE)
    if line.isEmpty || (line.head? = some '#' && !lc.contains '#') then strictGo lc label seq rest
    else if isLabel lc line then
      match label with
      | some l =>
        if seq.isEmpty then .error .recordError
        else (strictGo lc (some (strip (line.drop 1))) [] rest).map (fun rs => (l, clean seq) :: rs)
      | none =>
        if !seq.isEmpty then .error .recordError
        else strictGo lc (some (strip (line.drop 1))) [] rest
    else strictGo lc label (seq ++ [strip line]) rest

def strictParser (lc : List Char) (lines : List Str) : Except Err (List Rec) := strictGo lc none [] lines

/-- `MinimalFastaParser(path, strict)` on the *text* of a file: `_prep_data` does
`infile.read().splitlines()`; `if not path: return []` is the caller's business -/
def fastaStrict (text : Str) : Except Err (List Rec) := strictParser ['>'] (pySplitlines text)
def fastaFaster (text : Str) : List Rec := fasterParser ['>'] (pySplitlines text)
/-- `MinimalGdeParser`: label characters `"%#"` -/
def gdeStrict (text : Str) : Except Err (List Rec) := strictParser ['%', '#'] (pySplitlines text)

/-- `minimal_converter.__call__`: upper-case, delete `b"\n\r\t "` -/
def convertBytes (s : Str) : Str :=
  upper (s.filter (fun c => !(c = '\n' || c = '\r' || c = '\t' || c = ' ')))

/-- one record of `iter_fasta_records(data: bytes)` (l.421-440) -/
def bytesRecord (record : Str) : Option Rec :=
  if record.isEmpty then none
  else if !(record.contains '\n') then none
  else some (bstrip (record.takeWhile (· ≠ '\n')), convertBytes ((record.dropWhile (· ≠ '\n')).drop 1))

/-- `_label_start.split(data)` with `_label_start = re.compile(rb"(?:\\A|(?<=\\n))>")` (parse/fasta.py l.23, l.430):
split only at a `>` that is the first byte of the data or directly follows a `\n`; a `>` anywhere else belongs
to the label / record. `bol` = "at the beginning of a line". Always at least one piece. -/
def splitLabelStart : Bool → Str → List Str
  | _, [] => [[]]
  | bol, c :: cs =>
    if bol && c = '>' then [] :: splitLabelStart false cs
    else consHead c (splitLabelStart (c = '\n') cs)

/-- `iter_fasta_records(data: bytes)` (l.421-442) -/
def fastaBytes (text : Str) : List Rec :=
  -- `records = _label_start.split(data)[1:]`: whatever precedes the first label line is not a record
  ((splitLabelStart true text).drop 1).filterMap bytesRecord

/-! ### PAML parser (parse/paml.py) -/

/-- the loop body of `PamlParser` over the remaining lines; state = (seqname, curr_seq, curr_length, n) -/
def pamlGo (numSeqs seqLen : Int) : Option Str → List Str → Nat → Nat → List Str → Except Err (List Rec)
  | _, _, _, n, [] => if (n : Int) ≠ numSeqs then .error .valueError else .ok []
  | name, cur, len, n, line :: rest =>
    let line := strip line
    if line.isEmpty then pamlGo numSeqs seqLen name cur len n rest
    else match name with
      | none => pamlGo numSeqs seqLen (some line) cur len n rest
      | some nm =>
        let len' := len + line.length
        let cur' := cur ++ [line]
        if (len' : Int) = seqLen then
          (pamlGo numSeqs seqLen none [] 0 (n + 1) rest).map (fun rs => (nm, upper cur'.flatten) :: rs)
        else pamlGo numSeqs seqLen (some nm) cur' len' n rest

/-- `PamlParser(lines)`: header `num_seqs, seq_len = [int(v) for v in data.pop(0).split()]` -/
def pamlParser (lines : List Str) : Except Err (List Rec) :=
  match lines with
  | [] => .error .indexError
  | h :: rest =>
    match splitWs h with
    | [a, b] => do
      let ns ← pyInt a
      let sl ← pyInt b
      pamlGo ns sl none [] 0 0 rest
    | _ => .error .valueError

def pamlParse (text : Str) : Except Err (List Rec) := pamlParser (pySplitlines text)

/-! ### PHYLIP parser (parse/phylip.py) -/

/-- `_split_line(line, id_offset)`: `None, None` for blank lines -/
def splitLine (line : Str) (off : Nat) : Option (Str × Str) :=
  if line.isEmpty || isBlank line then none
  else some (strip (line.take off), (strip (line.drop off)).filter (· ≠ ' '))

/-- sequential (`not interleaved`) branch; `cache = none` is the initial `{}` -/
def phySeqGo : Option (Str × List Str) → List Str → Except Err (List Rec)
  | cache, [] => .ok (match cache with
      | none => []
      | some c => [(c.1, c.2.flatten)])
  | cache, line :: rest =>
    match splitLine line 10 with
    | none => phySeqGo cache rest
    | some (cid, cseq) =>
      if cid.isEmpty && cseq.isEmpty then phySeqGo cache rest
      else if !cid.isEmpty then
        (phySeqGo (some (cid, [cseq])) rest).map (fun rs =>
          (match cache with
            | none => []
            | some c => [(c.1, c.2.flatten)]) ++ rs)
      else match cache with
        | none => .error .attributeError      -- `{}.append`
        | some c => phySeqGo (some (c.1, c.2 ++ [cseq])) rest

/-- assoc-list `dict` update used by the interleaved branch -/
def cacheAppend (ix : Int) (s : Str) : List (Int × Str × List Str) → Str → List (Int × Str × List Str)
  | [], cid => [(ix, cid, [s])]
  | (k, i, ps) :: rest, cid => if k = ix then (k, i, ps ++ [s]) :: rest else (k, i, ps) :: cacheAppend ix s rest cid

/-- interleaved branch: state (curr_ct, id_offset, cache) -/
def phyIntGo (numSeqs : Int) : Int → Nat → List (Int × Str × List Str) → List Str → List (Int × Str × List Str)
  | _, _, cache, [] => cache
  | ct, off, cache, line :: rest =>
    match splitLine line off with
    | none => phyIntGo numSeqs ct off cache rest
    | some (cid, cseq) =>
      if cid.isEmpty && cseq.isEmpty then phyIntGo numSeqs ct off cache rest
      else
        let ix := Int.fmod ct numSeqs
        let off' := if Int.fmod (ct + 1) numSeqs = 0 then 0 else off
        phyIntGo numSeqs (ct + 1) off' (cacheAppend ix cseq cache cid) rest

def phyIntFinish (seqLen : Int) : List (Int × Str × List Str) → Except Err (List Rec)
  | [] => .ok []
  | (_, cid, ps) :: rest =>
    if (ps.flatten.length : Int) ≠ seqLen then .error .recordError
    else (phyIntFinish seqLen rest).map (fun rs => (cid, ps.flatten) :: rs)

/-- `MinimalPhylipParser(lines)`: the header decides `interleaved` (it overwrites the argument) -/
def phylipParser (lines : List Str) : Except Err (List Rec) :=
  match lines with
  | [] => .ok []
  | h :: rest =>
    match splitWs h with
    | a :: b :: more => do
      let ns ← pyInt a
      let sl ← pyInt b
      if ns = 0 || sl = 0 then .ok []
      else if more.isEmpty then phySeqGo none rest
      else phyIntFinish sl (phyIntGo ns 0 10 [] rest)
    | _ => .error .valueError

def phylipParse (text : Str) : Except Err (List Rec) := phylipParser (pySplitlines text)

end CogentModel.SeqFormats
