import CogentModel.Model.PhyloTree
/-
  C09 — value model of `PhyloNode.root_at_midpoint` (l.1831-1878) at `Rat`.

  The implementation finds the farthest tip pair (`max_tip_tip_distance`: first maximum of
  the tip-by-tip matrix in row-major order), climbs from the deeper tip until half the
  distance is covered and either re-roots at an existing node or *inserts a new unnamed
  node into the tree it was called on* and re-roots there.  The returned tree is modelled
  here; the in-place edit of the argument is checked on the implementation (snapshot).
-/
namespace CogentModel.Phylo
open PTree

abbrev RT := PTree Rat

/-- first maximum in row-major order of the symmetric tip-by-tip matrix (diagonal 0) -/
def argmaxPair (ts : List String) (d : List ((String × String) × Rat)) : Rat × String × String :=
  let cells : List (Rat × String × String) :=
    ts.flatMap fun a => ts.map fun b => ((if a = b then (0 : Rat) else (lookupLast (a, b) d).getD 0), a, b)
  match cells with
  | [] => (0, "", "")
  | c :: rest => rest.foldl (fun best x => if best.1 < x.1 then x else best) c

/-- lengths of the nodes met when descending along a path (root excluded) -/
def lensOnPath : RT → List Nat → List (Option Rat)
  | _, [] => []
  | .node _ _ cs, i :: p =>
    match pick cs i with
    | none => []
    | some (_, x, _) => x.len :: lensOnPath x p

def commonPrefixLen : List Nat → List Nat → Nat
  | a :: as, b :: bs => if a = b then commonPrefixLen as bs + 1 else 0
  | _, _ => 0

/-- `if curr.length: count += curr.length` -/
def truthyLen : Option Rat → Rat
  | some x => x
  | none => 0

/-- climb from the tip: `lens` are the lengths from the tip upwards; returns
(number of nodes climbed past, distance climbed, length of the node stopped at) -/
def climb (half : Rat) : List (Option Rat) → Nat → Rat → Except TErr (Nat × Rat × Rat)
  | [], _, _ => .error .typeError                  -- ran into the root (length None)
  | none :: _, _, _ => .error .typeError
  | some x :: rest, k, climbed =>
    if climbed + x < half then climb half rest (k + 1) (climbed + x) else .ok (k, climbed, x)

/-- replace the children of the node at `path` -/
def updateAt (f : List RT → Option (List RT)) : RT → List Nat → Option RT
  | .node n l cs, [] => (f cs).map fun cs' => .node n l cs'
  | .node n l cs, i :: p =>
    match pick cs i with
    | none => none
    | some (pre, x, post) => (updateAt f x p).map fun x' => .node n l (pre ++ x' :: post)

def rootAtMidpoint (t : RT) : Except TErr RT :=
  let ts := tips t
  let (maxd, n1, n2) := argmaxPair ts (getDistances (1 : Rat) t)
  let half := maxd / 2
  let reroot (t' : RT) (p : List Nat) : Except TErr RT :=
    match rerootAt t' p with
    | some r => .ok r
    | none => .error .treeError
  if maxd = 0 then reroot t []
  else
    match findPath n1 t, findPath n2 t with
    | some p1, some p2 =>
      let k := commonPrefixLen p1 p2
      let d1 := ((lensOnPath t p1).drop k).foldl (fun s l => s + truthyLen l) 0
      let p := if half < d1 then p1 else p2
      match climb half (lensOnPath t p).reverse 0 0 with
      | .error e => .error e
      | .ok (up, climbed, x) =>
        -- the node stopped at is `p.take (p.length - up)`; its parent:
        let parentPath := p.take (p.length - up - 1)
        if climbed + x = half then reroot t parentPath
        else
          let idx := (p.drop (p.length - up - 1)).headD 0
          let y := half - climbed
          let ins : List RT → Option (List RT) := fun cs =>
            match pick cs idx with
            | none => none
            | some (pre, v, post) =>
              some (pre ++ post ++ [PTree.node "" (some (x - y)) [PTree.node v.name (some y) v.children]])
          match updateAt ins t parentPath with
          | none => .error .treeError
          | some t' =>
            match nodeAt t' parentPath with
            | none => .error .treeError
            | some par => reroot t' (parentPath ++ [par.children.length - 1])
    | _, _ => .error .treeError

end CogentModel.Phylo
