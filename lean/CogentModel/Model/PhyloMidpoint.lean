import CogentModel.Model.PhyloTree
/-
  C09 — value model of `PhyloNode.root_at_midpoint` (l.1831-1878) at `Rat`.

  The implementation finds the farthest tip pair (`max_tip_tip_distance`: first maximum of
  the tip-by-tip matrix in row-major order), climbs from the deeper tip until half the
  distance is covered and either re-roots at an existing node or splits the edge at the midpoint
  by inserting a new unnamed node (on a deep copy of the tree since commit 20f373142) and
  re-roots there.  `midPlan` is the search, `execPlan` the transformation.
-/
namespace CogentModel.Phylo
open PTree

abbrev RT := PTree Rat

/-- first maximum in row-major order of the symmetric tip-by-tip matrix (diagonal 0) -/
def argmaxPair (ts : List String) (d : List ((String × String) × Rat)) : Rat × String × String :=
  let cells : List (Rat × String × String) :=
    ts.flatMap fun a => ts.map fun b => ((if a = b then (0 : Rat) else (lookupLast (a, b) d).getD 0), a, b)
  match cells with
  | [] => (0, "", "")
  | c :: rest => rest.foldl (fun best x => if best.1 < x.1 then x else best) c

/-- lengths of the nodes met when descending along a path (root excluded) -/
def lensOnPath : RT → List Nat → List (Option Rat)
  | _, [] => []
  | .node _ _ cs, i :: p =>
    match pick cs i with
    | none => []
    | some (_, x, _) => x.len :: lensOnPath x p

def commonPrefixLen : List Nat → List Nat → Nat
  | a :: as, b :: bs => if a = b then commonPrefixLen as bs + 1 else 0
  | _, _ => 0

/-- `if curr.length: count += curr.length` -/
def truthyLen : Option Rat → Rat
  | some x => x
  | none => 0

/-- one step of the path from the root to a tip: the node `par` at path `pp`, and its child `v`
at position `idx` (`climb_node` and `climb_node.parent` of the implementation's loop) -/
structure PFrame where
  pp : List Nat
  par : RT
  idx : Nat
  pre : List RT
  v : RT
  post : List RT

/-- the frames met when descending along a path (`acc` = path of the current node) -/
def framesOn : RT → List Nat → List Nat → List PFrame
  | _, [], _ => []
  | .node n l cs, i :: p, acc =>
    match pick cs i with
    | none => []
    | some (pre, x, post) => ⟨acc, .node n l cs, i, pre, x, post⟩ :: framesOn x p (acc ++ [i])

/-- `while dist_climbed + climb_node.length < half: dist_climbed += climb_node.length;
climb_node = climb_node.parent` — frames are listed from the tip upwards; returns the frame
stopped at and the distance climbed below it -/
def climbF (half : Rat) : List PFrame → Rat → Except TErr (PFrame × Rat × Rat)
  | [], _ => .error .typeError                  -- ran into the root (length None)
  | f :: rest, climbed =>
    match f.v.len with
    | none => .error .typeError
    | some x => if climbed + x < half then climbF half rest (climbed + x) else .ok (f, climbed, x)

/-- replace the children of the node at `path` -/
def updateAt (f : List RT → Option (List RT)) : RT → List Nat → Option RT
  | .node n l cs, [] => (f cs).map fun cs' => .node n l cs'
  | .node n l cs, i :: p =>
    match pick cs i with
    | none => none
    | some (pre, x, post) => (updateAt f x p).map fun x' => .node n l (pre ++ x' :: post)

/-- what the search decides: re-root at an existing node, or first split the edge above child
`idx` of the node at `parentPath`, leaving length `y` below the new node -/
inductive MidPlan where
  | at (path : List Nat)
  | split (parentPath : List Nat) (idx : Nat) (y : Rat)
  deriving DecidableEq

/-- `new_root = type(self)(); new_root.parent = climb_node.parent; climb_node.parent = new_root;
climb_node.length = y; new_root.length = old_br_len - y`: the new unnamed node is appended to the
parent's children, the climbed node becomes its only child -/
def splitEdge (idx : Nat) (y : Rat) (cs : List RT) : Option (List RT) :=
  match pick cs idx with
  | none => none
  | some (pre, v, post) =>
    match v.len with
    | none => none
    | some x => some (pre ++ post ++ [PTree.node "" (some (x - y)) [PTree.node v.name (some y) v.children]])

def reroot? (t : RT) (p : List Nat) : Except TErr RT :=
  match rerootAt t p with
  | some r => .ok r
  | none => .error .treeError

/-- `…unrooted_deepcopy()` from the chosen node -/
def execPlan (t : RT) : MidPlan → Except TErr RT
  | .at p => reroot? t p
  | .split parentPath idx y =>
    match updateAt (splitEdge idx y) t parentPath with
    | none => .error .treeError
    | some t' =>
      match nodeAt t' parentPath with
      | none => .error .treeError
      | some par => reroot? t' (parentPath ++ [par.children.length - 1])

/-- the search for the midpoint: farthest pair, deeper tip, climb -/
def midPlan (t : RT) : Except TErr MidPlan :=
  let ts := tips t
  let (maxd, n1, n2) := argmaxPair ts (getDistances (1 : Rat) t)
  let half := maxd / 2
  if maxd = 0 then .ok (.at [])
  else
    match findPath n1 t, findPath n2 t with
    | some p1, some p2 =>
      let k := commonPrefixLen p1 p2
      let d1 := ((lensOnPath t p1).drop k).foldl (fun s l => s + truthyLen l) 0
      let p := if half < d1 then p1 else p2
      match climbF half (framesOn t p []).reverse 0 with
      | .error e => .error e
      | .ok (f, climbed, x) =>
        if climbed + x = half then .ok (.at f.pp)
        else .ok (.split f.pp f.idx (half - climbed))
    | _, _ => .error .treeError

def rootAtMidpoint (t : RT) : Except TErr RT :=
  match midPlan t with
  | .error e => .error e
  | .ok plan => execPlan t plan

end CogentModel.Phylo
