/-
  C18 — executable model of cogent3's pair-HMM Viterbi
  (`align/pairwise_seqs_numba.py::calc_rows`, `align/pairwise.py::py_calc_rows`,
  `PairEmissionProbs.dp`, `Pair.traceback`, `TrackBack.as_bin_pos_tuples`,
  `align/traceback.py::seq_traceback`).

  Scores live in log space.  `Option S` is "S extended with -inf" (`none` = impossible = `-numpy.inf`);
  `S` is any type with `+` and a decidable `<` (executed at `Rat`: every float64 is an exact rational).

  State ids follow the code: `0` = BEGIN, `1..k` = the emitting states (`k = dirs.length`,
  state `s` moves by `dirs[s-1] = (dx, dy)`), `k+1` = END, `k+2` = the ERROR pointer.
  A DP cell is the list, by state id, of `(value, pointer_state)`.

  Import-free (compiled into the native driver).
-/
namespace CogentModel.PairHMM

variable {S : Type}

/-- `a + b` of two log scores, `-inf + x = -inf` -/
def eadd [Add S] : Option S → Option S → Option S
  | some a, some b => some (a + b)
  | _, _ => none

/-- the strict float comparison `a > b` (`-inf > x` is false, `x > -inf` is true for finite `x`) -/
def egt [LT S] [DecidableLT S] : Option S → Option S → Bool
  | some a, some b => decide (b < a)
  | some _, none => true
  | none, _ => false

/-- the HMM as the DP kernel sees it: `PairHMM._transition_matrix = (state_directions, T)` after `log`,
plus the emission scores as a function of (state id, i, j) (see `Emis.em` for how the kernel picks them) -/
structure HMM (S : Type) where
  dirs : List (Bool × Bool)
  T : Nat → Nat → Option S
  em : Nat → Nat → Nat → Option S

abbrev Cell (S : Type) := List (Option S × Nat)

def HMM.k (h : HMM S) : Nat := h.dirs.length
def HMM.endId (h : HMM S) : Nat := h.dirs.length + 1
def HMM.errId (h : HMM S) : Nat := h.dirs.length + 2
def HMM.dir (h : HMM S) (s : Nat) : Bool × Bool := h.dirs.getD (s - 1) (false, false)

/-- `for prev_state in range(1, N): cand = mantissas[.., prev_state] + T[prev_state, state];
     if cand > max_mantissa: max_mantissa = cand; pointer_state = prev_state`
(the END slot `N-1` of a cell is never written before the last call, so it is `-inf` and skipped here) -/
def bestPrev [Add S] [LT S] [DecidableLT S] (T : Nat → Nat → Option S) (dest : Nat) :
    List (Option S × Nat) → Nat → Option S × Nat → Option S × Nat
  | [], _, cur => cur
  | (v, _) :: rest, p, cur =>
    bestPrev T dest rest (p + 1) (if egt (eadd v (T p dest)) cur.1 then (eadd v (T p dest), p) else cur)

/-- may a path *start* by entering a cell from `(si, sj)` with a state of direction `d`?
`if (local and dx and dy) or (prev_j == 0 and source_i == 0)` -/
def canStart (loc : Bool) (si sj : Nat) (d : Bool × Bool) : Bool :=
  (loc && d.1 && d.2) || (si == 0 && sj == 0)

/-- cells the kernel computes: local alignment loops from 1, so row 0 and column 0 stay `-inf` -/
def cellOK (loc : Bool) (i j : Nat) : Bool := !(loc && (i == 0 || j == 0))

/-- one `(i, j, state)` iteration of the kernel.  `src` is the already computed cell `(i-dx, j-dy)`. -/
def cellEntry [Add S] [LT S] [DecidableLT S] (h : HMM S) (loc : Bool) (i j s : Nat) (d : Bool × Bool)
    (src : Cell S) : Option S × Nat :=
  if i < d.1.toNat ∨ j < d.2.toNat then (none, 0)           -- `continue`
  else
    let r := bestPrev h.T s src 1
      (if canStart loc (i - d.1.toNat) (j - d.2.toNat) d then (h.T 0 s, 0) else (none, h.errId))
    (eadd r.1 (h.em s i j), r.2)

/-- which neighbour a state reads -/
def pickSrc (d : Bool × Bool) (diag up left : Cell S) : Cell S :=
  if d.1 then (if d.2 then diag else up) else (if d.2 then left else [])

def cellEntries [Add S] [LT S] [DecidableLT S] (h : HMM S) (loc : Bool) (i j : Nat) (diag up left : Cell S) :
    List (Bool × Bool) → Nat → Cell S
  | [], _ => []
  | d :: ds, s => cellEntry h loc i j s d (pickSrc d diag up left) :: cellEntries h loc i j diag up left ds (s + 1)

/-- all states of cell `(i, j)` from its three neighbours -/
def cellOf [Add S] [LT S] [DecidableLT S] (h : HMM S) (loc : Bool) (i j : Nat) (diag up left : Cell S) : Cell S :=
  if cellOK loc i j then cellEntries h loc i j diag up left h.dirs 1
  else h.dirs.map fun _ => (none, 0)

/-! ### tables as scans -/

/-- `[c_n, …, c_0]` with `c_0 = f 0 none`, `c_{k+1} = f (k+1) (some c_k)` -/
def scanRev {α : Type} (f : Nat → Option α → α) : Nat → List α
  | 0 => [f 0 none]
  | k + 1 => let r := scanRev f k; f (k + 1) r.head? :: r

def scanList {α : Type} (f : Nat → Option α → α) (n : Nat) : List α := (scanRev f n).reverse

/-- the pure meaning of `scanList`: its `k`-th element -/
def nthScan {α : Type} (f : Nat → Option α → α) : Nat → α
  | 0 => f 0 none
  | k + 1 => f (k + 1) (some (nthScan f k))

def rowStep [Add S] [LT S] [DecidableLT S] (h : HMM S) (loc : Bool) (i : Nat) (prev : Option (List (Cell S)))
    (j : Nat) (left : Option (Cell S)) : Cell S :=
  cellOf h loc i j
    (match prev with | some p => (if j = 0 then [] else p.getD (j - 1) []) | none => [])
    (match prev with | some p => p.getD j [] | none => [])
    (left.getD [])

/-- row `i` (cells `j = 0..m`) from row `i-1` -/
def rowOf [Add S] [LT S] [DecidableLT S] (h : HMM S) (loc : Bool) (m : Nat) (i : Nat)
    (prev : Option (List (Cell S))) : List (Cell S) :=
  scanList (rowStep h loc i prev) m

/-- the whole score/pointer table, rows `0..n` -/
def tableOf [Add S] [LT S] [DecidableLT S] (h : HMM S) (loc : Bool) (n m : Nat) : List (List (Cell S)) :=
  scanList (rowOf h loc m) n

def look (tbl : List (List (Cell S))) (i j : Nat) : Cell S := (tbl.getD i []).getD j []

/-! ### end of the global DP, best cell of the local DP -/

/-- the last `calc_rows` call with `end_state_only`: END reads cell `(n, m)`; its emission is `log 1.0` -/
def globalEnd [Add S] [LT S] [DecidableLT S] (h : HMM S) (n m : Nat) (cell : Cell S) : Option S × Nat :=
  bestPrev h.T h.endId cell 1
    (if n == 0 && m == 0 then (h.T 0 h.endId, 0) else (none, h.errId))

/-- scan of one cell for the local best: `if local and dx and dy and value > best` in id order -/
def bestInCell [LT S] [DecidableLT S] (i j : Nat) :
    List (Bool × Bool) → Cell S → Nat → Option S × Nat × Nat × Nat → Option S × Nat × Nat × Nat
  | d :: ds, (v, _) :: cs, s, cur =>
    bestInCell i j ds cs (s + 1) (if d.1 && d.2 && egt v cur.1 then (v, i, j, s) else cur)
  | _, _, _, cur => cur

def bestInRow [LT S] [DecidableLT S] (dirs : List (Bool × Bool)) (i : Nat) :
    List (Cell S) → Nat → Option S × Nat × Nat × Nat → Option S × Nat × Nat × Nat
  | [], _, cur => cur
  | c :: cs, j, cur => bestInRow dirs i cs (j + 1) (bestInCell i j dirs c 1 cur)

def bestInTable [LT S] [DecidableLT S] (dirs : List (Bool × Bool)) :
    List (List (Cell S)) → Nat → Option S × Nat × Nat × Nat → Option S × Nat × Nat × Nat
  | [], _, cur => cur
  | r :: rs, i, cur => bestInTable dirs rs (i + 1) (bestInRow dirs i r 0 cur)

/-! ### traceback -/

/-- follow the recorded pointers from `(i, j, s)` back to BEGIN (`Pair.traceback`/`_decode_state`);
`none` = the ERROR pointer was met (`ArithmeticError`).  Result in forward order: `(state, i, j)`. -/
def traceFrom (h : HMM S) (tbl : Nat → Nat → Cell S) :
    Nat → Nat → Nat → Nat → List (Nat × Nat × Nat) → Option (List (Nat × Nat × Nat))
  | 0, _, _, _, _ => none
  | f + 1, i, j, s, acc =>
    if s = 0 then some acc
    else if h.k < s then none
    else
      traceFrom h tbl f (i - (h.dir s).1.toNat) (j - (h.dir s).2.toNat)
        (((tbl i j).getD (s - 1) (none, h.errId)).2) ((s, i, j) :: acc)

structure Result (S : Type) where
  score : Option S
  path : Option (List (Nat × Nat × Nat))

/-- `PairEmissionProbs.dp` for a global Viterbi alignment of sequences of lengths `n`, `m` -/
def viterbiGlobal [Add S] [LT S] [DecidableLT S] (h : HMM S) (n m : Nat) : Result S :=
  let tbl := tableOf h false n m
  let e := globalEnd h n m (look tbl n m)
  { score := e.1, path := traceFrom h (look tbl) (n + m + 1) n m e.2 [] }

/-- `PairEmissionProbs.dp` for a local alignment: best match-state cell, no END transition -/
def viterbiLocal [Add S] [LT S] [DecidableLT S] (h : HMM S) (n m : Nat) : Result S :=
  let tbl := tableOf h true n m
  let b := bestInTable h.dirs tbl 0 (none, 0, 0, 0)
  match b.1 with
  | none => { score := none, path := none }
  | some v => { score := some v, path := traceFrom h (look tbl) (n + m + 1) b.2.1 b.2.2.1 b.2.2.2 [] }

/-! ### path → gapped rows (`as_bin_pos_tuples` + `seq_traceback`) -/

def rowsOfPath {α : Type} (h : HMM S) (s1 s2 : List α) :
    List (Nat × Nat × Nat) → List (Option α) × List (Option α)
  | [] => ([], [])
  | (s, i, j) :: rest =>
    let r := rowsOfPath h s1 s2 rest
    ((if (h.dir s).1 then s1[i - 1]? else none) :: r.1, (if (h.dir s).2 then s2[j - 1]? else none) :: r.2)

/-! ### emission lookup as the kernel does it -/

/-- `match_scores[bin, x_index[i], y_index[j]]`, `xgap_scores[bin, x]`, `ygap_scores[bin, y]`;
the harness sends the arrays with the BEGIN/END border removed, so indices are `i-1`, `j-1` -/
structure Emis (S : Type) where
  bins : List Nat                 -- bin of state `s` at position `s-1`
  xIndex : Array Nat
  yIndex : Array Nat
  matchSc : Array (Array (Array (Option S)))
  xgap : Array (Array (Option S))
  ygap : Array (Array (Option S))

def Emis.em (e : Emis S) (dirs : List (Bool × Bool)) (s i j : Nat) : Option S :=
  let d := dirs.getD (s - 1) (false, false)
  let b := e.bins.getD (s - 1) 0
  let x := e.xIndex.getD (i - 1) 0
  let y := e.yIndex.getD (j - 1) 0
  if d.2 then
    if d.1 then ((e.matchSc.getD b #[]).getD x #[]).getD y none
    else (e.ygap.getD b #[]).getD y none
  else if d.1 then (e.xgap.getD b #[]).getD x none
  else none

end CogentModel.PairHMM
