/-
  C18 — model of the column-merge step of progressive alignment
  (`align/indel_positions.py::pog_traceback` + `POGBuilder.add_skipped/add_aligned`,
   `align/traceback.py::gap_traceback/map_traceback`, `align/pairwise.py::AlignablePOG._calcAligneds`,
   `core/location.py::IndelMap.merge_maps`, rendering of an `Aligned`), for an ARBITRARY binary guide tree.

  At every internal node the pair-HMM (POG kernel) returns `aligned_positions`, a list of
  `(column of left child | None, column of right child | None)`; columns of a child that the DP jumped over
  are absent.  `pog_traceback` completes it to a list in which every child column occurs (`pogTraceback`).
  `_calcAligneds` then re-gaps every row of both children:

  * `fixed = false`, the code BEFORE the repair 0eea0ba09 (kept as a regression note): the gaps of the parent map, whose positions are COLUMNS of the child
    alignment, are united with the row's own gaps, whose positions are SEQUENCE coordinates (`merge_maps` is
    "for the same sequence"); a gap position beyond the end of the sequence is rendered at the end (slices clip).
    Denotation: a parent gap at child column `c` is inserted before RESIDUE number `c` of the row (`insertGapAt`).
  * `fixed = true`, the code in /repo since commit 0eea0ba09 (= fixes/C18-progressive-column-merge.patch; the
    variant in force, probed by the harness on every run): the parent gap is
    inserted before COLUMN `c` of the row (`specMerge`: the row read through the completed positions).

  Import-free.
-/
namespace CogentModel.Progressive

/-- one column of a pairwise alignment of two children: (left child column, right child column) -/
abbrev Pos := Option Nat × Option Nat

/-- `posn[dim]` (`d = false`: dimension 0 = left child) -/
def dimOf (d : Bool) (p : Pos) : Option Nat := if d then p.2 else p.1

/-- `POGBuilder.add_skipped(dim, start, end)`: a one-sided column for every child column in `range(start, end)` -/
def skipped (d : Bool) (start stop : Nat) : List Pos :=
  (List.range' start (stop - start)).map fun p => if d then (none, some p) else (some p, none)

def skipTo (d : Bool) (upto : Nat) : Option Nat → List Pos
  | none => []
  | some p => skipped d upto p

def nextUpto (upto : Nat) : Option Nat → Nat
  | none => upto
  | some p => p + 1

/-- the loop of `pog_traceback` with `upto = [u0, u1]`, followed by the two final `add_skipped` -/
def pogLoop (n1 n2 : Nat) : List Pos → Nat → Nat → List Pos
  | [], u0, u1 => skipped false u0 n1 ++ skipped true u1 n2
  | p :: r, u0, u1 =>
    skipTo false u0 p.1 ++ (skipTo true u1 p.2 ++ p :: pogLoop n1 n2 r (nextUpto u0 p.1) (nextUpto u1 p.2))

/-- `pog_traceback([pog1, pog2], aligned_positions).aligned_positions`, `n1 = len(pog1)`, `n2 = len(pog2)` -/
def pogTraceback (n1 n2 : Nat) (ap : List Pos) : List Pos := pogLoop n1 n2 ap 0 0

/-- what the DP guarantees about `aligned_positions`: in each dimension the columns increase strictly and lie
inside the child (`upto ≤ pos`, finally `upto ≤ len(child)`) -/
def apValid (n1 n2 : Nat) : List Pos → Nat → Nat → Bool
  | [], u0, u1 => decide (u0 ≤ n1) && decide (u1 ≤ n2)
  | p :: r, u0, u1 =>
    (match p.1 with | some a => decide (u0 ≤ a) | none => true) &&
    (match p.2 with | some b => decide (u1 ≤ b) | none => true) &&
    apValid n1 n2 r (nextUpto u0 p.1) (nextUpto u1 p.2)

/-! ### re-gapping one row of a child -/

abbrev Row (α : Type) := List (Option α)     -- `none` = gap

def degap {α : Type} (r : Row α) : List α := r.filterMap id

/-- the child columns at which the parent map has a gap, one entry per gap column: a `None` in dimension `d`
after `k` non-`None` entries is a gap at child column `k`
(`gap_traceback` + `IndelMap.from_aligned_segments`, by denotation) -/
def colGaps (d : Bool) : List Pos → Nat → List Nat
  | [], _ => []
  | p :: r, k => match dimOf d p with
    | none => k :: colGaps d r k
    | some _ => colGaps d r (k + 1)

/-- one more gap at SEQUENCE position `c` of a gapped row: before residue number `c`, at the end when the row has
no such residue (`merge_maps` adds the length at key `c`; rendering clips) -/
def insertGapAt {α : Type} : Nat → Row α → Row α
  | _, [] => [none]
  | 0, some x :: r => none :: some x :: r
  | c + 1, some x :: r => some x :: insertGapAt c r
  | c, none :: r => none :: insertGapAt c r

/-- the code before 0eea0ba09: every parent gap (a child COLUMN) is applied as a sequence position -/
def pinnedMerge {α : Type} (d : Bool) (full : List Pos) (row : Row α) : Row α :=
  (colGaps d full 0).foldl (fun r c => insertGapAt c r) row

/-- the row read through the completed positions: column `c` of the child where dimension `d` says `c`, a gap
where it says `None` -/
def specMerge {α : Type} (d : Bool) (full : List Pos) (row : Row α) : Row α :=
  full.map fun p => match dimOf d p with
    | some c => (row[c]?).getD none
    | none => none

def mergeRow {α : Type} (fixed d : Bool) (full : List Pos) (row : Row α) : Row α :=
  if fixed then specMerge d full row else pinnedMerge d full row

/-- the columns of the parent that come from child `d`, i.e. the parent row restricted to the child's columns -/
def project {α : Type} (d : Bool) : List Pos → Row α → Row α
  | p :: r, c :: cs => if (dimOf d p).isSome then c :: project d r cs else project d r cs
  | _, _ => []

/-! ### the guide tree -/

/-- a binary guide tree; every internal node carries the `aligned_positions` its DP returned -/
inductive GTree (α : Type) where
  | leaf (seq : List α)
  | node (l r : GTree α) (ap : List Pos)

namespace GTree
variable {α : Type}

/-- `len(pog)` of the alignable at a node: the sequence length / the number of completed positions -/
def width : GTree α → Nat
  | leaf s => s.length
  | node l r ap => (pogTraceback l.width r.width ap).length

/-- the completed positions at a node (`[]` for a leaf) -/
def full : GTree α → List Pos
  | leaf _ => []
  | node l r ap => pogTraceback l.width r.width ap

/-- `alignable.aligneds` rendered: the rows of the sub-alignment below a node, left child's rows first -/
def rows (fixed : Bool) : GTree α → List (Row α)
  | leaf s => [s.map some]
  | node l r ap =>
    (l.rows fixed).map (mergeRow fixed false (pogTraceback l.width r.width ap)) ++
    (r.rows fixed).map (mergeRow fixed true (pogTraceback l.width r.width ap))

def leaves : GTree α → List (List α)
  | leaf s => [s]
  | node l r _ => l.leaves ++ r.leaves

/-- every node's `aligned_positions` is what a DP over the two children can return -/
def valid : GTree α → Bool
  | leaf _ => true
  | node l r ap => l.valid && r.valid && apValid l.width r.width ap 0 0

end GTree

end CogentModel.Progressive
