/-
  C19 — executable model of the file-system protocol of `cogent3.util.io.atomic_write`
  (constructor/_make_tmppath, __enter__, write*, __exit__ → _close_rename_standard /
  _close_rename_zip, failure → rmtree) over a small total model of a file system.

  Import-free (compiled into drv_c19).

  * `FS`   : paths ↦ node (file with content / directory / zip archive), a total function.
  * `Call` : the system-call alphabet, `step` its total semantics (errors as `Errno`).
  * `program cfg` : the calls `atomic_write` issues on the no-fault path, each tagged with the
    phase of the Python code it belongs to (that decides which handler runs when it raises).
  * crash  = execute a prefix of the program (`crashState`);
    fault  = call k raises without effect, then the code's handler runs (`faultState`).
  * The model is parametric in the commit strategy (`unlinkRename`: what the pinned tree does,
    `replace`: one atomic rename over the destination) and in `guarded` (cleanup in a
    `finally` + guard around the open in `__enter__`); the harness detects from the extracted
    real traces which variant the code follows.
-/
namespace CogentModel.AtomicWrite

abbrev Path := List Nat
abbrev Data := List Nat

inductive Node where
  | file (d : Data)
  | dir
  /-- a zip archive: its members, and whether the central directory is currently missing
      (member data has been appended over it and the new directory is not yet written) -/
  | archive (members : List (Nat × Data)) (torn : Bool)
  deriving DecidableEq, Repr

abbrev FS := Path → Option Node

def upd (fs : FS) (p : Path) (v : Option Node) : FS := fun q => if q = p then v else fs q

/-- `under d p`: `p` is `d` or lies below `d` -/
def under (d p : Path) : Bool := d.isPrefixOf p

def parent (p : Path) : Path := p.dropLast

inductive Errno where
  | enoent | eexist | eisdir | enotdir | ebadf | ebadzip
  deriving DecidableEq, Repr

inductive Call where
  | mkdir (d : Path)                    -- tempfile.mkdtemp → os.mkdir of a fresh name
  | openW (p : Path)                    -- open(p, 'w'): create or truncate
  | write (p : Path) (chunk : Data)     -- write on the open file
  | close (p : Path)
  | unlink (p : Path)                   -- Path.unlink → os.remove
  | rename (src dst : Path)             -- os.rename / os.replace (POSIX: replaces dst atomically)
  | rmtree (d : Path)                   -- shutil.rmtree
  | zipData (z : Path) (name : Nat) (src : Path)  -- ZipFile(z,'a').write: member data goes over the old central directory
  | zipDir (z : Path)                   -- ZipFile.close: the new central directory is written
  | zipTrunc (z : Path)                 -- zipfile's own fallback: open(z,'r+b') failed -> open(z,'w+b'): a fresh empty archive
  deriving DecidableEq, Repr

def isDir (fs : FS) (p : Path) : Bool := fs p == some .dir

/-- total semantics of one call -/
def step (fs : FS) : Call → Except Errno FS
  | .mkdir d =>
    if (fs d).isSome then .error .eexist
    else if isDir fs (parent d) then .ok (upd fs d (some .dir))
    else .error .enoent
  | .openW p =>
    if isDir fs p then .error .eisdir
    else if isDir fs (parent p) then .ok (upd fs p (some (.file [])))
    else .error .enoent
  | .write p c =>
    match fs p with
    | some (.file d) => .ok (upd fs p (some (.file (d ++ c))))
    | _ => .error .ebadf
  | .close _ => .ok fs
  | .unlink p =>
    match fs p with
    | none => .error .enoent
    | some .dir => .error .eisdir
    | some _ => .ok (upd fs p none)
  | .rename s d =>
    match fs s with
    | none => .error .enoent
    | some .dir => .error .eisdir
    | some n =>
      if isDir fs d then .error .eisdir
      else if isDir fs (parent d) then .ok (upd (upd fs d (some n)) s none)
      else .error .enoent
  | .rmtree d =>
    if isDir fs d then .ok (fun q => if under d q then none else fs q)
    else .error .enoent
  | .zipData z name src =>
    match fs src with
    | some (.file c) =>
      match fs z with
      | none => if isDir fs (parent z) then .ok (upd fs z (some (.archive [(name, c)] true))) else .error .enoent
      | some (.archive ms false) => .ok (upd fs z (some (.archive (ms ++ [(name, c)]) true)))
      | some _ => .error .ebadzip
    | _ => .error .enoent
  | .zipDir z =>
    match fs z with
    | some (.archive ms _) => .ok (upd fs z (some (.archive ms false)))
    | _ => .error .ebadzip
  | .zipTrunc z =>
    if isDir fs z then .error .eisdir
    else if isDir fs (parent z) then .ok (upd fs z (some (.archive [] false)))
    else .error .enoent

/-- the paths a call may modify -/
def writesTo : Call → Path → Bool
  | .mkdir d, p => p == d
  | .openW q, p => p == q
  | .write q _, p => p == q
  | .close _, _ => false
  | .unlink q, p => p == q
  | .rename s d, p => p == s || p == d
  | .rmtree d, p => under d p
  | .zipData z _ _, p => p == z
  | .zipDir z, p => p == z
  | .zipTrunc z, p => p == z

/-- which part of the Python code issues a call (decides the handler when it raises) -/
inductive Phase where
  | ctor          -- atomic_write.__init__ → _make_tmppath → mkdtemp
  | enter         -- __enter__ → _get_fileobj → open_
  | body          -- the writer's with-block: f.write(...)
  | exitClose     -- __exit__: self._file.close()
  | commitUnlink  -- _close_rename_standard: dest.unlink() (FileNotFoundError is swallowed)
  | commitRename  -- _close_rename_standard: src.rename(dest)   (in the `finally`)
  | zipData       -- _close_rename_zip: ZipFile(in_zip,'a').write
  | zipDir        -- _close_rename_zip: leaving the `with ZipFile` block
  | cleanup       -- shutil.rmtree(tmp dir)
  deriving DecidableEq, Repr

structure Instr where
  call : Call
  phase : Phase
  deriving DecidableEq, Repr

inductive Commit where
  | unlinkRename    -- dest.unlink(); src.rename(dest)      (the pinned tree)
  | replace         -- src.replace(dest)                    (one call)
  deriving DecidableEq, Repr

structure Cfg where
  commit : Commit
  /-- cleanup runs in a `finally` of `__exit__` and `__enter__` guards the open -/
  guarded : Bool
  /-- the writer uses `with atomic_write(...) as f:` (false: a bare object closed at the end, `Table.write`) -/
  withBlock : Bool
  /-- the writer's own `except` clause unlinks the destination before re-raising
      (`format/alignment.py save_to_filename`) -/
  bodyUnlink : Bool
  /-- the writer closes the file itself inside the with-block (`write_alignment_to_file: f.close()`),
      so a failing close is handled like a failing write -/
  closeInBody : Bool
  /-- directory holding the destination (and the temp dir) -/
  dir : Path
  /-- destination file name (for a zip-member target: the archive's file name) -/
  name : Nat
  /-- name chosen by mkdtemp -/
  t : Nat
  /-- uuid file name inside the temp dir -/
  u : Nat
  chunks : List Data
  /-- `some m`: the target is member `m` of the archive `dir/name` (`in_zip`) -/
  zipMember : Option Nat
  deriving Repr

/-- one write job: where, what, under which fresh temp names; `closeInBody` = the writer closes the
    file itself inside its with-block (harmless either way) -/
structure Job where
  dir : Path
  name : Nat
  t : Nat
  u : Nat
  chunks : List Data
  closeInBody : Bool
  zipMember : Option Nat
  deriving Repr

/-- **the code as it is now** (util/io.py after `fix:` 3deaff175, format/alignment.py after ff8d48a2e,
    util/table.py after 5df264d66): one-call commit `src.replace(dest)`, cleanup in a `finally`,
    guarded `__enter__`, every writer inside a with-block, no writer-level unlink of the destination.
    The other values of the variant fields describe historical versions and are kept only so that a
    regression can be named (see the `historical_*` theorems). -/
def Job.cfg (j : Job) : Cfg :=
  { commit := .replace, guarded := true, withBlock := true, bodyUnlink := false, closeInBody := j.closeInBody,
    dir := j.dir, name := j.name, t := j.t, u := j.u, chunks := j.chunks, zipMember := j.zipMember }

def Cfg.dest (c : Cfg) : Path := c.dir ++ [c.name]
def Cfg.tmpdir (c : Cfg) : Path := c.dir ++ [c.t]
def Cfg.tmpfile (c : Cfg) : Path := c.dir ++ [c.t] ++ [c.u]
def Cfg.newData (c : Cfg) : Data := c.chunks.flatten

def writes (c : Cfg) (chunks : List Data) : List Instr :=
  chunks.map fun ch => ⟨.write c.tmpfile ch, .body⟩

/-- the (one effective) close of the temp file: at the top of `__exit__`, or already inside the
    writer's with-block -/
def closeInstr (c : Cfg) : Instr := ⟨.close c.tmpfile, if c.closeInBody then .body else .exitClose⟩

/-- constructor, `__enter__`, the body's writes and the `close()` -/
def pre (c : Cfg) : List Instr :=
  [⟨.mkdir c.tmpdir, .ctor⟩, ⟨.openW c.tmpfile, .enter⟩] ++ writes c c.chunks ++ [closeInstr c]

def commitInstrs (c : Cfg) : List Instr :=
  match c.zipMember with
  | some m => [⟨.zipData c.dest m c.tmpfile, .zipData⟩, ⟨.zipDir c.dest, .zipDir⟩]
  | none =>
    match c.commit with
    | .unlinkRename => [⟨.unlink c.dest, .commitUnlink⟩, ⟨.rename c.tmpfile c.dest, .commitRename⟩]
    | .replace => [⟨.rename c.tmpfile c.dest, .commitRename⟩]

def post (c : Cfg) : List Instr := commitInstrs c ++ [⟨.rmtree c.tmpdir, .cleanup⟩]

/-- the calls of one successful `with atomic_write(dest) as f: f.write(chunk)*` -/
def program (c : Cfg) : List Instr := pre c ++ post c

/-- one instruction as the code runs it: `except FileNotFoundError: pass` around the unlink
    (phase `commitUnlink` also tags the writer's own `try: os.unlink(dest) except Exception: pass`) -/
def runInstr (fs : FS) (i : Instr) : Except Errno FS :=
  match step fs i.call with
  | .ok fs' => .ok fs'
  | .error e => if i.phase = .commitUnlink ∧ e = .enoent then .ok fs else .error e

/-- run a list of instructions, stopping at the first error that is not swallowed -/
def exec (fs : FS) : List Instr → FS × Option Errno
  | [] => (fs, none)
  | i :: is =>
    match runInstr fs i with
    | .ok fs' => exec fs' is
    | .error e => (fs, some e)

/-- the process dies just before call `k` (0 ≤ k ≤ length): exactly the first `k` calls happened -/
def crashState (c : Cfg) (fs : FS) (k : Nat) : FS := (exec fs ((program c).take k)).1

/-- what the code does after the call in the given phase raised `OSError` -/
def handler (c : Cfg) : Phase → List Instr
  | .ctor => []
  | .enter => if c.guarded then [⟨.rmtree c.tmpdir, .cleanup⟩] else []
  | .body =>
    -- `except Exception: try: os.unlink(filename) except Exception: pass; raise` of save_to_filename,
    -- then `__exit__(exc)`: close, rmtree
    (if c.bodyUnlink then [⟨.unlink c.dest, .commitUnlink⟩] else []) ++
    (if c.withBlock then [⟨.close c.tmpfile, .exitClose⟩, ⟨.rmtree c.tmpdir, .cleanup⟩] else [])
  | .exitClose => if c.guarded then [⟨.rmtree c.tmpdir, .cleanup⟩] else []
  | .commitUnlink =>
    -- `finally: src.rename(dest)` still runs, then the error propagates past the rmtree
    if c.guarded then [⟨.rmtree c.tmpdir, .cleanup⟩] else [⟨.rename c.tmpfile c.dest, .commitRename⟩]
  | .commitRename => if c.guarded then [⟨.rmtree c.tmpdir, .cleanup⟩] else []
  | .zipData =>
    -- the failing call is the ZipFile constructor's open(archive, 'r+b'): zipfile itself swallows the OSError and
    -- retries with 'w+b' (a fresh, EMPTY archive), so no exception reaches cogent3 and the write goes on
    if c.guarded then
      (match c.zipMember with
       | some m => [⟨.zipTrunc c.dest, .zipData⟩, ⟨.zipData c.dest m c.tmpfile, .zipData⟩, ⟨.zipDir c.dest, .zipDir⟩]
       | none => []) ++ [⟨.rmtree c.tmpdir, .cleanup⟩]
    else []
  | .zipDir => if c.guarded then [⟨.rmtree c.tmpdir, .cleanup⟩] else []
  | .cleanup => []

def phaseAt (c : Cfg) (k : Nat) : Phase :=
  match (program c)[k]? with
  | some i => i.phase
  | none => .cleanup

/-- call `k` raises (without any effect), then the code's handler runs -/
def faultState (c : Cfg) (fs : FS) (k : Nat) : FS :=
  (exec (crashState c fs k) (handler c (phaseAt c k))).1

/-- the calls issued when call `k` raises: the first `k`, the failing one, then the handler's -/
def faultTrace (c : Cfg) (k : Nat) : List Instr :=
  (program c).take (k + 1) ++ handler c (phaseAt c k)

/-! ### `atomic_write(path, tmpdir=D)`: the temp file lives in a directory supplied by the caller -/

inductive TmpCleanup where
  | rmtreeDir    -- historical (before 9c9e074c9): `shutil.rmtree(self._tmppath.parent)` — the caller's directory
  | unlinkFile   -- THE model of the code as it is now: only the temp file is removed
  deriving DecidableEq, Repr

/-- the calls of a successful write on the `tmpdir=` route: no mkdtemp; `c.tmpdir` is the caller's directory -/
def programTmp (c : Cfg) (cl : TmpCleanup) : List Instr :=
  [⟨.openW c.tmpfile, .enter⟩] ++ writes c c.chunks ++ [closeInstr c] ++ [⟨.rename c.tmpfile c.dest, .commitRename⟩] ++
    [match cl with
     | .rmtreeDir => ⟨.rmtree c.tmpdir, .cleanup⟩
     | .unlinkFile => ⟨.unlink c.tmpfile, .commitUnlink⟩]

/-- readable members of an archive node (`none`: unreadable / not an archive) -/
def readable : Option Node → Option (List (Nat × Data))
  | some (.archive ms false) => some ms
  | _ => none

/-- index of the commit point: the call after which the destination shows the new content -/
def renameIdx (c : Cfg) : Nat :=
  (pre c).length + (match c.commit with | .unlinkRename => 1 | .replace => 0)

end CogentModel.AtomicWrite
