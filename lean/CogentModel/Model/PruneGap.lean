import CogentModel.Model.Prune
/-!
  C02: the extra all-gap column of `_LikelihoodTreeEdge.__init__` (likelihood_tree.py)

      (uniq, counts, self.index) = _indexed(list(zip(*assignments)))
      # extra column for gap
      uniq.append(tuple([len(c.uniq) - 1 for c in children]))
      counts.append(0)

  Every node's table of unique columns gets one more row — the tuple of the children's own extra rows — with count 0 that no
  alignment column points to (the pairwise aligner uses it; for a likelihood function it is dead weight that must stay
  weightless).  `Model/PruneCompressed.lean` leaves it out; here it is, with the consumers of `counts` and `index`
  (`get_log_sum_across_sites`, `get_full_length_likelihoods`) run over the extended arrays.  Import-free.
-/
namespace CogentModel.Prune

/-- `tuple([len(c.uniq) - 1 for c in children])`: the children's unique-column counts (their gap row included) -/
def gapKey (childUniqLens : List Nat) : List Nat := childUniqLens.map (· - 1)

/-- `_indexed` followed by `uniq.append(gap); counts.append(0)` -/
def indexedGap {κ : Type} [DecidableEq κ] (gap : κ) (values : List κ) : Indexed κ :=
  let ix := indexed values
  { uniq := ix.uniq ++ [gap], counts := ix.counts ++ [0], index := ix.index }

/-- `get_log_sum_across_sites` over the arrays of a real node (gap row included) -/
def lnLCompressedGap {κ S : Type} [DecidableEq κ] [Add S] [Zero S] (g : κ → S) (gap : κ) (cols : List κ) : S :=
  let ix := indexedGap gap cols
  weightedLogSum g ix.uniq ix.counts

/-- `likelihoods[self.index]` over the arrays of a real node (gap row included) -/
def fullLengthGap {κ S : Type} [DecidableEq κ] [Zero S] (g : κ → S) (gap : κ) (cols : List κ) : List S :=
  let ix := indexedGap gap cols
  let vals := ix.uniq.map g
  ix.index.map fun i => vals.getD i 0

end CogentModel.Prune
