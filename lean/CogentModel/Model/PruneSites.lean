import CogentModel.Model.Prune
/-!
  C02, second part: what `make_total_loglikelihood_defn` does AFTER the per-column likelihoods exist.

  * several loci: `tll = SumDefn(*tll.across_dimension("locus", locus_names))` — Python `sum`, i.e.
    `0 + lnL(locus 1) + lnL(locus 2) + …`, every locus with its own alignment and its own parameters.
  * `sites_independent=False`: `PatchSiteDistribution` / `SiteHmm` / `LikelihoodTreeEdge.log_dot_reduce`
    (likelihood_calculation.py l.185-256, likelihood_tree.py l.171-179) and
    `maths/markov.py SiteClassTransitionMatrix`.  The bins are allocated to two "patches"
    (`alloc = [0]*half + [1]*(n-half)`), the hidden state of a site is its patch, the switch matrix is built from
    the patch probabilities and the `bin_switch` parameter, and the loop

        state_probs = patch_probs.copy()
        for site in self.index:
            state_probs = numpy.dot(state_probs, switch_probs) * plhs[site]
        return log(sum(state_probs))              # (+ rescaling by 2**100, immaterial in exact arithmetic)

    is mirrored AS WRITTEN (since fix 6668db777): `numpy.dot(state_probs, switch_probs)[j] = Σ_i state_probs[i] · switch_probs[i, j]`
    (the row vector of class probabilities times the matrix whose entry `[i, j]` is the probability of going from `i` to `j`).
    The loop BEFORE that fix (`numpy.dot(switch_probs, state_probs)`, the matrix acting from the wrong side) is kept as
    `stepOld` / `forwardOld` for the regression note (`hmm_old_orientation_counter`) and so that the driver can name a
    regression back to it.

  Import-free, generic in the number type.
-/
namespace CogentModel.PruneSites
open CogentModel.Prune

/-! ## several loci -/

/-- `SumDefn.calc = sum(args)`: left fold from `0` -/
def sumDefn {S : Type} [Add S] [Zero S] (xs : List S) : S := xs.foldl (· + ·) 0

/-- total log-likelihood of a multi-locus likelihood function: every locus has its own per-column function
`g` (its own tree parameters, motif probabilities, `log ∘ lh`) and its own alignment columns, compressed separately -/
def lnLLoci {κ S : Type} [DecidableEq κ] [Add S] [Zero S] (loci : List ((κ → S) × List κ)) : S :=
  sumDefn (loci.map fun (g, cols) => lnLCompressed g cols)

/-! ## hidden Markov chain over site classes -/

section forward
variable {R : Type} [Add R] [Mul R] [Zero R] [One R]

/-- loop body of `log_dot_reduce`: `numpy.dot(state_probs, switch_probs) * plhs[site]` -/
@[noinline] def step (k : Nat) (M : Mat R) (sp : Vec R) (e : Nat → R) : Vec R :=
  tabulate k (fun j => sumOver k (fun i => sp.get i * M i j) * e j)

def forwardGo (k : Nat) (M : Mat R) : List (Nat → R) → Vec R → Vec R
  | [], sp => sp
  | e :: es, sp => forwardGo k M es (step k M sp e)

/-- `sum(state_probs)` after the loop over the sites; `es` = the emission vector of every site in order -/
def forward (k : Nat) (M : Mat R) (init : Nat → R) (es : List (Nat → R)) : R :=
  sumOver k (forwardGo k M es ⟨init⟩).get

/-- `M` with the roles of its two indices exchanged -/
def transpose (M : Mat R) : Mat R := fun i j => M j i

/-- REGRESSION NOTE — the loop body as it was before fix 6668db777: `numpy.dot(switch_probs, state_probs) * plhs[site]`,
i.e. `Σ_i switch_probs[j, i] · state_probs[i]` -/
@[noinline] def stepOld (k : Nat) (M : Mat R) (sp : Vec R) (e : Nat → R) : Vec R :=
  tabulate k (fun j => sumOver k (fun i => M j i * sp.get i) * e j)

def forwardOldGo (k : Nat) (M : Mat R) : List (Nat → R) → Vec R → Vec R
  | [], sp => sp
  | e :: es, sp => forwardOldGo k M es (stepOld k M sp e)

/-- the pre-fix loop, summed -/
def forwardOld (k : Nat) (M : Mat R) (init : Nat → R) (es : List (Nat → R)) : R :=
  sumOver k (forwardOldGo k M es ⟨init⟩).get

/-- all state paths of length `n` over the states `0 … k-1` -/
def paths (k : Nat) : Nat → List (List Nat)
  | 0 => [[]]
  | n + 1 => (List.range k).flatMap fun z => (paths k n).map (z :: ·)

/-- `Π_t T[z_{t-1}, z_t] · e_t[z_t]` along a path entered from state `prev` -/
def chainW (T : Mat R) : Nat → List (Nat → R) → List Nat → R
  | prev, e :: es, z :: zs => (T prev z * e z) * chainW T z es zs
  | _, _, _ => 1

/-- weight of a complete path under the published definition of a stationary hidden Markov chain:
`π[z_0] e_0[z_0] · Π_{t ≥ 1} T[z_{t-1}, z_t] e_t[z_t]` (`T[i, j]` = probability of moving from `i` to `j`) -/
def pathW (π : Nat → R) (T : Mat R) : List (Nat → R) → List Nat → R
  | e :: es, z :: zs => (π z * e z) * chainW T z es zs
  | _, _ => 1

/-- THE SPEC: the likelihood is the sum over every assignment of a class to every site -/
def bruteHmm (k : Nat) (π : Nat → R) (T : Mat R) (es : List (Nat → R)) : R :=
  ((paths k es.length).map (pathW π T es)).sum

/-- what the loop computes, as a sum over paths with one extra state in front (`z_{-1}`, drawn from `init`) -/
def pathWPre (init : Nat → R) (T : Mat R) (es : List (Nat → R)) : List Nat → R
  | p :: zs => init p * chainW T p es zs
  | [] => 0

def bruteHmmPre (k : Nat) (init : Nat → R) (T : Mat R) (es : List (Nat → R)) : R :=
  ((paths k (es.length + 1)).map (pathWPre init T es)).sum

end forward

/-! ## `SiteClassTransitionMatrix`, `PatchSiteDistribution` -/

section patches
variable {R : Type} [Add R] [Mul R] [Sub R] [Zero R] [One R]

/-- `(1.0 - I) * (probs * switch) + I * (1.0 - (1.0 - probs) * switch)` -/
def switchMatrix (switch : R) (probs : Nat → R) : Mat R := fun i j =>
  let d : R := if i = j then 1 else 0
  (1 - d) * (probs j * switch) + d * (1 - (1 - probs j) * switch)

/-- `alloc = [0] * half + [1] * (len(bprobs) - half)` with `half = len(bprobs) // 2` -/
def alloc (nbins : Nat) (b : Nat) : Nat := if b < nbins / 2 then 0 else 1

/-- `pprobs[b] += p for b, p in zip(alloc, bprobs)` -/
def patchProbs (bprobs : List R) (a : Nat) : R :=
  sumOver bprobs.length (fun b => if alloc bprobs.length b = a then bprobs.getD b 0 else 0)

variable [Div R]

/-- `self.bprobs = [p / pprobs[self.alloc[i]] for i, p in enumerate(bprobs)]` -/
def condProbs (bprobs : List R) (b : Nat) : R :=
  bprobs.getD b 0 / patchProbs bprobs (alloc bprobs.length b)

/-- `get_weighted_sum_lhs`: `result[patch] += lh * weight`; `lhs b` = likelihood of the site under bin `b` -/
def patchEmission (bprobs : List R) (lhs : Nat → R) (a : Nat) : R :=
  sumOver bprobs.length (fun b => if alloc bprobs.length b = a then lhs b * condProbs bprobs b else 0)

/-- number of patches: `max(alloc) + 1` -/
def npatch (nbins : Nat) : Nat := alloc nbins (nbins - 1) + 1

/-- the per-site emission vectors `get_weighted_sum_lhs` hands to `log_dot_reduce` -/
def siteEmissions (bprobs : List R) (lhs : List (List R)) (index : List Nat) : List (Nat → R) :=
  index.map fun u =>
    let v := tabulate (npatch bprobs.length) (patchEmission bprobs fun b => (lhs.getD b []).getD u 0)
    v.get

/-- `SiteHmm.__call__`: likelihood (before `log`) of the whole alignment; `lhs[b][u]` = likelihood of unique column
`u` under bin `b`, `index` = column → unique column -/
def siteHmm (bprobs : List R) (switch : R) (lhs : List (List R)) (index : List Nat) : R :=
  let pp := patchProbs bprobs
  forward (npatch bprobs.length) (switchMatrix switch pp) pp (siteEmissions bprobs lhs index)

/-! ### the published definition at the level of the BINS (spec side; what `siteHmm` is proved equal to) -/

/-- probability of moving from bin `b` to bin `c`: move between their patches, then draw `c` within its patch -/
def binMatrix (bprobs : List R) (switch : R) : Mat R := fun b c =>
  switchMatrix switch (patchProbs bprobs) (alloc bprobs.length b) (alloc bprobs.length c) * condProbs bprobs c

/-- per site the likelihood under every bin: `lhs[b][index[site]]` -/
def binEmissions (lhs : List (List R)) (index : List Nat) : List (Nat → R) :=
  index.map fun u b => (lhs.getD b []).getD u 0

/-- REGRESSION NOTE: `SiteHmm.__call__` with the pre-fix loop -/
def siteHmmOld (bprobs : List R) (switch : R) (lhs : List (List R)) (index : List Nat) : R :=
  let pp := patchProbs bprobs
  forwardOld (npatch bprobs.length) (switchMatrix switch pp) pp (siteEmissions bprobs lhs index)

end patches

end CogentModel.PruneSites
