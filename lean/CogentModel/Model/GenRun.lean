import CogentModel.Gen.C07Rules
/-
  C07 — histories of ParameterController operations executed by the GENERATED (translated) methods of
  `Gen/C07Rules.lean`.  Import-free (compiled into the driver: the translator's self-test runs these on the
  same histories as the REAL ParameterController).
-/
namespace CogentModel.C07
open CogentModel.Ctl CogentModel.Gen.C07Ctl
variable {V : Type} [Inhabited V]

/-- hand model of `ParameterController.update_from_calculator(calc)`: every LEAF definition's setting becomes the
value the calculator holds for it, every leaf is marked, then the dirty definitions are recomputed -/
def fromCalc (g : Ctl.Graph V) (s : Ctl.St V) (cv : Nat → V) : Ctl.St V :=
  Ctl.updateIntermediate g
    { s with setting := fun j => if (List.range g.length).contains j && Prim.isLeaf g j then cv j else s.setting j,
             changed := s.changed ++ (List.range g.length).filter (fun k => Prim.isLeaf g k) }

/-- hand model of what `make_calculator()` does to the controller: `defn.update()` on EVERY definition in
topological order, whatever the dirty set and the suspension flag say (neither is touched) -/
def refreshAll (g : Ctl.Graph V) (s : Ctl.St V) : Ctl.St V :=
  { s with values := (Ctl.updateLoop g (List.range g.length) { s with changed := List.range g.length }).values }

/-- operations on a ParameterController; `updateAll` is `update_intermediate_values()` (every definition marked), `fromCalc` is `update_from_calculator`,
an `assign` may name a derived definition (then `assign_all` raises ValueError) -/
inductive GOp (V : Type) where
  | assign (k : Nat) (v : V)
  | enter
  | exit
  | xexit
  | updateAll
  | fromCalc (cv : Nat → V)    -- update_from_calculator: the hand-back at the end of optimise()
  | makeCalc                   -- make_calculator(): every definition recomputed (hand model `refreshAll`)

/-- one operation executed by the TRANSLATED methods; the `old` flag each `updates_postponed` frame holds lives on
`stack` (the python call stack of the generator frames) -/
def genStep (g : Ctl.Graph V) (s : Ctl.St V) : GOp V → Except String (Ctl.St V)
  | .assign k v => Gen.C07Ctl.assign_all g s k v
  | .enter => (updates_postponed_enter g s).map (fun r => { r.1 with stack := r.2 :: r.1.stack })
  | .exit =>
    match s.stack with
    | [] => .ok s
    | old :: rest => updates_postponed_exit g { s with stack := rest } old
  | .xexit =>
    match s.stack with
    | [] => .ok s
    | old :: rest => updates_postponed_xexit g { s with stack := rest } old
  | .updateAll => update_intermediate_values g s none
  | .fromCalc cv => update_from_calculator g s cv
  | .makeCalc => .ok (refreshAll g s)

/-- a history; an operation that raises leaves the state it raised in (Except discards nothing here: the translated
`assign_all` raises before its first assignment) -/
def genRun (g : Ctl.Graph V) : Ctl.St V → List (GOp V) → Ctl.St V
  | s, [] => s
  | s, o :: os =>
    match genStep g s o with
    | .ok s' => genRun g s' os
    | .error _ => genRun g s os

end CogentModel.C07
