import CogentModel.Gen.C07Rules
/-
  C07 — histories of ParameterController operations executed by the GENERATED (translated) methods of
  `Gen/C07Rules.lean`.  Import-free (compiled into the driver: the translator's self-test runs these on the
  same histories as the REAL ParameterController).
-/
namespace CogentModel.C07
open CogentModel.Ctl CogentModel.Gen.C07Ctl
variable {V : Type} [Inhabited V]

/-- operations on a ParameterController; `updateAll` is `update_intermediate_values()` (every definition marked),
an `assign` may name a derived definition (then `assign_all` raises ValueError) -/
inductive GOp (V : Type) where
  | assign (k : Nat) (v : V)
  | enter
  | exit
  | xexit
  | updateAll

/-- one operation executed by the TRANSLATED methods; the `old` flag each `updates_postponed` frame holds lives on
`stack` (the python call stack of the generator frames) -/
def genStep (g : Ctl.Graph V) (s : Ctl.St V) : GOp V → Except String (Ctl.St V)
  | .assign k v => Gen.C07Ctl.assign_all g s k v
  | .enter => (updates_postponed_enter g s).map (fun r => { r.1 with stack := r.2 :: r.1.stack })
  | .exit =>
    match s.stack with
    | [] => .ok s
    | old :: rest => updates_postponed_exit g { s with stack := rest } old
  | .xexit =>
    match s.stack with
    | [] => .ok s
    | old :: rest => updates_postponed_xexit g { s with stack := rest } old
  | .updateAll => update_intermediate_values g s none

/-- a history; an operation that raises leaves the state it raised in (Except discards nothing here: the translated
`assign_all` raises before its first assignment) -/
def genRun (g : Ctl.Graph V) : Ctl.St V → List (GOp V) → Ctl.St V
  | s, [] => s
  | s, o :: os =>
    match genStep g s o with
    | .ok s' => genRun g s' os
    | .error _ => genRun g s os

end CogentModel.C07
