/-
  C05 — executable model of the *rational* exponentiators of
  `cogent3/maths/matrix_exponentiation.py`: `TaylorExponentiator.__call__` and
  `PadeExponentiator.__call__` (scaling, numerator / denominator polynomials, `solve`,
  squarings), with `numpy.linalg.solve` modelled as exact Gauss–Jordan elimination.
  Generic in the scalar type (see `Model/RateMatrix.lean`); no imports outside the project.
-/
import CogentModel.Model.RateMatrix
namespace CogentModel.Expm
open CogentModel.RateMatrix
universe u

section ring
variable {α : Type u} [Zero α] [One α] [Add α] [Sub α] [Mul α] [Div α]

def ident (n : Nat) : Mat α := tab n fun i j => if i = j then 1 else 0
def matMul (n : Nat) (A B : Mat α) : Mat α := tab n fun i j => sumTo n fun k => mget A i k * mget B k j
def matAdd (n : Nat) (A B : Mat α) : Mat α := tab n fun i j => mget A i j + mget B i j
def matSub (n : Nat) (A B : Mat α) : Mat α := tab n fun i j => mget A i j - mget B i j
def matScale (n : Nat) (c : α) (A : Mat α) : Mat α := tab n fun i j => c * mget A i j
def matDivS (n : Nat) (A : Mat α) (c : α) : Mat α := tab n fun i j => mget A i j / c

/-- `F = dot(F, F)` repeated `j` times -/
def sqN (n : Nat) : Nat → Mat α → Mat α
  | 0, F => F
  | j + 1, F => sqN n j (matMul n F F)

/-! ## Taylor -/

/-- the `for k in range(1, q)` loop, started at `k`, `m` iterations left:
`trm = dot(trm, A / float(k)); eA += trm` -/
def taylorLoop [NatCast α] (n : Nat) (A : Mat α) : Nat → Nat → Mat α → Mat α → Mat α × Mat α
  | 0, _, eA, trm => (eA, trm)
  | m + 1, k, eA, trm =>
    let trm' := matMul n trm (matDivS n A (k : α))
    taylorLoop n A m (k + 1) (matAdd n eA trm') trm'

/-- fixed-order Taylor sum `∑_{k<q} A^k / k!` (the value after the `for` loop, `q ≥ 1`) -/
def taylorFixed [NatCast α] (n : Nat) (A : Mat α) (q : Nat) : Mat α × Mat α :=
  taylorLoop n A (q - 1) 1 (ident n) (ident n)

end ring

section ordered
variable {α : Type u} [Zero α] [One α] [Add α] [Sub α] [Mul α] [Div α] [Neg α] [NatCast α]
  [LT α] [DecidableLT α] [LE α] [DecidableLE α]

/-- `numpy.allclose(eA, eA - trm)` with the default `rtol=1e-5, atol=1e-8` evaluated exactly:
`|a - b| ≤ atol + rtol·|b|` for every entry, `b = eA - trm` -/
def allcloseStop (n : Nat) (rtol atol : α) (eA trm : Mat α) : Bool :=
  (List.range n).all fun i => (List.range n).all fun j =>
    decide (absA (mget trm i j) ≤ atol + rtol * absA (mget eA i j - mget trm i j))

/-- the `while not allclose(eA, eA - trm)` lengthening loop (`fuel` bounds it; returns the last `k`) -/
def taylorExtend (n : Nat) (rtol atol : α) (A : Mat α) : Nat → Nat → Mat α → Mat α → Mat α × Nat
  | 0, k, eA, _ => (eA, k)
  | fuel + 1, k, eA, trm =>
    if allcloseStop n rtol atol eA trm then (eA, k)
    else
      let k' := k + 1
      let trm' := matMul n trm (matDivS n A (k' : α))
      taylorExtend n rtol atol A fuel k' (matAdd n eA trm') trm'

/-- `TaylorExponentiator(Q)(t)` with `self.q = q`: returns `(eA, k)`; the new `self.q` is `k+1` if `k ≥ q` -/
def taylor (n : Nat) (rtol atol : α) (Q : Mat α) (t : α) (q fuel : Nat) : Mat α × Nat :=
  let A := matScale n t Q
  let (eA, trm) := taylorFixed n A q
  taylorExtend n rtol atol A fuel (q - 1) eA trm

end ordered

/-! ## `solve` : exact Gauss–Jordan on the augmented matrix `[D | N]` -/

section solve
variable {α : Type u} [Zero α] [One α] [Add α] [Sub α] [Mul α] [Div α] [DecidableEq α]

/-- first row `r ≥ c` (among `c, …, c+m-1`) with a non-zero entry in column `c` -/
def findPivot (D : Mat α) (c : Nat) : Nat → Nat → Option Nat
  | 0, _ => none
  | m + 1, r => if mget D r c = 0 then findPivot D c m (r + 1) else some r

/-- one elimination step on column `c` of the pair `(D, N)` -/
def elimStep (n : Nat) (c : Nat) (D N : Mat α) : Option (Mat α × Mat α) :=
  match findPivot D c (n - c) c with
  | none => none
  | some p =>
    let sw := fun (M : Mat α) => tab n fun i j =>
      if i = c then mget M p j else if i = p then mget M c j else mget M i j
    let D1 := sw D
    let N1 := sw N
    let piv := mget D1 c c
    let el := fun (M : Mat α) => tab n fun i j =>
      if i = c then mget M c j / piv else mget M i j - mget D1 i c * (mget M c j / piv)
    some (el D1, el N1)

def elimLoop (n : Nat) : Nat → Nat → Mat α → Mat α → Option (Mat α)
  | 0, _, _, N => some N
  | m + 1, c, D, N => match elimStep n c D N with
    | none => none
    | some (D', N') => elimLoop n m (c + 1) D' N'

/-- `numpy.linalg.solve(D, N)`; `none` = singular (`LinAlgError`) -/
def solve (n : Nat) (D N : Mat α) : Option (Mat α) := elimLoop n n 0 D N

end solve

/-! ## Padé -/

section pade
variable {α : Type u} [Zero α] [One α] [Add α] [Sub α] [Mul α] [Div α] [NatCast α]

/-- the `for k in range(2, q+1)` loop of the Padé approximant, `m` iterations left -/
def padeLoop (n : Nat) (A : Mat α) (q : Nat) : Nat → Nat → α → Mat α → Mat α → Mat α → Mat α × Mat α
  | 0, _, _, _, N, D => (N, D)
  | m + 1, k, c, X, N, D =>
    let c' := c * ((q - k + 1 : Nat) : α) / ((k * (2 * q - k + 1) : Nat) : α)
    let X' := matMul n A X
    let cX := matScale n c' X'
    let N' := matAdd n N cX
    let D' := if k % 2 = 0 then matAdd n D cX else matSub n D cX
    padeLoop n A q m (k + 1) c' X' N' D'

/-- numerator and denominator of the order-`q` diagonal Padé approximant at the scaled matrix `A` -/
def padeND (n : Nat) (A : Mat α) (q : Nat) : Mat α × Mat α :=
  let c : α := 1 / ((2 : Nat) : α)
  let N := matAdd n (ident n) (matScale n c A)
  let D := matSub n (ident n) (matScale n c A)
  padeLoop n A q (q - 1) 2 c A N D

def pow2 : Nat → α
  | 0 => 1
  | j + 1 => pow2 j * ((2 : Nat) : α)

/-- `PadeExponentiator.__call__` after `q` and `j` have been chosen:
`A = Q*t / 2**j`, `F = solve(D, N)`, `j` squarings -/
def padeCore [DecidableEq α] (n : Nat) (Q : Mat α) (t : α) (q j : Nat) : Option (Mat α) :=
  let A := matDivS n (matScale n t Q) (pow2 j)
  let (N, D) := padeND n A q
  match solve n D N with
  | none => none
  | some F => some (sqN n j F)

end pade

/-! ## the eigen back-ends (`EigenExponentiator.__call__`, `CheckedExponentiator`'s reconstruction)

`eig`, `inv` and `numpy.exp` are *inputs* here: `evT`, `evI` are the matrices stored by `FastExponentiator` /
`CheckedExponentiator` (`roots, evT = eig(Q); ev = evT.T; evI = inv(ev)`), `e k` stands for `exp(t * roots[k])`. -/
section eigen
variable {α : Type u} [Zero α] [One α] [Add α] [Mul α]

/-- `numpy.inner(self.evT * exp_roots, self.evI)`: `result[i, j] = ∑_k evT[i, k] * e[k] * evI[j, k]` -/
def eigenCall (n : Nat) (evT evI : Mat α) (e : Vec α) : Mat α :=
  tab n fun i j => sumTo n fun k => mget evT i k * vget e k * mget evI j k

/-- `numpy.maximum(result, 0.0)` -/
def clip0 [LT α] [DecidableLT α] (n : Nat) (P : Mat α) : Mat α :=
  tab n fun i j => if mget P i j < 0 then 0 else mget P i j

/-- `reQ = numpy.inner(ev.T * roots, evI)` of `CheckedExponentiator` -/
def eigenReQ (n : Nat) (evT evI : Mat α) (roots : Vec α) : Mat α := eigenCall n evT evI roots

end eigen

/-! ## the float-driven choices of `j` and `q`, evaluated exactly over `Rat` -/

def absR (x : Rat) : Rat := if x < 0 then -x else x

/-- `numpy.maximum.reduce(numpy.sum(numpy.absolute(A), axis=1))` -/
def normInf (n : Nat) (A : Mat Rat) : Rat :=
  (List.range n).foldl (fun m i => let s := sumTo n fun j => absR (mget A i j); if m < s then s else m) 0

/-- `floor(log2 x)` for `x > 0` : the `e` with `2^e ≤ x < 2^(e+1)` -/
def floorLog2 (x : Rat) : Int :=
  if x.num ≤ 0 then 0
  else
    let a := x.num.toNat
    let b := x.den
    -- first guess from bit lengths, then correct by one
    let e : Int := (Nat.log2 a : Int) - (Nat.log2 b : Int)
    let pw (e : Int) : Rat := if e ≥ 0 then ((2 ^ e.toNat : Nat) : Rat) else 1 / ((2 ^ (-e).toNat : Nat) : Rat)
    if x < pw e then e - 1 else if pw (e + 1) ≤ x then e + 1 else e

/-- `j = int(floor(log(max(norm, 0.5)) / log(2.0))) + 1` -/
def padeJ (norm : Rat) : Nat :=
  let m : Rat := if norm < 1 / 2 then 1 / 2 else norm
  (floorLog2 m + 1).toNat

/-- the `while e > 1e-12` loop choosing the order: returns `q` -/
def padeQLoop (x : Rat) : Nat → Nat → Rat → Nat
  | 0, q, _ => q
  | fuel + 1, q, qf =>
    let q' := q + 1
    let q2 : Rat := 2 * (q' : Rat)
    let qf' := qf * ((q' : Rat) * (q' : Rat) / (q2 * (q2 - 1) * q2 * (q2 + 1)))
    let e := 8 * (prodTo (2 * q') fun _ => x) * qf'
    if e > 1 / 1000000000000 then padeQLoop x fuel q' qf' else q'

def padeQ (norm : Rat) (j : Nat) : Nat :=
  padeQLoop (norm / pow2 j) 200 0 1

/-- `PadeExponentiator(Q)(t)` : `(P, q, j)` -/
def pade (n : Nat) (Q : Mat Rat) (t : Rat) : Option (Mat Rat) × Nat × Nat :=
  let A := matScale n t Q
  let norm := normInf n A
  let j := padeJ norm
  let q := padeQ norm j
  (padeCore n Q t q j, q, j)

/-- exact a-posteriori bound on `‖exp A − ∑_{k<q} A^k/k!‖_∞` :
`‖A‖^q/q! · 1/(1 − ‖A‖/(q+1))`, valid when `‖A‖ < q+1` (`none` otherwise) -/
def taylorRemainder (norm : Rat) (q : Nat) : Option Rat :=
  if norm < (q + 1 : Nat) then
    some ((prodTo q fun k => norm / ((k + 1 : Nat) : Rat)) * (1 / (1 - norm / ((q + 1 : Nat) : Rat))))
  else none

end CogentModel.Expm
