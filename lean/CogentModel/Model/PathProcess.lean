/-
  C05 — processes that are NOT one exp(tQ): products of transition matrices along a path of the tree
  (time-heterogeneous and discrete-time models) and mixtures over rate classes.

  Mirrors (hand-written, tied by the exact-rational shadow in harness/c05.py, command `path` / `mixens`):
    evolve/likelihood_function.py  LikelihoodFunction._nodeMotifProbs   child_mprobs = numpy.dot(mprobs, psub), recursively
                                   (the distribution at a node = the fold of `vecMat` over the psubs on the path from the root)
                                   get_rate_matrix_for_edge(calibrated=False)  Q * length
  Generic in the scalar type like Model/RateMatrix.lean; no imports outside the project.
-/
import CogentModel.Model.RateMatrix
import CogentModel.Model.Expm
namespace CogentModel.PathProcess
open CogentModel.RateMatrix CogentModel.Expm
universe u

section
variable {α : Type u} [Zero α] [One α] [Add α] [Sub α] [Mul α] [Div α] [Neg α]

/-- `numpy.dot(mprobs, psub)` -/
def vecMat (n : Nat) (v : Vec α) (P : Mat α) : Vec α := vtab n fun j => sumTo n fun i => vget v i * mget P i j

/-- `_nodeMotifProbs` along one root-to-node path: psubs listed from the root downwards -/
def pathDist (n : Nat) (mp : Vec α) (Ps : List (Mat α)) : Vec α := Ps.foldl (vecMat n) mp

/-- every distribution met on the way (the root's first): what `_nodeMotifProbs` records for the nodes of the path -/
def pathDists (n : Nat) : Vec α → List (Mat α) → List (Vec α)
  | mp, [] => [mp]
  | mp, P :: Ps => mp :: pathDists n (vecMat n mp P) Ps

/-- `P_1 · P_2 · … · P_k` -/
def pathProduct (n : Nat) (Ps : List (Mat α)) : Mat α := Ps.foldl (matMul n) (ident n)

/-- expected number of substitutions per unit time of a process with generator `Q` started in `pi`: `-∑ pi_i Q_ii` -/
def ensRate (n : Nat) (pi : Vec α) (Q : Mat α) : α := 0 - sumTo n fun i => vget pi i * mget Q i i

/-- rate-heterogeneity mixture: bin `b` (probability `w b`) evolves with generator `r b · t · Q`;
the expected number of substitutions of the mixture -/
def mixtureENS (n : Nat) (pi : Vec α) (Q : Mat α) (t : α) (w r : Vec α) : α :=
  sumTo r.size fun b => vget w b * ensRate n pi (matScale n (vget r b * t) Q)

end
end CogentModel.PathProcess
