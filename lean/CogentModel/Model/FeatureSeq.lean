/-
  `Feature.get_slice()` at the level of residues, on top of C01's `Sequence` wrapper model
  (`Model/SeqWrap.lean`: parent string + slice record + nucleic flag) and the feature-map model
  (`Model/FeatureView.lean`).

  `get_slice` does `self.parent[fmap.without_gaps()]`; `Sequence.__getitem__` with a map calls
  `_mapped`, which joins `str(self[span.start:span.end])` over the (real) spans into a new
  sequence, and `_do_seq_slice` reverse-complements it when the feature is reversed.
  For a span inside the view, `str(self[a:b])` is `str(self)[a:b]` (C01 `str_getitem`), i.e. the
  characters of `str(self)` at the view indices `a … b-1`; that is how it is written here.
-/
import CogentModel.Model.SeqWrap
import CogentModel.Model.FeatureView
namespace CogentModel.FeatureView
open CogentModel.View CogentModel.SeqWrap

/-- the residues `feature.get_slice()` returns (`comp` = the moltype's complement) -/
def getSlice (comp : Char → Char) (s : Seq) (f : Feat) : List Char :=
  let t := str comp s
  let joined := (sliceIdx f).map fun i => t[i.toNat]!
  if f.reversed then (joined.reverse).map comp else joined

/-- the real (non-lost) spans of a feature map, i.e. `fmap.without_gaps()` -/
def realOf (m : List MSpan) : List (Int × Int) :=
  m.filterMap fun | .span s e => some (s, e) | .lost _ => none

/-- `FeatureMap.start` (`__post_init__`): the smallest start over the real spans -/
def mapStart : List (Int × Int) → Int
  | [] => 0
  | [p] => p.1
  | p :: ps => min p.1 (mapStart ps)

/-- `FeatureMap.end`: the largest end over the real spans -/
def mapEnd : List (Int × Int) → Int
  | [] => 0
  | [p] => p.2
  | p :: ps => max p.2 (mapEnd ps)

/-- view indices read by `get_slice(allow_gaps=True)`: `self.parent[fmap.start : fmap.end]` after `without_gaps()`
(one contiguous segment of the view, from the first to the last retained position of the feature; a feature with no
retained position gives the empty slice) -/
def contigIdx (f : Feat) : List Int :=
  match realOf f.spans with
  | [] => []
  | r => irange (mapStart r) (mapEnd r)

/-- the contiguous form as a list of absolute plus-strand positions in reading order (|step| = 1), and whether the
letters come out complemented — the analogue of `slicePositions` -/
def contigPositions (v : View) (f : Feat) : List Int × Bool :=
  let ps := (contigIdx f).map (viewPos v)
  (if f.reversed then ps.reverse else ps, (decide (v.step < 0)) != f.reversed)

/-- the residues `feature.get_slice(allow_gaps=True)` returns on a sequence: the contiguous segment, and — like the
spliced form — `_do_seq_slice` reverse-complements it when the feature is reversed relative to the view -/
def getSliceContig (comp : Char → Char) (s : Seq) (f : Feat) : List Char :=
  let t := str comp s
  let joined := (contigIdx f).map fun i => t[i.toNat]!
  if f.reversed then (joined.reverse).map comp else joined

/-- NEW-style `Sequence._mapped` (`core/new_sequence.py`): for a map with exactly one real span it does
`seq = self._seq[map.start:map.end]` and passes `annotation_offset = map.start` to the constructor, where
`_coerce_to_seqview` raises `ValueError('cannot set offset …')` when both that offset and the sliced view's
own offset are non-zero; otherwise (and for 0 or several spans) the residues are those of `getSlice`. -/
def getSliceNew (comp : Char → Char) (s : Seq) (f : Feat) : Except FErr (List Char) :=
  match realOf f.spans with
  | [(a, _)] => if a ≠ 0 ∧ s.v.offset ≠ 0 then .error .valueError else .ok (getSlice comp s f)
  | _ => .ok (getSlice comp s f)

/-- `Sequence.copy(sliced=True)` at the level of the slice record (old and new class since f9c946a7e):
`SeqView.copy(sliced=True)` re-creates the view over the truncated parent `seq[a:b]` with the same step and
no offset, and `Sequence.copy` passes `annotation_offset = self.annotation_offset` (= `parent_start`).
`copy(sliced=False)` and `copy.deepcopy` keep the record as it is. -/
def copyView (v : View) : Except Err View :=
  match parentStart v with
  | .error e => .error e
  | .ok ps => mk ((richDictBounds v).2 - (richDictBounds v).1) none none (some v.step) ps

end CogentModel.FeatureView
