/-
  `Feature.get_slice()` at the level of residues, on top of C01's `Sequence` wrapper model
  (`Model/SeqWrap.lean`: parent string + slice record + nucleic flag) and the feature-map model
  (`Model/FeatureView.lean`).

  `get_slice` does `self.parent[fmap.without_gaps()]`; `Sequence.__getitem__` with a map calls
  `_mapped`, which joins `str(self[span.start:span.end])` over the (real) spans into a new
  sequence, and `_do_seq_slice` reverse-complements it when the feature is reversed.
  For a span inside the view, `str(self[a:b])` is `str(self)[a:b]` (C01 `str_getitem`), i.e. the
  characters of `str(self)` at the view indices `a … b-1`; that is how it is written here.
-/
import CogentModel.Model.SeqWrap
import CogentModel.Model.FeatureView
namespace CogentModel.FeatureView
open CogentModel.View CogentModel.SeqWrap

/-- the residues `feature.get_slice()` returns (`comp` = the moltype's complement) -/
def getSlice (comp : Char → Char) (s : Seq) (f : Feat) : List Char :=
  let t := str comp s
  let joined := (sliceIdx f).map fun i => t[i.toNat]!
  if f.reversed then (joined.reverse).map comp else joined

end CogentModel.FeatureView
