/-
  C13 — hand-written mirror of `cogent3/app/sqlite_data_store.py :: DataStoreSqlite`
  over an abstract `results` table (`record_id ↦ (data, md5, is_completed)`), the `logs`
  table and the `state.lock_pid` cell.  Import-free.

  Mirrored: lazy connection (`db` property: the connection object is stored *before* `lock()`
  may raise), read-only connection, `_completed/_not_completed` caches ("empty means re-select"),
  `__contains__`, `_check_writable`, `write` = drop + `_write` (UPDATE/INSERT choice),
  `write_not_completed`, `write_log` (one log row per session), `drop_not_completed`
  (cache reset), `unlock`, `close` + new object.
-/
import CogentModel.Model.KV
import CogentModel.Model.DataStore
namespace CogentModel.DataStoreSqlite
open CogentModel.KV
open CogentModel.DataStore (Mode Err Res Op startsWith pathName sResults sLogs)

structure Row (D : Type) where
  data : D
  md5 : D
  completed : Bool

structure LogRow (D : Type) where
  id : Nat
  name : Option Str
  data : Option D

structure Sql (D : Type) where
  mode : Mode
  /-- the database file exists (it is created by the first read-write connection) -/
  fileExists : Bool
  /-- `self._db is not None` -/
  connected : Bool
  /-- `state.lock_pid` is not NULL -/
  locked : Bool
  rows : KV (Row D)
  logRows : List (LogRow D)
  /-- `self._log_id` -/
  logId : Option Nat
  cCache : List Str
  ncCache : List Str

variable {D : Type}

def Sql.create (mode : Mode) : Sql D :=
  { mode, fileExists := false, connected := false, locked := false, rows := [], logRows := [],
    logId := none, cCache := [], ncCache := [] }

/-- the `db` property -/
def connect (s : Sql D) : Sql D × Option Err :=
  if s.connected then (s, none)
  else if s.mode = .r then
    if s.fileExists then ({ s with connected := true }, none) else (s, some .operational)
  else
    let s1 := { s with fileExists := true, connected := true }
    if s1.locked && s1.mode = .w then (s1, some .ioError)
    else ({ s1 with locked := true }, none)

/-- `close()` then a new `DataStoreSqlite(source, mode)`; `close` itself goes through `db` -/
def reopen (s : Sql D) (mode : Mode) : Sql D :=
  let s1 := (connect s).1
  { s1 with mode := mode, connected := false, logId := none, cCache := [], ncCache := [] }

def selectMembers (s : Sql D) (completed : Bool) : List Str :=
  (s.rows.filter (fun p => p.2.completed == completed)).map (·.1)

def populate (s : Sql D) : Sql D :=
  let s1 := if s.cCache.isEmpty then { s with cCache := selectMembers s true } else s
  if s1.ncCache.isEmpty then { s1 with ncCache := selectMembers s1 false } else s1

def contains (s : Sql D) (id : Str) : Bool := s.cCache.contains id || s.ncCache.contains id

/-- `_init_log` -/
def initLog (s : Sql D) : Sql D :=
  match s.logId with
  | some _ => s
  | none =>
    let i := s.logRows.length + 1
    { s with logRows := s.logRows ++ [⟨i, none, none⟩], logId := some i }

/-- `_check_writable` (connects through `unique_id in self` unless read-only) -/
def checkWritable (s : Sql D) (id : Str) : Sql D × Option Err :=
  if s.mode = .r then (s, some .ioError) else
  match connect s with
  | (s1, some e) => (s1, some e)
  | (s1, none) =>
    let s2 := populate s1
    if contains s2 id && s2.mode = .a then (s2, some .ioError) else (s2, none)

/-- the SQL of `drop_not_completed` + cache reset (connection already open, writable) -/
def dropRows (s : Sql D) (id : Str) : Sql D :=
  { s with rows := s.rows.filter (fun p => p.2.completed || (!id.isEmpty && p.1 != id)), ncCache := [] }

def dropNc (s : Sql D) (id : Str) : Sql D × Res :=
  match connect s with
  | (s1, some e) => (s1, .err e)
  | (s1, none) => if s1.mode = .r then (s1, .err .operational) else (dropRows s1 id, .done none)

/-- `_write` on the results table: UPDATE keeps `is_completed`, INSERT sets it -/
def writeRow (H : D → D) (s0 : Sql D) (id : Str) (data : D) (completed : Bool) : Sql D × Res :=
  let s := populate (initLog s0)
  if contains s id && s.mode != .a then
    ({ s with rows := s.rows.map (fun p => if p.1 = id then (p.1, { p.2 with data := data, md5 := H data }) else p) },
     .done (some id))
  else if has s.rows id then (s, .err .integrity)
  else ({ s with rows := s.rows ++ [(id, ⟨data, H data, completed⟩)] }, .done (some id))

/-- `if unique_id.startswith(table): unique_id = Path(unique_id).name` -/
def stripTable (table id : Str) : Str := if startsWith id table then pathName id else id

def write (H : D → D) (s : Sql D) (id0 : Str) (data : D) : Sql D × Res :=
  let id := stripTable sResults id0
  match checkWritable s id with
  | (s1, some e) => (s1, .err e)
  | (s1, none) =>
    match writeRow H (dropRows s1 id) id data true with
    | (s2, .err e) => (s2, .err e)
    | (s2, .done m) =>
      (if s2.cCache.contains id then s2 else { s2 with cCache := s2.cCache ++ [id] }, .done m)

def writeNc (H : D → D) (s : Sql D) (id0 : Str) (data : D) : Sql D × Res :=
  let id := stripTable sResults id0
  match checkWritable s id with
  | (s1, some e) => (s1, .err e)
  | (s1, none) =>
    match writeRow H s1 id data false with
    | (s2, .err e) => (s2, .err e)
    | (s2, .done m) => ({ s2 with ncCache := s2.ncCache ++ [id] }, .done m)

def writeLog (s : Sql D) (id0 : Str) (data : D) : Sql D × Res :=
  let id := stripTable sLogs id0
  match checkWritable s id with
  | (s1, some e) => (s1, .err e)
  | (s1, none) =>
    let s2 := initLog s1
    ({ s2 with logRows := s2.logRows.map (fun r => if some r.id = s2.logId then { r with name := some id, data := some data } else r) },
     .done none)

/-- `unlock()` (same process) -/
def unlock (s : Sql D) : Sql D × Res :=
  if s.mode = .r then (s, .done none) else
  match connect s with
  | (s1, some e) => (s1, .err e)
  | (s1, none) => ({ s1 with locked := false }, .done none)

/-- reading `completed` / `not_completed` -/
def observe (s : Sql D) : Sql D × Res :=
  match connect s with
  | (s1, some e) => (s1, .err e)
  | (s1, none) => (populate s1, .done none)

def step (H : D → D) (s : Sql D) : Op D → Sql D × Res
  | .write id d => write H s id d
  | .writeNc id d => writeNc H s id d
  | .writeLog id d => writeLog s id d
  | .drop id => dropNc s id
  | .reopen m => (reopen s m, .done none)
  | .observe => observe s
  | .unlock => unlock s

def run (H : D → D) (s : Sql D) : List (Op D) → Sql D
  | [] => s
  | op :: ops => run H (step H s op).1 ops

end CogentModel.DataStoreSqlite
