/-
  Hand-written mirror of `FeatureMap.absolute_position` / `relative_position` / `zeroed` and of the bookkeeping fields
  `__post_init__` computes (`useful`, `complete`; `offsets`, `len`, `_start`/`_end` are in `Model/FMap.lean`).
  Import-free (only `Model/FMapOps.lean`), executable.  `Props/C08Loops.lean` proves the definitions generated from the
  python source equal to these for all arguments.
-/
import CogentModel.Model.FMapOps
namespace CogentModel.FMap

/-- `FeatureMap.useful`: the map has a span that is not lost -/
def useful (m : FM) : Bool := m.spans.any (fun s => !s.isLost)

/-- `FeatureMap.complete`: no span is lost -/
def complete (m : FM) : Bool := m.spans.all (fun s => !s.isLost)

/-- `absolute_position(rel_pos)` for an int: a map as long as its parent is taken to BE the parent -/
def absolutePosition (m : FM) (p : Int) : Except FErr Int :=
  if p < 0 then .error .valueError else .ok (if len m = m.parentLength then p else fmStart m + p)

/-- `relative_position(abs_pos)` for an int -/
def relativePosition (m : FM) (p : Int) : Except FErr Int :=
  if p < 0 then .error .valueError else .ok (p - fmStart m)

/-- shift of one span by `-k` (`zeroed`: lost spans are skipped) -/
def FSp.shift (k : Int) : FSp → FSp
  | .span s e r => .span (s - k) (e - k) r
  | .lost n => .lost n

/-- `zeroed()`: a copy whose parent is the covering span, every real span moved so that the covering span starts at 0 -/
def zeroed (m : FM) : Except FErr FM :=
  match coveringSpan m with
  | .error e => .error e
  | .ok c => .ok ⟨m.spans.map (FSp.shift (min (fmStart m) (fmEnd m))), len c⟩

end CogentModel.FMap
