import CogentModel.Model.View
import CogentModel.Spec.PySlice
/-
  Mirror of the `Sequence` wrapper around a `SeqView`
  (`cogent3/core/sequence.py` `Sequence.__str__/__len__/__getitem__`,
  `NucleicAcidSequence.rc`; `cogent3/core/new_sequence.py` `Sequence.__str__/__getitem__`,
  `NucleicAcidSequenceMixin.rc`; both carry the same code).

  * `SeqView.value` / `str_value` is literally `self.seq[self.start:self.stop:self.step]`.
  * `Sequence.__str__`: `result = str(self._seq)`; `if self._seq.is_reversed:` complement it
    (`contextlib.suppress(TypeError)`: a non-nucleic moltype leaves the string as it is).
  * `Sequence.__getitem__` (slice / int branch): `self.__class__(self._seq[index], …)` — the new
    object keeps the returned view unchanged (`_coerce_to_seqview` returns a `SeqView` as is).
  * `rc`: `self.__class__(self._seq[::-1], …)`.

  The parent string travels with the view.  Every view built by `SliceRecordABC.__getitem__`
  passes `seq=self.seq, seq_len=self.seq_len`, except `_zero_slice = SeqView(seq="")`, whose
  `seq_len` is 0.  The view model (`Model/View.lean`) records `seq_len` but not the string, so the
  parent of the result is recovered from it: same `seqLen` -> same parent string, otherwise the
  result is the zero slice and the parent is `""`.  (If the zero slice is taken on a view whose
  `seq_len` is already 0 its parent is `""` too, because the constructor asserts
  `seq_len == len(seq)`; `Proofs/SeqWrap.lean` proves `w.seqLen = v.seqLen ∨ w = zeroSlice`.)
-/
namespace CogentModel.SeqWrap
open CogentModel CogentModel.View

structure Seq where
  parent : List Char
  v : View
  nucleic : Bool
  deriving DecidableEq, Repr

/-- `Sequence(seq)` on a plain string: `SeqView(seq=data)` -/
def ofString (t : List Char) (nucleic : Bool) : Seq :=
  { parent := t, v := { start := 0, stop := t.length, step := 1, offset := 0, seqLen := t.length },
    nucleic := nucleic }

/-- `SeqView.value` / `str_value`: `self.seq[self.start:self.stop:self.step]` -/
def value (s : Seq) : List Char :=
  PySlice.slice s.parent (some s.v.start) (some s.v.stop) s.v.step

/-- `Sequence.__str__` -/
def str (comp : Char → Char) (s : Seq) : List Char :=
  if s.v.step < 0 ∧ s.nucleic then (value s).map comp else value s

/-- `Sequence.__len__`: `len(self._seq)` -/
def length (s : Seq) : Int := len s.v

/-- the new wrapper around the view returned by `self._seq[index]` -/
def wrap (s : Seq) (w : View) : Seq :=
  { parent := if w.seqLen = s.v.seqLen then s.parent else [], v := w, nucleic := s.nucleic }

/-- `Sequence.__getitem__` with a slice -/
def getitem (s : Seq) (a b c : Option Int) : Except Err Seq :=
  match getitemSlice .seqView s.v a b c with
  | .ok w => .ok (wrap s w)
  | .error e => .error e

/-- `Sequence.__getitem__` with an int -/
def getitemI (s : Seq) (i : Int) : Except Err Seq :=
  match getitemInt s.v i with
  | .ok w => .ok (wrap s w)
  | .error e => .error e

/-- `rc`: `self._seq[::-1]` -/
def rcE (s : Seq) : Except Err Seq := getitem s none none (some (-1))

def rc (s : Seq) : Seq :=
  match rcE s with
  | .ok r => r
  | .error _ => s

/-! the same operations on plain strings -/

/-- `t[a:b:c]`, complemented when the step is negative on a nucleic acid -/
def specSlice (comp : Char → Char) (nucleic : Bool) (t : List Char) (a b : Option Int) (c : Int) :
    List Char :=
  let r := PySlice.slice t a b c
  if c < 0 ∧ nucleic then r.map comp else r

/-- reverse complement of a plain string -/
def specRc (comp : Char → Char) (t : List Char) : List Char := (t.reverse).map comp

inductive SOp where
  | slice (a b c : Option Int)
  | index (i : Int)
  | rc
  deriving Repr

def step1 (s : Seq) : SOp → Except Err Seq
  | .slice a b c => getitem s a b c
  | .index i => getitemI s i
  | .rc => rcE s

def runOps : Seq → List SOp → Except Err Seq
  | s, [] => .ok s
  | s, op :: ops => match step1 s op with
    | .ok s' => runOps s' ops
    | .error e => .error e

/-- the states after each op (stops at the first error) -/
def trace : Seq → List SOp → List (Except Err Seq)
  | _, [] => []
  | s, op :: ops => match step1 s op with
    | .ok s' => .ok s' :: trace s' ops
    | .error e => [.error e]

def specStep (comp : Char → Char) (nucleic : Bool) (t : List Char) : SOp → Option (List Char)
  | .slice a b c => some (specSlice comp nucleic t a b (c.getD 1))
  | .index i => (PySlice.index t i).map fun ch => [ch]
  | .rc => some (specRc comp t)

def specRun (comp : Char → Char) (nucleic : Bool) : List Char → List SOp → Option (List Char)
  | t, [] => some t
  | t, op :: ops => (specStep comp nucleic t op).bind fun u => specRun comp nucleic u ops

end CogentModel.SeqWrap
