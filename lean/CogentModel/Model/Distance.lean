/-
  C15 (part 1) — model of cogent3.evolve.fast_distance / pairwise_distance_numba
  for nucleotide alignments (dim = 4; DNA order T,C,A,G / RNA U,C,A,G).

  Sequences are the *index arrays* the code works on
  (`seq_to_indices`: canonical characters 0..3, everything else `invalid` = -9).
  Every estimator returns the exact rational quantities the code feeds to
  `numpy.log` (the "pre-log" quantities); logs are applied by the harness.

  Import-free: compiled into the native driver `drv_c15`.
-/
namespace CogentModel.Distance

/-- one alignment column of a pair: (index in seq1, index in seq2); negative = non-canonical -/
abbrev Col := Int × Int

/-- `matrix[a, b] += 1.0` -/
def bump (m : Int → Int → Nat) (a b : Int) : Int → Int → Nat :=
  fun x y => if x = a ∧ y = b then m x y + 1 else m x y

/-- loop body of `fill_diversity_matrix`:
`if seq1[i] < 0 or seq2[i] < 0: continue; matrix[seq1[i], seq2[i]] += 1.0` -/
def fillStep (m : Int → Int → Nat) (c : Col) : Int → Int → Nat :=
  if c.1 < 0 ∨ c.2 < 0 then m else bump m c.1 c.2

/-- `fill_diversity_matrix` on a zeroed matrix, columns visited first to last -/
def fill (cols : List Col) : Int → Int → Nat :=
  cols.foldl fillStep (fun _ _ => 0)

/-- the simple description of the same table: number of columns equal to (x,y), both canonical -/
def cnt (cols : List Col) (x y : Int) : Nat :=
  cols.countP (fun c => decide (0 ≤ c.1 ∧ 0 ≤ c.2 ∧ c.1 = x ∧ c.2 = y))

/-- 4×4 count / frequency matrices as functions on 0..3 -/
abbrev M4 := Nat → Nat → Rat

def ofCounts (f : Int → Int → Nat) : M4 := fun i j => ((f (i : Int) (j : Int) : Nat) : Rat)

/-- tabulate once (so the driver does not re-walk the closure chain).  `macro_inline` (a compiler hint, the term
is unchanged): without it the compiled `memo m` is a partial application that re-tabulates on every lookup. -/
@[macro_inline] def memo (m : M4) : M4 :=
  let t : List (List Rat) := (List.range 4).map fun i => (List.range 4).map fun j => m i j
  fun i j => (t.getD i []).getD j 0

def tr (m : M4) : M4 := fun i j => m j i

/-- `matrix.sum(axis=1)[i]` -/
def rowSum (m : M4) (i : Nat) : Rat := m i 0 + m i 1 + m i 2 + m i 3
/-- `matrix.sum(axis=0)[j]` -/
def colSum (m : M4) (j : Nat) : Rat := m 0 j + m 1 j + m 2 j + m 3 j
def total (m : M4) : Rat := rowSum m 0 + rowSum m 1 + rowSum m 2 + rowSum m 3
def diagSum (m : M4) : Rat := m 0 0 + m 1 1 + m 2 2 + m 3 3

/-- `(matrix[off_diag] > 0).any()` -/
def hasOffDiag (m : M4) : Bool :=
  decide (0 < m 0 1) || decide (0 < m 0 2) || decide (0 < m 0 3) ||
  decide (0 < m 1 0) || decide (0 < m 1 2) || decide (0 < m 1 3) ||
  decide (0 < m 2 0) || decide (0 < m 2 1) || decide (0 < m 2 3) ||
  decide (0 < m 3 0) || decide (0 < m 3 1) || decide (0 < m 3 2)

/-- result of one estimator on one count matrix: the exact pre-log quantities -/
inductive Stat where
  | invalid                                   -- `(None, None, None, None)`
  | nan                                       -- a 0/0 happened: numpy carries `nan` through to the distance
  | zero                                      -- the literal `0` written by `_expand` for a duplicate
  | absent                                    -- key not in the dict (DictArray fills 0)
  | hamming (total p dist : Rat)              -- hamming: dist ; pdist: p
  | jc69 (total p factor : Rat)               -- dist = -3 log(factor) / 4
  | tn93 (total p c1 c2 c3 t1 t2 t3 : Rat)    -- dist = -c1 log t1 - c2 log t2 - c3 log t3
  | paralinear (total p det prod : Rat)       -- dist = -log(det / sqrt prod) / 4
  | logdetTK (total p coeff det prod : Rat)   -- dist = coeff * log(det / sqrt prod)
  | logdet (total p det : Rat)                -- dist = -log(det)/4 - log 4
  deriving DecidableEq, Repr, Inhabited

/-- `_hamming` -/
def hammingStat (m : M4) : Stat :=
  let tot := total m
  let dist := tot - diagSum m
  if tot = 0 then .invalid else .hamming tot (dist / tot) dist

/-- `_jc69_from_matrix` -/
def jc69Stat (m : M4) : Stat :=
  let tot := total m
  let diffs := tot - diagSum m
  if tot = 0 then .invalid
  else
    let p := diffs / tot
    if 3 / 4 ≤ p then .invalid else .jc69 tot p (1 - (4 / 3) * p)

/-! TN93.  `get_purine_indices` = [2, 3] (A, G), `get_pyrimidine_indices` = [1, 0] (C, T/U);
`pur_coords` = {(2,3),(3,2)}, `pyr_coords` = {(1,0),(0,1)}, `tv_coords` = the other 8 off-diagonals. -/
def tnFreq (m : M4) (i : Nat) : Rat := (colSum m i + rowSum m i) / (2 * total m)
def purTs (m : M4) : Rat := m 2 3 + m 3 2
def pyrTs (m : M4) : Rat := m 1 0 + m 0 1
def tvSum (m : M4) : Rat := m 0 2 + m 0 3 + m 1 2 + m 1 3 + m 2 0 + m 2 1 + m 3 0 + m 3 1

/-- `_tn93_from_matrix` -/
def tn93Stat (m : M4) : Stat :=
  let tot := total m
  if tot = 0 then .invalid
  else
    let p := (purTs m + pyrTs m + tvSum m) / tot
    let freqPurs := tnFreq m 2 + tnFreq m 3
    let prodPurs := tnFreq m 2 * tnFreq m 3
    let freqPyrs := tnFreq m 1 + tnFreq m 0
    let prodPyrs := tnFreq m 1 * tnFreq m 0
    -- every zero denominator below comes with a zero numerator, so numpy yields 0/0 = nan (never inf):
    -- term1 is nan iff prodPurs = 0, term2 iff prodPyrs = 0, term3 iff freqPurs * freqPyrs = 0.
    -- `term <= 0` is False for nan, so a finite non-positive term still gives "invalid";
    -- otherwise any nan term makes `dist` nan.
    let purD := purTs m / tot
    let pyrD := pyrTs m / tot
    let tvD := tvSum m / tot
    let c1 := 2 * prodPurs / freqPurs
    let c2 := 2 * prodPyrs / freqPyrs
    let c3 := 2 * (freqPurs * freqPyrs - (prodPurs * freqPyrs / freqPurs) - (prodPyrs * freqPurs / freqPyrs))
    let t1 := 1 - purD / c1 - tvD / (2 * freqPurs)
    let t2 := 1 - pyrD / c2 - tvD / (2 * freqPyrs)
    let t3 := 1 - tvD / (2 * freqPurs * freqPyrs)
    if (prodPurs ≠ 0 ∧ t1 ≤ 0) ∨ (prodPyrs ≠ 0 ∧ t2 ≤ 0) ∨ ((freqPurs ≠ 0 ∧ freqPyrs ≠ 0) ∧ t3 ≤ 0) then .invalid
    else if prodPurs = 0 ∨ prodPyrs = 0 ∨ freqPurs = 0 ∨ freqPyrs = 0 then .nan
    else .tn93 tot p c1 c2 c3 t1 t2 t3

/-! LogDet / paralinear -/
def det3 (a b c d e f g h i : Rat) : Rat := a * (e * i - f * h) - b * (d * i - f * g) + c * (d * h - e * g)

/-- explicit 4×4 determinant (Laplace expansion along the first row) -/
def det4 (m : M4) : Rat :=
    m 0 0 * det3 (m 1 1) (m 1 2) (m 1 3) (m 2 1) (m 2 2) (m 2 3) (m 3 1) (m 3 2) (m 3 3)
  - m 0 1 * det3 (m 1 0) (m 1 2) (m 1 3) (m 2 0) (m 2 2) (m 2 3) (m 3 0) (m 3 2) (m 3 3)
  + m 0 2 * det3 (m 1 0) (m 1 1) (m 1 3) (m 2 0) (m 2 1) (m 2 3) (m 3 0) (m 3 1) (m 3 3)
  - m 0 3 * det3 (m 1 0) (m 1 1) (m 1 2) (m 2 0) (m 2 1) (m 2 2) (m 3 0) (m 3 1) (m 3 2)

/-- `frequency[(frequency == 0) * eye] = 0.5` -/
def halfDiag (m : M4) : M4 := fun i j => if i = j ∧ m i j = 0 then 1 / 2 else m i j

/-- `frequency /= frequency.sum()` -/
def freqMatrix (m : M4) : M4 := fun i j => halfDiag m i j / total (halfDiag m)

/-- `(freqs[0] * freqs[1]).prod()` with `freqs = [frequency.sum(axis=0), frequency.sum(axis=1)]` -/
def freqProd (f : M4) : Rat :=
  (colSum f 0 * rowSum f 0) * (colSum f 1 * rowSum f 1) * (colSum f 2 * rowSum f 2) * (colSum f 3 * rowSum f 3)

/-- `sum(sum(freqs) ** 2)` -/
def freqSqSum (f : M4) : Rat :=
  (colSum f 0 + rowSum f 0) * (colSum f 0 + rowSum f 0) + (colSum f 1 + rowSum f 1) * (colSum f 1 + rowSum f 1) +
  (colSum f 2 + rowSum f 2) * (colSum f 2 + rowSum f 2) + (colSum f 3 + rowSum f 3) * (colSum f 3 + rowSum f 3)

/-- the part of `_logdetcommon` that decides validity; `k` receives (total, p, frequency) -/
def logdetCommon (m : M4) (k : Rat → Rat → M4 → Stat) : Stat :=
  let tot := total m
  let diffs := tot - diagSum m
  if tot = 0 then .invalid
  else if diffs = 0 then .invalid
  else
    let f := freqMatrix m
    if det4 f ≤ 0 then .invalid else k tot (diffs / tot) f

/-- `_paralinear` -/
def paralinearStat (m : M4) : Stat :=
  logdetCommon m fun tot p f => .paralinear tot p (det4 f) (freqProd f)

/-- `_logdet` -/
def logdetStat (useTK : Bool) (m : M4) : Stat :=
  logdetCommon m fun tot p f =>
    if useTK then .logdetTK tot p ((freqSqSum f / 4 - 1) / (4 - 1)) (det4 f) (freqProd f)
    else .logdet tot p (det4 f)

inductive Calc where
  | hamming | pdist | jc69 | tn93 | paralinear | logdet | logdetNoTK
  deriving DecidableEq, Repr

def stat : Calc → M4 → Stat
  | .hamming, m => hammingStat m
  | .pdist, m => hammingStat m
  | .jc69, m => jc69Stat m
  | .tn93, m => tn93Stat m
  | .paralinear, m => paralinearStat m
  | .logdet, m => logdetStat true m
  | .logdetNoTK, m => logdetStat false m

/-- the count matrix of a pair of index arrays -/
@[macro_inline] def countsOf (s1 s2 : List Int) : M4 := memo (ofCounts (fill (s1.zip s2)))

/-- the estimator applied directly to one pair (what the property calls "the published formula on the pair") -/
def direct (c : Calc) (s1 s2 : List Int) : Stat := stat c (countsOf s1 s2)

/-! ### `_PairwiseDistance.run`, the duplicate shortcut and `_expand`
(code as of repo commit 259ec35c1: `j` is an alias of `i` only if `numpy.array_equal(s1, s2)`) -/

/-- a Python dict keyed by pairs of sequence indices: a partial function (`none` = key absent).
(Wrapped in a structure so that the compiled driver evaluates every update once instead of re-running the
enclosing fold on each lookup.) -/
structure Dict where
  get : Nat → Nat → Option Stat

def dictGet (d : Dict) (k : Nat × Nat) : Option Stat := d.get k.1 k.2

def dictSet (d : Dict) (k : Nat × Nat) (v : Stat) : Dict :=
  ⟨fun x y => if x = k.1 ∧ y = k.2 then some v else d.get x y⟩

structure RunState where
  dupes : List Nat            -- `dupes` (set of indices)
  duped : List (Nat × Nat)    -- `duped[i].append(j)` in insertion order
  dists : Dict                -- `self._dists`
  raised : Bool               -- an ArithmeticError would have been raised (`invalid_raises`)

def isInvalid : Stat → Bool
  | .invalid => true
  | _ => false

/-- the `Stats` tuple computed for a pair that is not aliased: no observed difference => distance 0.0
(or all-`None` when the pair shares no canonical column); otherwise `self.func(matrix, ...)` -/
def pairStat (c : Calc) (s1 s2 : List Int) : Stat :=
  if !hasOffDiag (countsOf s1 s2) then (if 0 < total (countsOf s1 s2) then Stat.zero else Stat.invalid)
  else stat c (countsOf s1 s2)

/-- body of the inner `for j` loop -/
def innerStep (c : Calc) (seqs : List (List Int)) (i : Nat) (st : RunState) (j : Nat) : RunState :=
  if st.dupes.contains j then st
  else if !hasOffDiag (countsOf (seqs.getD i []) (seqs.getD j [])) && (seqs.getD i [] == seqs.getD j []) then
    -- j is a duplicate of i
    { st with dupes := st.dupes ++ [j], duped := st.duped ++ [(i, j)] }
  else
    { st with
      dists := dictSet (dictSet st.dists (i, j) (pairStat c (seqs.getD i []) (seqs.getD j [])))
                 (j, i) (pairStat c (seqs.getD i []) (seqs.getD j [])),
      raised := st.raised || isInvalid (pairStat c (seqs.getD i []) (seqs.getD j [])) }

/-- body of the outer `for i` loop -/
def outerStep (c : Calc) (seqs : List (List Int)) (st : RunState) (i : Nat) : RunState :=
  if st.dupes.contains i then st
  else (List.range' (i + 1) (seqs.length - (i + 1))).foldl (innerStep c seqs i) st

/-- the two nested loops of `run` -/
def runLoops (c : Calc) (seqs : List (List Int)) : RunState :=
  (List.range' 0 (seqs.length - 1)).foldl (outerStep c seqs) ⟨[], [], ⟨fun _ _ => none⟩, false⟩

/-- "clean the distances so only unique seqs included": delete every key that mentions a duplicate -/
def clean (st : RunState) : RunState :=
  if st.duped.isEmpty then st
  else { st with dists := ⟨fun x y => if st.dupes.contains x || st.dupes.contains y then none else st.dists.get x y⟩ }

/-- `run` -/
def run (c : Calc) (seqs : List (List Int)) : RunState := clean (runLoops c seqs)

/-- `_expand`: one `(add, alias)` of `redundants`, one `name` -/
def expandName (add alias : Nat) (pw : Dict) (name : Nat) : Dict :=
  if name = add then pw
  else
    dictSet (dictSet pw (add, name) (if name = alias then Stat.zero else (dictGet pw (alias, name)).getD .invalid))
      (name, add) (if name = alias then Stat.zero else (dictGet pw (alias, name)).getD .invalid)

def expandOne (n : Nat) (pw : Dict) (r : Nat × Nat) : Dict :=
  (List.range' 0 n).foldl (expandName r.2 r.1) pw

/-- `_expand` (`redundants[r] = k` for `k, r` in insertion order) -/
def expand (n : Nat) (st : RunState) : Dict :=
  if st.duped.isEmpty then st.dists else st.duped.foldl (expandOne n) st.dists

/-- cell (a,b) of `get_pairwise_distances()`: the diagonal and absent keys are filled with 0 by DictArray -/
def cell (d : Dict) (a b : Nat) : Stat :=
  if a = b then .zero else (dictGet d (a, b)).getD .absent

/-- the whole of `calc.run(); calc.get_pairwise_distances()` -/
def distanceMatrix (c : Calc) (seqs : List (List Int)) : List (List Stat) :=
  (List.range seqs.length).map fun a => (List.range seqs.length).map fun b =>
    cell (expand seqs.length (run c seqs)) a b

/-- what the code reports for one pair taken alone: the estimator when a difference was observed,
otherwise 0 — or "invalid" (`None`) when the two sequences share no canonical column and are not the same array -/
def pairReport (c : Calc) (s1 s2 : List Int) : Stat :=
  if hasOffDiag (countsOf s1 s2) then stat c (countsOf s1 s2)
  else if s1 == s2 then .zero
  else if 0 < total (countsOf s1 s2) then .zero else .invalid

end CogentModel.Distance
