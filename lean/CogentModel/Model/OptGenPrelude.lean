import CogentModel.Model.Optimiser
/-
  C16 — prelude of the TRANSLATED optimiser stack (`Gen/C16Opt.lean`, written on every run by
  `translator/c16_opt2lean.py` from the current source text of `maths/optimisers.py`
  (`limited_use`, `bounded_function`, `bounds_exception_catching_function`, `maximise`),
  `recalculation/calculation.py::Calculator.optimise` and
  `recalculation/scope.py::ParameterController.optimise`).

  The generated definitions are Lean `do` blocks in the monad `PM` below: one mutable state
  (`GSt`: the closure cells of `limited_use`, the log of points at which the objective was
  called, the values shown to the optimisers, warnings, `update_from_calculator` calls) that
  SURVIVES a raise, exactly as Python's closure cells and object attributes do.

  Hand-written, import-free apart from the hand model (whose `Res` type is reused).
-/
namespace CogentModel.OptGen
open CogentModel.Optimiser

/-- exceptions, by the classes the translated code distinguishes -/
inductive Exc where
  | maxEvals (n : Nat)   -- MaximumEvaluationsReached(n)
  | oob                  -- ParameterOutOfBoundsError
  | arith                -- ArithmeticError and subclasses
  | valueError           -- ValueError
  | fatal                -- anything else
  deriving Repr, DecidableEq

inductive ExcK where
  | maxEvals | oob | arith | valueError | fatal
  deriving Repr, DecidableEq

def Exc.kind : Exc → ExcK
  | .maxEvals _ => .maxEvals
  | .oob => .oob
  | .arith => .arith
  | .valueError => .valueError
  | .fatal => .fatal

/-- `detail.args[0]` -/
def Exc.arg0 : Exc → Nat
  | .maxEvals n => n
  | _ => 0

/-- `except (A, B) as e` -/
def Exc.isA (e : Exc) (ks : List ExcK) : Bool := ks.contains e.kind

/-- a Python float: NaN, or a value of the ordered type `Y` (finite or ±inf) -/
inductive PyF (Y : Type) where
  | nan
  | val (y : Y)
  deriving Repr, DecidableEq

/-- `max_evaluations` after `if max_evaluations is None: max_evaluations = numpy.inf` -/
inductive NatInf where
  | inf
  | fin (n : Nat)
  deriving Repr, DecidableEq

/-- `n >= m` -/
def natGe (n : Nat) : NatInf → Bool
  | .inf => false
  | .fin k => decide (k ≤ n)

/-- `n > m` -/
def natGt (n : Nat) : NatInf → Bool
  | .inf => false
  | .fin k => decide (k < n)

def optNatOr (v : Option Nat) (d : NatInf) : NatInf :=
  match v with
  | none => d
  | some n => .fin n

/-- truthiness of an `Optional[bool]` -/
def truthyOB : Option Bool → Bool
  | some true => true
  | _ => false

inductive OptKind where
  | global_   -- `GlobalOptimiser(...)` (simulated annealing)
  | local_    -- `LocalOptimiser()` (Powell)
  deriving Repr, DecidableEq

/-- everything the translated code is parameterised by.  `X` = numpy arrays (parameter vectors,
bound vectors, masks), `Y` = comparable float values. -/
structure Env (X Y : Type) where
  /-- the raw objective (the calculator) -/
  f : X → Res Y
  /-- `numpy.all(a <= b)` -/
  vle : X → X → Bool
  /-- Python `a > b` on non-NaN floats -/
  gt : Y → Y → Bool
  /-- Python `a >= b` on non-NaN floats -/
  ge : Y → Y → Bool
  /-- `numpy.isfinite` on non-NaN floats -/
  fin : Y → Bool
  /-- `numpy.isneginf` on non-NaN floats -/
  isneginf : Y → Bool
  negInf : Y
  /-- `numpy.inf` / `-numpy.inf` used where a bound vector is expected -/
  posInfX : X
  negInfX : X
  /-- `x.shape != ()` -/
  multi : X → Bool
  atleast1d : X → X
  squeeze : X → X
  /-- the adversary: the points the global / the local optimiser asks for (an exception cuts it short) -/
  qsG : List X
  qsL : List X
  /-- `Calculator.get_value_array()`, `.get_bounds_vectors()` -/
  valueArray : X
  boundsLow : X
  boundsHigh : X
  /-- elementwise `a > b`, `a < b` (masks), `a[mask]`, `a[mask] = v`, `numpy.allclose` -/
  maskGt : X → X → X
  maskLt : X → X → X
  sel : X → X → X
  put : X → X → X → X
  allclose : X → X → Bool

structure GSt (X Y : Type) where
  evals : Nat
  best_fval : PyF Y
  best_x : Option X
  /-- points at which the raw objective was called, most recent first -/
  calls : List X
  /-- values returned to the optimisers, most recent first -/
  shown : List (PyF Y)
  warned : Nat
  /-- `update_from_calculator` calls: the point the calculator was at (most recent first) -/
  updates : List (Option X)
  optimised : Bool

/-- Python-style computation: the state survives a raise -/
def PM (X Y α : Type) := GSt X Y → GSt X Y × Except Exc α

namespace PM
variable {X Y α β : Type}

def pure' (a : α) : PM X Y α := fun s => (s, .ok a)

def cont (k : α → PM X Y β) : GSt X Y × Except Exc α → GSt X Y × Except Exc β
  | (s1, .ok a) => k a s1
  | (s1, .error e) => (s1, .error e)

def bind' (m : PM X Y α) (k : α → PM X Y β) : PM X Y β := fun s => cont k (m s)

instance : Monad (PM X Y) where
  pure := pure'
  bind := bind'

def raise (e : Exc) : PM X Y α := fun s => (s, .error e)

def handle (h : Exc → PM X Y α) : GSt X Y × Except Exc α → GSt X Y × Except Exc α
  | (s1, .ok a) => (s1, .ok a)
  | (s1, .error e) => h e s1

def tryCatch' (m : PM X Y α) (h : Exc → PM X Y α) : PM X Y α := fun s => handle h (m s)

instance : MonadExcept Exc (PM X Y) where
  throw := raise
  tryCatch := tryCatch'

/-- what is left after the `finally` block ran: its own exception wins, else the body's -/
def finish (body : Except Exc α) : GSt X Y × Except Exc β → GSt X Y × Except Exc (α × β)
  | (s2, .error e2) => (s2, .error e2)
  | (s2, .ok b) =>
    match body with
    | .ok a => (s2, .ok (a, b))
    | .error e => (s2, .error e)

end PM

variable {X Y α β : Type}

/-- `try: body finally: fin` — `fin` always runs, in the state the body left -/
def pyTryFinally (body : PM X Y α) (fin : PM X Y β) : PM X Y (α × β) := fun s =>
  PM.finish (body s).2 (fin (body s).1)

def getSt : PM X Y (GSt X Y) := fun s => (s, .ok s)
def modifySt (f : GSt X Y → GSt X Y) : PM X Y Unit := fun s => (f s, .ok ())

/-- `warnings.warn(...)` -/
def pyWarn : PM X Y Unit := modifySt fun s => { s with warned := s.warned + 1 }

/-- a `None` where an array is required: `TypeError` -/
def unwrapX (v : Option X) : PM X Y X :=
  match v with
  | some x => pure x
  | none => throw Exc.fatal

/-- unpacking a `None`: `TypeError` -/
def unwrapO (v : Option α) : PM X Y α :=
  match v with
  | some x => pure x
  | none => throw Exc.fatal

/-- one call of the raw objective (the calculator): logged, then it returns or raises -/
def callObj (env : Env X Y) (x : X) : PM X Y (PyF Y) := fun s =>
  match env.f x with
  | .val y => ({ s with calls := x :: s.calls }, .ok (.val y))
  | .nan => ({ s with calls := x :: s.calls }, .ok .nan)
  | .oob => ({ s with calls := x :: s.calls }, .error .oob)
  | .arith => ({ s with calls := x :: s.calls }, .error .arith)
  | .fatal => ({ s with calls := x :: s.calls }, .error .fatal)

/-- `a > b` on Python floats (False as soon as one side is NaN) -/
def pyGt (env : Env X Y) : PyF Y → PyF Y → Bool
  | .val a, .val b => env.gt a b
  | _, _ => false

/-- `a >= b` on Python floats -/
def pyGe (env : Env X Y) : PyF Y → PyF Y → Bool
  | .val a, .val b => env.ge a b
  | _, _ => false

def pyIsFinite (env : Env X Y) : PyF Y → Bool
  | .val a => env.fin a
  | .nan => false

def pyIsNegInf (env : Env X Y) : PyF Y → Bool
  | .val a => env.isneginf a
  | .nan => false

/-- an optimiser = an adversary that asks for the values at `qs` in turn (every value it is shown is
logged) and returns some point; the first exception ends it -/
def runQs (f : X → PM X Y (PyF Y)) (x : X) : List X → PM X Y X
  | [] => pure x
  | q :: qs => do
    let y ← f q
    modifySt fun s => { s with shown := y :: s.shown }
    runQs f q qs

def runOpt (k : OptKind) (env : Env X Y) (f : X → PM X Y (PyF Y)) (x : X) : PM X Y X :=
  match k with
  | .global_ => runQs f x env.qsG
  | .local_ => runQs f x env.qsL

/-- `self.update_from_calculator(lc)`: the parameter controller takes the calculator's current
point (the last point the objective was called at) -/
def updateFromCalculator : PM X Y Unit :=
  modifySt fun s => { s with updates := s.calls.head? :: s.updates }

/-! simp lemmas: how each primitive acts on a state -/
namespace PM
@[simp] theorem bind_ap (m : PM X Y α) (k : α → PM X Y β) (s : GSt X Y) : (m >>= k) s = cont k (m s) := rfl
@[simp] theorem pure_ap (a : α) (s : GSt X Y) : (pure a : PM X Y α) s = (s, .ok a) := rfl
@[simp] theorem throw_ap (e : Exc) (s : GSt X Y) : (throw e : PM X Y α) s = (s, .error e) := rfl
@[simp] theorem cont_ok (k : α → PM X Y β) (s : GSt X Y) (a : α) : cont k (s, .ok a) = k a s := rfl
@[simp] theorem cont_err (k : α → PM X Y β) (s : GSt X Y) (e : Exc) : cont k (s, .error e) = (s, .error e) := rfl
@[simp] theorem tryCatch_ap (m : PM X Y α) (h : Exc → PM X Y α) (s : GSt X Y) :
    (tryCatch m h) s = handle h (m s) := rfl
@[simp] theorem handle_ok (h : Exc → PM X Y α) (s : GSt X Y) (a : α) : handle h (s, .ok a) = (s, .ok a) := rfl
@[simp] theorem handle_err (h : Exc → PM X Y α) (s : GSt X Y) (e : Exc) : handle h (s, .error e) = h e s := rfl
@[simp] theorem ite_ap (c : Prop) [Decidable c] (a b : PM X Y α) (s : GSt X Y) :
    (if c then a else b) s = if c then a s else b s := by split <;> rfl
@[simp] theorem finish_err (b : Except Exc α) (s : GSt X Y) (e : Exc) :
    finish b ((s, .error e) : GSt X Y × Except Exc β) = (s, .error e) := rfl
@[simp] theorem finish_ok_ok (a : α) (s : GSt X Y) (b : β) :
    finish (.ok a) ((s, .ok b) : GSt X Y × Except Exc β) = (s, .ok (a, b)) := rfl
@[simp] theorem finish_err_ok (e : Exc) (s : GSt X Y) (b : β) :
    finish (.error e : Except Exc α) ((s, .ok b) : GSt X Y × Except Exc β) = (s, .error e) := rfl
end PM
@[simp] theorem getSt_ap (s : GSt X Y) : (getSt : PM X Y _) s = (s, .ok s) := rfl
@[simp] theorem modifySt_ap (f : GSt X Y → GSt X Y) (s : GSt X Y) : modifySt f s = (f s, .ok ()) := rfl
@[simp] theorem pyWarn_ap (s : GSt X Y) : (pyWarn : PM X Y Unit) s = ({ s with warned := s.warned + 1 }, .ok ()) := rfl
@[simp] theorem pyTryFinally_ap (body : PM X Y α) (fin : PM X Y β) (s : GSt X Y) :
    pyTryFinally body fin s = PM.finish (body s).2 (fin (body s).1) := rfl
@[simp] theorem updateFromCalculator_ap (s : GSt X Y) :
    (updateFromCalculator : PM X Y Unit) s = ({ s with updates := s.calls.head? :: s.updates }, .ok ()) := rfl
@[simp] theorem unwrapX_some (x : X) (s : GSt X Y) : (unwrapX (some x) : PM X Y X) s = (s, .ok x) := rfl
@[simp] theorem unwrapO_some (x : α) (s : GSt X Y) : (unwrapO (some x) : PM X Y α) s = (s, .ok x) := rfl
@[simp] theorem unwrapO_none (s : GSt X Y) : (unwrapO (none : Option α) : PM X Y α) s = (s, .error .fatal) := rfl
@[simp] theorem unwrapX_none (s : GSt X Y) : (unwrapX (none : Option X) : PM X Y X) s = (s, .error .fatal) := rfl

end CogentModel.OptGen
