import CogentModel.Model.Composable
/-
  C19 — a record write of the directory data store at the granularity of the code
  (`app/data_store.py DataStoreDirectory._write`, reached from `_apply_to` through the writer):

      with open_(source / subdir / unique_id, "w") as out:   -- the record file is CREATED (empty) …
          out.write(data)                                    -- … then filled
      with open_(source / "md5" / unique_id, "w") as out:    -- the md5 file is created …
          out.write(md5)                                     -- … then filled

  neither through `atomic_write`.  `input_id in self.data_store` (the skip test of `_apply_to`) is
  "a file with that name is listed" — an empty record file counts.

  That was `_write` before fix 8ee96b6d1 (variant `inPlace`, kept to name a regression).  Variant `atomicMd5First`
  is `_write` AS IT IS NOW (fixes/C19-datastore-atomic-record.patch, committed as 8ee96b6d1): the md5
  file and then the record file are each put in place by one rename (`atomic_write`), the record last,
  so the record's appearance is the commit point.

  Only imports the (import-free) Composable model for `Id`/`Val`.
-/
namespace CogentModel.StoreWrite
open CogentModel.Composable

/-- a file of the store: missing / created but nothing written yet / complete -/
inductive Slot where
  | absent
  | empty
  | full (v : Val)
  deriving DecidableEq, Repr

/-- what the store holds for one identifier: the completed record file `<id>.<suffix>`, the
    not-completed record `not_completed/<id>.json`, and the md5 side file -/
structure Cell where
  data : Slot
  nc : Slot
  md5 : Slot
  deriving DecidableEq, Repr

def Cell.none : Cell := ⟨.absent, .absent, .absent⟩

/-- file-level operations on one identifier's cell -/
inductive COp where
  | createRec | fillRec (v : Val)
  | createNC | fillNC (v : Val)
  | createMd5 | fillMd5 (v : Val)
  | putRec (v : Val) | putNC (v : Val) | putMd5 (v : Val)   -- one rename puts the complete file in place
  deriving DecidableEq, Repr

def stepCell (c : Cell) : COp → Cell
  | .createRec => { c with data := .empty }
  | .fillRec v => { c with data := .full v }
  | .createNC => { c with nc := .empty }
  | .fillNC v => { c with nc := .full v }
  | .createMd5 => { c with md5 := .empty }
  | .fillMd5 v => { c with md5 := .full v }
  | .putRec v => { c with data := .full v }
  | .putNC v => { c with nc := .full v }
  | .putMd5 v => { c with md5 := .full v }

inductive Variant where
  | inPlace          -- historical (before 8ee96b6d1): plain open, record then md5
  | atomicMd5First   -- THE model of the code as it is now: md5 then record, each through atomic_write
  deriving DecidableEq, Repr

/-- the file operations of writing one result `v` (completed → record file, not-completed → nc file) -/
def block (var : Variant) (v : Val) : List COp :=
  match var, v.isOk with
  | .inPlace, true => [.createRec, .fillRec v, .createMd5, .fillMd5 v]
  | .inPlace, false => [.createNC, .fillNC v, .createMd5, .fillMd5 v]
  | .atomicMd5First, true => [.putMd5 v, .putRec v]
  | .atomicMd5First, false => [.putMd5 v, .putNC v]

/-- `input_id in self.data_store` for the directory store: the record file is listed -/
def doneCell (c : Cell) : Bool := c.data != .absent

abbrev FStore := Id → Cell

abbrev Op := Id × COp

def step (s : FStore) (op : Op) : FStore := fun i => if i = op.1 then stepCell (s i) op.2 else s i

def exec (s : FStore) (ops : List Op) : FStore := ops.foldl step s

/-- the operations of one input under the selection made against store `s0` (the skip test is evaluated
    once, before anything is processed, as in `_apply_to`) -/
def opsOf (var : Variant) (idOf : Nat → Id) (app : Nat → Val) (s0 : FStore) (m : Nat) : List Op :=
  if doneCell (s0 (idOf m)) then [] else (block var (app m)).map (fun o => (idOf m, o))

/-- a complete `apply_to` run over `inputs` (in any processing order: `inputs` is that order) -/
def runOps (var : Variant) (idOf : Nat → Id) (app : Nat → Val) (s0 : FStore) (inputs : List Nat) : List Op :=
  inputs.flatMap (opsOf var idOf app s0)

/-- the run is killed after the first `j` inputs were processed completely and `p` file operations of
    the next one were done — this enumerates every prefix of `runOps` (`Proofs/StoreWriteLemmas.take_runOps`) -/
def crashOps (var : Variant) (idOf : Nat → Id) (app : Nat → Val) (s0 : FStore) (inputs : List Nat) (j p : Nat) : List Op :=
  runOps var idOf app s0 (inputs.take j) ++
    (match inputs[j]? with
     | some m => (opsOf var idOf app s0 m).take p
     | none => [])

/-- interrupt (j, p), then run again completely -/
def resumed (var : Variant) (idOf : Nat → Id) (app : Nat → Val) (s0 : FStore) (inputs : List Nat) (j p : Nat) : FStore :=
  let s1 := exec s0 (crashOps var idOf app s0 inputs j p)
  exec s1 (runOps var idOf app s1 inputs)

def uninterrupted (var : Variant) (idOf : Nat → Id) (app : Nat → Val) (s0 : FStore) (inputs : List Nat) : FStore :=
  exec s0 (runOps var idOf app s0 inputs)

/-! ### the write list of `DataStoreDirectory._write` as the translator reads it off the source
(`translator/c19_atomic2lean.py` → `Gen.C19Program.storeWrites`) -/

/-- which file of the store a `with …(path) as out: out.write(…)` statement of `_write` writes -/
inductive StoreFile where
  | md5 | record | log
  deriving DecidableEq, Repr

/-- by which route: `atomic_write(path)` (own temp dir, one rename), `atomic_write(path, tmpdir=…)` (the staged file
    lives in a directory chosen by the store — if that is a directory the store lists, a kill leaves a bogus member:
    outside this model), or a plain `open_` (created empty, then filled) -/
inductive Route where
  | atomicOwn | atomicTmpdir | plain
  deriving DecidableEq, Repr

/-- the file operations of one (file, route) entry for result `v` (`none`: outside the model) -/
def opsOfWrite (v : Val) : StoreFile × Route → Option (List COp)
  | (.log, _) => some []            -- the log is written once per run, not per record
  | (_, .atomicTmpdir) => none
  | (.md5, .atomicOwn) => some [.putMd5 v]
  | (.md5, .plain) => some [.createMd5, .fillMd5 v]
  | (.record, .atomicOwn) => some [if v.isOk then .putRec v else .putNC v]
  | (.record, .plain) => some (if v.isOk then [.createRec, .fillRec v] else [.createNC, .fillNC v])

def blockOfWrites (v : Val) : List (StoreFile × Route) → Option (List COp)
  | [] => some []
  | w :: ws =>
    match opsOfWrite v w, blockOfWrites v ws with
    | some a, some b => some (a ++ b)
    | _, _ => none

end CogentModel.StoreWrite
