import CogentModel.Model.PhyloTree
/-
  C09 — character-level model of the newick writer's name escaping (`TreeNode.get_newick`,
  escape_name=True) and of `parse/newick.py::_Tokeniser.tokens` (underscore_unmunge=True,
  strict_labels=False).

  The tokeniser is two stages, as in the code:
    `lex`      the regular-expression split  re.split(r"([\t ]+|\n|''|""|[]['"(),:;\[\]])", text)
               with the empty strings dropped (the loop `continue`s on them);
    `machine`  the loop over these pieces (comment / quoted-label / unquoted-label states).
  Strings are `List Char`.  Position bookkeeping (line/column, only used in error messages) is
  not modelled; an error is `none`.
-/
namespace CogentModel.Phylo

/-! ### writer: `get_newick` name escaping -/
/-- the characters of `re.search("[]['\"(),:;_]", name)` -/
def needsQuote (c : Char) : Bool :=
  c = '[' || c = ']' || c = '\'' || c = '"' || c = '(' || c = ')' || c = ',' || c = ':' || c = ';' || c = '_'

/-- `name.replace("'", "''")` -/
def doubleQuotes : List Char → List Char
  | [] => []
  | c :: cs => if c = '\'' then '\'' :: '\'' :: doubleQuotes cs else c :: doubleQuotes cs

/-- `name.replace(" ", "_")` -/
def munge : List Char → List Char
  | [] => []
  | c :: cs => (if c = ' ' then '_' else c) :: munge cs

def startsEndsQuote (n : List Char) : Bool :=
  match n with
  | [] => false
  | c :: _ => c = '\'' && n.getLast? = some '\''

def escapeName (n : List Char) : List Char :=
  if startsEndsQuote n then n
  else if n.any needsQuote then '\'' :: (doubleQuotes n ++ ['\''])
  else munge n

/- `get_newick(with_distances=False)` as a string -/
mutual
def printStr {K : Type} : PTree K → List Char
  | .node n _ [] => if n = "" then [] else escapeName n.toList
  | .node n _ (c :: cs) => '(' :: (printStr c ++ printTail cs) ++ (if n = "" then [] else escapeName n.toList)
def printTail {K : Type} : List (PTree K) → List Char
  | [] => [')']
  | c :: cs => ',' :: (printStr c ++ printTail cs)
end

def newickStr {K : Type} (t : PTree K) : List Char := printStr t ++ [';']

/-! ### stage 1: the regular-expression split -/
inductive Raw where
  | ws (s : List Char)     -- `[\t ]+`
  | nl                     -- `\n`
  | sq2                    -- `''`
  | dq2                    -- `""`
  | sp (c : Char)          -- one of  ] [ ' " ( ) , : ;
  | txt (s : List Char)    -- anything else (maximal)
  deriving DecidableEq

def isBlank (c : Char) : Bool := c = ' ' || c = '\t'
def isPunct (c : Char) : Bool :=
  c = '[' || c = ']' || c = '(' || c = ')' || c = ',' || c = ':' || c = ';'

inductive Pend where
  | none
  | ws (run : List Char)   -- reversed
  | sq
  | dq

structure LexSt where
  txt : List Char := []    -- reversed
  pend : Pend := .none

def flushTxt (txt : List Char) : List Raw := if txt.isEmpty then [] else [.txt txt.reverse]

/-- a character met with nothing pending -/
def lexFresh (txt : List Char) (c : Char) : LexSt × List Raw :=
  if isBlank c then (⟨[], .ws [c]⟩, flushTxt txt)
  else if c = '\n' then (⟨[], .none⟩, flushTxt txt ++ [.nl])
  else if c = '\'' then (⟨[], .sq⟩, flushTxt txt)
  else if c = '"' then (⟨[], .dq⟩, flushTxt txt)
  else if isPunct c then (⟨[], .none⟩, flushTxt txt ++ [.sp c])
  else (⟨c :: txt, .none⟩, [])

def lexStep (σ : LexSt) (c : Char) : LexSt × List Raw :=
  match σ.pend with
  | .none => lexFresh σ.txt c
  | .ws run =>
    if isBlank c then (⟨[], .ws (c :: run)⟩, [])
    else let r := lexFresh [] c; (r.1, .ws run.reverse :: r.2)
  | .sq =>
    if c = '\'' then (⟨[], .none⟩, [.sq2])
    else let r := lexFresh [] c; (r.1, .sp '\'' :: r.2)
  | .dq =>
    if c = '"' then (⟨[], .none⟩, [.dq2])
    else let r := lexFresh [] c; (r.1, .sp '"' :: r.2)

def lexEnd (σ : LexSt) : List Raw :=
  match σ.pend with
  | .none => flushTxt σ.txt
  | .ws run => [.ws run.reverse]
  | .sq => [.sp '\'']
  | .dq => [.sp '"']

def lexRun : LexSt → List Char → List Raw
  | σ, [] => lexEnd σ
  | σ, c :: cs => let r := lexStep σ c; r.2 ++ lexRun r.1 cs

def lex (cs : List Char) : List Raw := lexRun {} cs

def Raw.str : Raw → List Char
  | .ws s => s
  | .nl => ['\n']
  | .sq2 => ['\'', '\'']
  | .dq2 => ['"', '"']
  | .sp c => [c]
  | .txt s => s

/-! ### stage 2: the token loop -/
inductive STok where
  | lab (s : List Char)
  | pun (c : Char)
  deriving DecidableEq

structure MSt where
  text : Option (List Char) := none
  closing : Option Char := none
  inComment : Bool := false
  comment : List Char := []

/-- Python `str.isspace` on ASCII -/
def pySpace (c : Char) : Bool :=
  c = ' ' || c = '\t' || c = '\n' || c = '\r' || c.toNat = 11 || c.toNat = 12 ||
  (28 ≤ c.toNat && c.toNat ≤ 31)

def strip (s : List Char) : List Char :=
  ((s.dropWhile pySpace).reverse.dropWhile pySpace).reverse

/-- `text.replace("_", " ")` -/
def unmunge : List Char → List Char
  | [] => []
  | c :: cs => (if c = '_' then ' ' else c) :: unmunge cs

/-- `if text: text = text.strip(); unmunge; label_complete = True` -/
def finishText (text : Option (List Char)) : Option (List Char) × Bool :=
  match text with
  | some (c :: cs) => (some (unmunge (strip (c :: cs))), true)
  | other => (other, false)

/-- the part of the loop body after the comment handling; returns the new state and the yielded tokens -/
def mBody (σ : MSt) (tok : Raw) : Option (MSt × List STok) :=
  match σ.closing with
  | some q =>
    if tok = .nl then none                                -- "Line ended inside quoted label"
    else if tok = .sp q then some ({ σ with closing := none, text := none }, [.lab (σ.text.getD [])])
    else
      let piece := if (q = '\'' && tok = .sq2) || (q = '"' && tok = .dq2) then [q] else tok.str
      some ({ σ with text := some (σ.text.getD [] ++ piece) }, [])
  | none =>
    let isStruct := match tok with
      | .nl => true
      | .sp c => isPunct c
      | _ => false
    if isStruct then
      let (text', complete) := finishText σ.text
      let out1 := if complete then [STok.lab (text'.getD [])] else []
      let text'' := if complete then none else text'
      match tok with
      | .nl => some ({ σ with text := text'' }, out1)
      | .sp c =>
        if c = '[' then some ({ σ with text := text'', inComment := true }, out1 ++ [.pun c])
        else if c = ']' then some ({ σ with text := text'' }, out1)
        else some ({ σ with text := text'' }, out1 ++ [.pun c])
      | _ => none
    else
      match σ.text with
      | some t => some ({ σ with text := some (t ++ tok.str) }, [])
      | none =>
        match tok with
        | .sq2 => some (σ, [.lab []])
        | .dq2 => some (σ, [.lab []])
        | .sp c => some ({ σ with closing := some c, text := some [] }, [])     -- a quote character
        | .ws _ => some (σ, [])
        | other => if (strip other.str).isEmpty then some (σ, []) else some ({ σ with text := some other.str }, [])

def mStep (σ : MSt) (tok : Raw) : Option (MSt × List STok) :=
  if σ.inComment then
    if tok = .sp ']' then mBody { σ with inComment := false, text := some σ.comment, comment := [] } tok
    else some ({ σ with comment := σ.comment ++ tok.str }, [])
  else mBody σ tok

/-- the end of the text (`EOT`) -/
def mEnd (σ : MSt) : Option (List STok) :=
  if σ.inComment then none
  else if σ.closing.isSome then none
  else
    let (text', complete) := finishText σ.text
    some (if complete then [.lab (text'.getD [])] else [])

def mRun : MSt → List Raw → Option (List STok)
  | σ, [] => mEnd σ
  | σ, r :: rs =>
    match mStep σ r with
    | none => none
    | some (σ', out) => (mRun σ' rs).map (out ++ ·)

/-- `list(_Tokeniser(text, underscore_unmunge=True).tokens())` without the final EOT -/
def tokenise (cs : List Char) : Option (List STok) := mRun {} (lex cs)

end CogentModel.Phylo
