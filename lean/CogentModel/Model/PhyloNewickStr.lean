import CogentModel.Model.PhyloTree
import CogentModel.Model.PhyloNewick
/-
  C09 — character-level model of the newick writer's name escaping (`TreeNode.get_newick`,
  escape_name=True) and of `parse/newick.py::_Tokeniser.tokens` (underscore_unmunge=True,
  strict_labels=False).

  The tokeniser is two stages, as in the code:
    `lex`      the regular-expression split  re.split(r"([\t ]+|\n|''|""|[]['"(),:;\[\]])", text)
               with the empty strings dropped (the loop `continue`s on them);
    `machine`  the loop over these pieces (comment / quoted-label / unquoted-label states).
  Strings are `List Char`.  Position bookkeeping (line/column, only used in error messages) is
  not modelled; an error is `none`.
-/
namespace CogentModel.Phylo

/-! ### writer: `get_newick` name escaping -/
/-- the characters of `re.search("[]['\"(),:;_]", name)` -/
def needsQuote (c : Char) : Bool :=
  c = '[' || c = ']' || c = '\'' || c = '"' || c = '(' || c = ')' || c = ',' || c = ':' || c = ';' || c = '_'

/-- `name.replace("'", "''")` -/
def doubleQuotes : List Char → List Char
  | [] => []
  | c :: cs => if c = '\'' then '\'' :: '\'' :: doubleQuotes cs else c :: doubleQuotes cs

/-- `name.replace(" ", "_")` -/
def munge : List Char → List Char
  | [] => []
  | c :: cs => (if c = ' ' then '_' else c) :: munge cs

def startsEndsQuote (n : List Char) : Bool :=
  match n with
  | [] => false
  | c :: _ => c = '\'' && n.getLast? = some '\''

def escapeName (n : List Char) : List Char :=
  if startsEndsQuote n then n
  else if n.any needsQuote then '\'' :: (doubleQuotes n ++ ['\''])
  else munge n

/- `get_newick(with_distances=False)` as a string -/
mutual
def printStr {K : Type} : PTree K → List Char
  | .node n _ [] => if n = "" then [] else escapeName n.toList
  | .node n _ (c :: cs) => '(' :: (printStr c ++ printTail cs) ++ (if n = "" then [] else escapeName n.toList)
def printTail {K : Type} : List (PTree K) → List Char
  | [] => [')']
  | c :: cs => ',' :: (printStr c ++ printTail cs)
end

def newickStr {K : Type} (t : PTree K) : List Char := printStr t ++ [';']

/- `get_newick(with_distances=True)`: `result[-1] = f"{result[-1]}:{length}"` after the name;
   `sh` stands for Python's `str(float)` -/
def lenStr {K : Type} (sh : K → List Char) : Option K → List Char
  | some k => ':' :: sh k
  | none => []

mutual
def printStrW {K : Type} (sh : K → List Char) : PTree K → List Char
  | .node n l [] => (if n = "" then [] else escapeName n.toList) ++ lenStr sh l
  | .node n l (c :: cs) =>
    '(' :: (printStrW sh c ++ printTailW sh cs) ++ ((if n = "" then [] else escapeName n.toList) ++ lenStr sh l)
def printTailW {K : Type} (sh : K → List Char) : List (PTree K) → List Char
  | [] => [')']
  | c :: cs => ',' :: (printStrW sh c ++ printTailW sh cs)
end

def newickStrW {K : Type} (sh : K → List Char) (t : PTree K) : List Char := printStrW sh t ++ [';']

/-! ### stage 1: the regular-expression split -/
inductive Raw where
  | ws (s : List Char)     -- `[\t ]+`
  | nl                     -- `\n`
  | sq2                    -- `''`
  | dq2                    -- `""`
  | sp (c : Char)          -- one of  ] [ ' " ( ) , : ;
  | txt (s : List Char)    -- anything else (maximal)
  deriving DecidableEq

def isBlank (c : Char) : Bool := c = ' ' || c = '\t'
def isPunct (c : Char) : Bool :=
  c = '[' || c = ']' || c = '(' || c = ')' || c = ',' || c = ':' || c = ';'

inductive Pend where
  | none
  | ws (run : List Char)   -- reversed
  | sq
  | dq

structure LexSt where
  txt : List Char := []    -- reversed
  pend : Pend := .none

def flushTxt (txt : List Char) : List Raw := if txt.isEmpty then [] else [.txt txt.reverse]

/-- a character met with nothing pending -/
def lexFresh (txt : List Char) (c : Char) : LexSt × List Raw :=
  if isBlank c then (⟨[], .ws [c]⟩, flushTxt txt)
  else if c = '\n' then (⟨[], .none⟩, flushTxt txt ++ [.nl])
  else if c = '\'' then (⟨[], .sq⟩, flushTxt txt)
  else if c = '"' then (⟨[], .dq⟩, flushTxt txt)
  else if isPunct c then (⟨[], .none⟩, flushTxt txt ++ [.sp c])
  else (⟨c :: txt, .none⟩, [])

def lexStep (σ : LexSt) (c : Char) : LexSt × List Raw :=
  match σ.pend with
  | .none => lexFresh σ.txt c
  | .ws run =>
    if isBlank c then (⟨[], .ws (c :: run)⟩, [])
    else let r := lexFresh [] c; (r.1, .ws run.reverse :: r.2)
  | .sq =>
    if c = '\'' then (⟨[], .none⟩, [.sq2])
    else let r := lexFresh [] c; (r.1, .sp '\'' :: r.2)
  | .dq =>
    if c = '"' then (⟨[], .none⟩, [.dq2])
    else let r := lexFresh [] c; (r.1, .sp '"' :: r.2)

def lexEnd (σ : LexSt) : List Raw :=
  match σ.pend with
  | .none => flushTxt σ.txt
  | .ws run => [.ws run.reverse]
  | .sq => [.sp '\'']
  | .dq => [.sp '"']

def lexRun : LexSt → List Char → List Raw
  | σ, [] => lexEnd σ
  | σ, c :: cs => let r := lexStep σ c; r.2 ++ lexRun r.1 cs

def lex (cs : List Char) : List Raw := lexRun {} cs

def Raw.str : Raw → List Char
  | .ws s => s
  | .nl => ['\n']
  | .sq2 => ['\'', '\'']
  | .dq2 => ['"', '"']
  | .sp c => [c]
  | .txt s => s

/-! ### stage 2: the token loop -/
inductive STok where
  | lab (s : List Char)
  | pun (c : Char)
  deriving DecidableEq

structure MSt where
  text : Option (List Char) := none
  closing : Option Char := none
  inComment : Bool := false
  comment : List Char := []

/-- Python `str.isspace` (what `str.strip()` removes): the 29 code points  U+0009..000D, 001C..001F, 0020,
0085, 00A0, 1680, 2000..200A, 2028, 2029, 202F, 205F, 3000  (compared with `chr(c).isspace()` for every
code point each run) -/
def pySpace (c : Char) : Bool :=
  c = ' ' || c = '\t' || c = '\n' || c = '\r' || c.toNat = 11 || c.toNat = 12 ||
  (28 ≤ c.toNat && c.toNat ≤ 31) || c.toNat = 0x85 || c.toNat = 0xA0 || c.toNat = 0x1680 ||
  (0x2000 ≤ c.toNat && c.toNat ≤ 0x200A) || c.toNat = 0x2028 || c.toNat = 0x2029 || c.toNat = 0x202F ||
  c.toNat = 0x205F || c.toNat = 0x3000

def strip (s : List Char) : List Char :=
  ((s.dropWhile pySpace).reverse.dropWhile pySpace).reverse

/-- `text.replace("_", " ")` -/
def unmunge : List Char → List Char
  | [] => []
  | c :: cs => (if c = '_' then ' ' else c) :: unmunge cs

/-- `if text: text = text.strip(); unmunge; label_complete = True` -/
def finishText (text : Option (List Char)) : Option (List Char) × Bool :=
  match text with
  | some (c :: cs) => (some (unmunge (strip (c :: cs))), true)
  | other => (other, false)

/-- the part of the loop body after the comment handling; returns the new state and the yielded tokens -/
def mBody (σ : MSt) (tok : Raw) : Option (MSt × List STok) :=
  match σ.closing with
  | some q =>
    if tok = .nl then none                                -- "Line ended inside quoted label"
    else if tok = .sp q then some ({ σ with closing := none, text := none }, [.lab (σ.text.getD [])])
    else
      let piece := if (q = '\'' && tok = .sq2) || (q = '"' && tok = .dq2) then [q] else tok.str
      some ({ σ with text := some (σ.text.getD [] ++ piece) }, [])
  | none =>
    let isStruct := match tok with
      | .nl => true
      | .sp c => isPunct c
      | _ => false
    if isStruct then
      let (text', complete) := finishText σ.text
      let out1 := if complete then [STok.lab (text'.getD [])] else []
      let text'' := if complete then none else text'
      match tok with
      | .nl => some ({ σ with text := text'' }, out1)
      | .sp c =>
        if c = '[' then some ({ σ with text := text'', inComment := true }, out1 ++ [.pun c])
        else if c = ']' then some ({ σ with text := text'' }, out1)
        else some ({ σ with text := text'' }, out1 ++ [.pun c])
      | _ => none
    else
      match σ.text with
      | some t => some ({ σ with text := some (t ++ tok.str) }, [])
      | none =>
        match tok with
        | .sq2 => some (σ, [.lab []])
        | .dq2 => some (σ, [.lab []])
        | .sp c => some ({ σ with closing := some c, text := some [] }, [])     -- a quote character
        | .ws _ => some (σ, [])
        | other => if (strip other.str).isEmpty then some (σ, []) else some ({ σ with text := some other.str }, [])

def mStep (σ : MSt) (tok : Raw) : Option (MSt × List STok) :=
  if σ.inComment then
    if tok = .sp ']' then mBody { σ with inComment := false, text := some σ.comment, comment := [] } tok
    else some ({ σ with comment := σ.comment ++ tok.str }, [])
  else mBody σ tok

/-- the end of the text (`EOT`) -/
def mEnd (σ : MSt) : Option (List STok) :=
  if σ.inComment then none
  else if σ.closing.isSome then none
  else
    let (text', complete) := finishText σ.text
    some (if complete then [.lab (text'.getD [])] else [])

def mRun : MSt → List Raw → Option (List STok)
  | σ, [] => mEnd σ
  | σ, r :: rs =>
    match mStep σ r with
    | none => none
    | some (σ', out) => (mRun σ' rs).map (out ++ ·)

/-- `list(_Tokeniser(text, underscore_unmunge=True).tokens())` without the final EOT -/
def tokenise (cs : List Char) : Option (List STok) := mRun {} (lex cs)

/-! ### from the tokeniser's strings to `parse_string`'s tokens

`parse_string` compares each token with the punctuation strings and converts the token after
`:` with `float` (`rd`); every other label is a name (`[` comments are out of scope). -/
def punTok {K : Type} (c : Char) : Option (Tok K) :=
  if c = '(' then some .lp else if c = ')' then some .rp else if c = ',' then some .comma
  else if c = ':' then some .colon else if c = ';' then some .semi else none

/-- the tokens produced before the tokeniser raises (`false`) or reaches the end of the text -/
def mRunP : MSt → List Raw → List STok × Bool
  | σ, [] =>
    match mEnd σ with
    | some o => (o, true)
    | none => ([], false)
  | σ, r :: rs =>
    match mStep σ r with
    | none => ([], false)
    | some (σ', o) => let p := mRunP σ' rs; (o ++ p.1, p.2)

def tokeniseP (cs : List Char) : List STok × Bool := mRunP {} (lex cs)

/-- how `parse_string` reads one token: the token after `:` goes through `float`; a token equal to a
punctuation string is that punctuation (even when it came from a quoted label); else a name -/
def classify {K : Type} (rd : List Char → Option K) (afterColon : Bool) (tok : STok) : Option (Tok K × Bool) :=
  match afterColon, tok with
  | true, .lab s => (rd s).map fun k => (Tok.num k, false)
  | true, .pun _ => none
  | false, .lab s =>
    match s with
    | [c] =>
      if c = '[' then none                      -- taken for a comment opener (comments are not modelled)
      else (match punTok (K := K) c with
        | some t => some (t, c == ':')
        | none => some (Tok.label (String.ofList s), false))
    | _ => some (Tok.label (String.ofList s), false)
  | false, .pun c => (punTok (K := K) c).map fun t => (t, c == ':')

/-- `parse_string` consumes the token generator lazily: it stops at the first top-level `;`, so a
later tokeniser error is never seen.  `ok = false`: the generator raises after these tokens. -/
def plazy {K : Type} (rd : List Char → Option K) : PState K → Bool → List STok → Bool → Option (PTree K)
  | σ, _, [], ok =>
    if ok then (match pstep σ none with
      | .done t => some t
      | _ => none)
    else none
  | σ, ac, tok :: ts, ok =>
    match classify rd ac tok with
    | none => none
    | some (t, ac') =>
      match pstep σ (some t) with
      | .cont σ' => plazy rd σ' ac' ts ok
      | .done r => some r
      | .err => none

/-- `parse_string(text)` on characters (after its "Not a Newick tree" guard) -/
def parseString {K : Type} (rd : List Char → Option K) (cs : List Char) : Option (PTree K) :=
  let p := tokeniseP cs
  plazy rd {} false p.1 p.2

/-! ### which names survive `parse_string(get_newick())`

The writer / tokeniser / parser triple returns a node's name unchanged exactly when `roundTrips` holds
(sufficiency is `newick_string_roundtrip`; each excluded class has a counterexample theorem and the
predicate is compared with the real round trip on adversarial names every run):
  * the empty name is the model's "no name";
  * a newline ends an unquoted label and is an error inside a quoted one;
  * a leading single quote: `'a` is written `'''a'`, read as an empty label followed by a quoted one
    (`'a'` is written verbatim and read back as `a`)            — known finding C09-newick-leading-quote-name;
  * a name that is one of `( ) , : ; [` is taken for the punctuation by `parse_string`, quoted or not
                                                                   — known finding C09-newick-punctuation-name;
  * an UNQUOTED name (none of ``[]'"(),:;_`` in it) is `strip()`ped by the tokeniser, so it must not begin
    or end with white space other than the blank (blanks are written as `_`, which is not stripped). -/
/-- the strings `parse_string` compares tokens with -/
def isPunTokChar (c : Char) : Bool := c = '(' || c = ')' || c = ',' || c = ':' || c = ';'

/-- a label that is not one of the punctuation strings -/
def notPunLab (s : List Char) : Bool :=
  match s with
  | [c] => !isPunTokChar c && c != '['
  | _ => true

/-- white space that `munge` does not turn into an underscore -/
def hardSpace (c : Char) : Bool := pySpace c && c != ' '

def roundTrips (n : List Char) : Bool :=
  !n.isEmpty && !n.contains '\n' && (n.head? != some '\'') && notPunLab n &&
    (n.any needsQuote || (!(n.head?.any hardSpace) && !(n.getLast?.any hardSpace)))

/-- `make_tree(node.get_newick(), underscore_unmunge=True)` for a single named tip beside a plain one:
the name read back for the first tip (`none`: the parser raises or returns another shape) -/
def nameRoundTrip (n : List Char) : Option String :=
  match parseString (K := Unit) (fun _ => some ())
      (newickStr (K := Unit) (.node "" none [.node (String.ofList n) none [], .node "z" none []])) with
  | some (.node _ _ [.node m _ [], .node "z" _ []]) => some m
  | _ => none

end CogentModel.Phylo
