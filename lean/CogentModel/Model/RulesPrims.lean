import CogentModel.Model.ParamRules
import CogentModel.Model.Controller
/-
  C07 — primitives used by the GENERATED file `Gen/C07Rules.lean` (translator/c07_rules2lean.py).

  The translator turns the python statements of
    recalculation/scope.py   `_LeafDefn.get_current_bounds`, `get_mean_current_value`, the per-scope body of
                             `_LeafDefn.assign_all`; `ParameterController._updateIntermediateValues`,
                             `update_intermediate_values`, `assign_all`, `updates_postponed`
    evolve/parameter_controller.py  the tail of `set_param_rule` (argument checks, the call of `assign_all`)
  into Lean `do` blocks one statement at a time.  Every python value that may be `None` or a number is an
  `Option Rat` (`PV`); every attribute access / library call the statements make is ONE primitive below, each
  a one-liner over the hand model's state (`Rules.St`, `Ctl.St`).  Import-free (compiled into the driver).
-/
namespace CogentModel.Rules.Prim
open CogentModel.Rules

/-- a python value: `None` or a number -/
abbrev PV := Option Rat

/-- a Setting object as python builds it: `ConstVal(v)` / `Var((lower, value, upper))`, any component may be `None` -/
inductive PSetting where
  | const (v : PV)
  | var (lo v hi : PV)
  deriving DecidableEq, Repr, Inhabited

/-- the hand model's settings are the python settings without `None` components -/
def lift : Setting → PSetting
  | .const v => .const (some v)
  | .var lo v hi => .var (some lo) (some v) (some hi)

/-- `self.assignments[s].get_bounds()`: `Var` → `(lower, value, upper)`, `ConstVal` → `(None, value, None)` -/
def getBounds (self : St) (s : Nat) : PV × PV × PV :=
  match self.setting s with
  | .var lo v hi => (some lo, some v, some hi)
  | .const v => (none, some v, none)

/-- `self.assignments[s].get_default_value()` -/
def getDefaultValue (self : St) (s : Nat) : PV := some (self.setting s).value

/-- `self.get_default_setting().get_bounds()`: the class defaults `Var((lower, default, upper))` -/
def defaultBounds (d : Defn) : PV × PV × PV := (some d.dLo, some d.dVal, some d.dHi)

/-- `a < b` (python raises TypeError when an operand is `None`; never reached for numeric parameters, whose
bounds and values are numbers: the theorems of Proofs/RulesGen.lean hold with this totalisation) -/
def pyLt : PV → PV → Bool
  | some a, some b => decide (a < b)
  | _, _ => false

/-- `a > b` -/
def pyGt (a b : PV) : Bool := pyLt b a

/-- `a == b` on numbers / None -/
def pyEq (a b : PV) : Bool := a == b

/-- `x is None` -/
def isNone (a : PV) : Bool := a.isNone

-- truthiness of a number / None (`if x:`, `not x`, `x or y`) is `Rules.truthy` of the hand model

/-- `sum(values)` -/
def pySum (vs : List PV) : PV := some (vs.foldl (fun acc v => acc + v.getD 0) 0)

/-- `len(values)` as a python number -/
def pyLen {α : Type} (vs : List α) : PV := some (vs.length : Rat)

/-- `a / b` -/
def pyDiv : PV → PV → PV
  | some a, some b => some (a / b)
  | _, _ => none

/-- `values[i]` -/
def pyIdx (vs : List PV) (i : Nat) : PV := (vs[i]?).getD none

/-- `self.unwrap_value(value)`: `array_template` is None for a scalar parameter -/
def unwrapValue (v : PV) : PV := v

/-- `self.numeric` (ParamDefn.numeric = True) -/
def numeric (_d : Defn) : Bool := true

/-- `self.const_by_default` (ParamDefn.const_by_default = False) -/
def constByDefault (_d : Defn) : Option Bool := some false

/-- truthiness of an optional bool (`if const:`) -/
def truthyB : Option Bool → Bool
  | some b => b
  | none => false

/-- `self.check_setting_is_valid(setting)`: `pass` for ParamDefn -/
def checkSettingIsValid (_d : Defn) (_s : PSetting) : Except String Unit := pure ()

/-- `assert c` -/
def pyAssert (c : Bool) : Except String Unit := if c then pure () else throw "AssertionError"

end CogentModel.Rules.Prim

namespace CogentModel.Ctl.Prim
open CogentModel.Ctl
variable {V : Type} [Inhabited V]

/-- `self.defns` (topological order): definitions are their indices -/
def defns (g : Graph V) : List Nat := List.range g.length

/-- `id(defn) in self._changed` -/
def changedContains (self : St V) (k : Nat) : Bool := self.changed.contains k

/-- `self._changed.add(id(c))` -/
def changedAdd (self : St V) (k : Nat) : St V := { self with changed := self.changed ++ [k] }

/-- `self._changed.update(id(defn) for defn in ks)` -/
def changedUpdate (self : St V) (ks : List Nat) : St V := { self with changed := self.changed ++ ks }

/-- `self._changed.clear()` -/
def changedClear (self : St V) : St V := { self with changed := [] }

/-- `defn.update()` -/
def defnUpdate (g : Graph V) (self : St V) (k : Nat) : St V := updateOne g self k

/-- `defn.clients` -/
def defnClients (g : Graph V) (k : Nat) : List Nat := clients g k

/-- `isinstance(defn, _LeafDefn)` -/
def isLeaf (g : Graph V) (k : Nat) : Bool :=
  match defn g k with
  | .leaf => true
  | .derived _ _ => false

/-- `self._update_suspended = b` -/
def setSuspended (self : St V) (b : Bool) : St V := { self with suspended := b }

/-- `defn.assign_all(...)` of a leaf definition: store the setting -/
def defnAssign (self : St V) (k : Nat) (v : V) : St V := { self with setting := upd self.setting k v }

/-- `defn.update_from_calculator(calc)` of a leaf definition: its setting takes the calculator's value -/
def defnFromCalc (self : St V) (k : Nat) (cv : Nat → V) : St V := { self with setting := upd self.setting k (cv k) }

end CogentModel.Ctl.Prim
