/-
  C13 — hand-written mirror of `cogent3/app/data_store.py :: DataStoreDirectory`
  over an abstract file system (four association lists) — import-free.

  Layer 1 (naming): the string functions the code applies to identifiers, as `List Char`
  functions mirroring CPython 3.12 (`str.replace`, `in`, `endswith`, `pathlib.Path.stem/suffix/
  suffixes`, `cogent3.util.io.get_format_suffixes`, the two regexes).  Tied to the real functions
  by an exhaustive small-string correspondence (harness `names` stream).
  Layer 2 (state machine): `_completed/_not_completed` caches ("empty list means re-glob"),
  `__contains__`, `_write`, `write`, `write_not_completed`, `write_log`, `drop_not_completed`,
  `md5`, mode checks, re-open.  Every op returns the new state and a result (`Res`); an
  exception leaves the partially updated state, exactly as the Python does.

  The model follows the code after the repairs 5d49b05d8 (`drop_not_completed` matches the
  record name exactly), fce82c149 (it refuses a read-only store) and 0dec94369 (a rewritten
  not-completed record is listed once).  `Cfg` selects between the code as it is and the
  proposed repair fixes/C13-readonly-creates-directories.patch (a read-only store creates no
  directory); the harness detects by behaviour which one the tree under test follows.
-/
import CogentModel.Model.KV
namespace CogentModel.DataStore
open CogentModel.KV

/-! ## naming layer -/

def sJson : Str := ['j','s','o','n']
def sLog : Str := ['l','o','g']
def sTxt : Str := ['t','x','t']
def ncPrefix : Str := ['n','o','t','_','c','o','m','p','l','e','t','e','d','/']
def compression : List Str := [['b','z','2'], ['g','z'], ['z','i','p']]

def startsWith (s p : Str) : Bool := p.isPrefixOf s
def endsWith (s p : Str) : Bool := p.isSuffixOf s

/-- python `p in s` -/
def isInfix (p : Str) : Str → Bool
  | [] => p.isEmpty
  | c :: cs => p.isPrefixOf (c :: cs) || isInfix p cs

def replaceGo (old new : Str) : Nat → Str → Str
  | 0, s => s
  | _ + 1, [] => []
  | fuel + 1, c :: cs =>
    if old.isPrefixOf (c :: cs) then new ++ replaceGo old new fuel ((c :: cs).drop old.length)
    else c :: replaceGo old new fuel cs

/-- python `s.replace(old, new)` for non-empty `old` (all call sites have a non-empty `old`) -/
def replaceAll (s old new : Str) : Str :=
  if old = [] then s else replaceGo old new s.length s

/-- `Path(p).name` for a relative path without trailing slash: the last component -/
def pathName (p : Str) : Str := (p.reverse.takeWhile (· != '/')).reverse

def sResults : Str := ['r','e','s','u','l','t','s']
def sLogs : Str := ['l','o','g','s']

/-- `(stem, extension without the dot)` when `Path(path).suffix` is non-empty
    (`name = Path(path).name`, `i = name.rfind('.')`, `0 < i < len(name) - 1`) -/
def splitExt (path : Str) : Option (Str × Str) :=
  let name := pathName path
  let p := name.reverse.span (· != '.')
  match p.2 with
  | [] => none
  | _ :: rstem => if rstem.isEmpty || p.1.isEmpty then none else some (rstem.reverse, p.1.reverse)

/-- `Path(name).stem` -/
def pathStem (path : Str) : Str :=
  match splitExt path with
  | some (st, _) => st
  | none => pathName path

/-- python `s.split('.')` -/
def splitDot : Str → List Str
  | [] => [[]]
  | c :: cs =>
    let r := splitDot cs
    if c = '.' then [] :: r
    else match r with
      | h :: t => (c :: h) :: t
      | [] => [[c]]

/-- `Path(name).suffixes`, each without its leading dot -/
def pathSuffixes (path : Str) : List Str :=
  let name := pathName path
  if name.getLast? = some '.' then [] else (splitDot (name.dropWhile (· == '.'))).tail

/-- `cogent3.util.io.get_format_suffixes` : (format suffix, compression suffix) -/
def getFormatSuffixes (name : Str) : Option Str × Option Str :=
  if (splitExt name).isNone then (none, none) else
  let all := (pathSuffixes name).map (fun s => s.map Char.toLower)
  let l2 := all.drop (all.length - 2)
  match l2.getLast? with
  | none => (none, none)     -- only for names with leading dots (the Python raises IndexError there)
  | some last =>
    let cmp := if compression.contains last then some last else none
    let sfx := if l2.length = 2 && cmp.isSome then l2.head?
               else if cmp.isNone then some last else none
    (sfx, cmp)

/-- `_special_suffixes.search(item)` : `\.(log|json)$` -/
def special (item : Str) : Bool := endsWith item ('.' :: sLog) || endsWith item ('.' :: sJson)

/-- the string `DataStoreDirectory.__contains__` compares with the member ids -/
def containsItem (storeSfx item : Str) : Str :=
  if special item then item
  else if isInfix storeSfx item then item else item ++ '.' :: storeSfx

structure Names where
  /-- compared with the members by `_check_writable` -/
  chk1 : Str
  /-- the file name written (`unique_id` after suffix rewriting) -/
  file : Str
  /-- compared with the members by `if suffix != "log" and unique_id in self` -/
  chk2 : Str
  /-- md5 side-file name -/
  md5 : Str
  deriving Repr, DecidableEq

/-- all names `_write(subdir, unique_id, suffix)` derives from the identifier -/
def resolve (storeSfx suffix uid : Str) : Names :=
  let uid1 := if (getFormatSuffixes uid).1 = some suffix then uid else pathStem uid ++ '.' :: suffix
  let cmp := (getFormatSuffixes uid1).2
  let uid2 := if !storeSfx.isEmpty && storeSfx != suffix then replaceAll uid1 storeSfx suffix else uid1
  let m := replaceAll uid2 suffix sTxt
  let m := match cmp with
    | none => m
    | some c => replaceAll m ('.' :: c) []
  { chk1 := containsItem storeSfx uid, file := uid2, chk2 := containsItem storeSfx uid2, md5 := m }

/-- the key `drop_not_completed(unique_id)` matches the not-completed member ids against
    (`[]` = drop all) -/
def dropKey (storeSfx uid : Str) : Str :=
  let u := replaceAll uid ('.' :: storeSfx) []
  if u.isEmpty then [] else u ++ '.' :: sJson

/-- `md5_dir / f"{file.stem}.txt"` of `drop_not_completed` -/
def dropMd5 (file : Str) : Str := pathStem file ++ '.' :: sTxt

/-- does `s` match the store suffix READ AS A REGULAR EXPRESSION (`md5()` interpolates it unescaped):
    a `.` of a two-part suffix (`fa.gz`) matches any character but a newline, every other character of
    the generated suffix domain (`[a-z0-9]`) matches itself -/
def sfxReMatch : Str → Str → Bool
  | [], [] => true
  | p :: ps, c :: cs => (if p = '.' then c != '\n' else p == c) && sfxReMatch ps cs
  | _, _ => false

/-- `name` ends with a literal dot followed by a match of the suffix pattern (`[.](<suffix>)$`) -/
def endsWithSfxRe (name storeSfx : Str) : Bool :=
  let tail := name.drop (name.length - (storeSfx.length + 1))
  decide (storeSfx.length + 1 ≤ name.length) && tail.head? == some '.' && sfxReMatch storeSfx (tail.drop 1)

/-- one alternative of a pattern `[.](A|B|…)$`: an interpolated string read as a regular expression (`pat`, see
    `sfxReMatch`) or a literal word (`lit`) -/
inductive Alt
  | pat (s : Str)
  | lit (s : Str)

def Alt.len : Alt → Nat
  | .pat s => s.length
  | .lit s => s.length

/-- does `name` end with a dot followed by (a match of) the alternative -/
def Alt.endsMatch (name : Str) : Alt → Bool
  | .pat s => endsWithSfxRe name s
  | .lit s => endsWith name ('.' :: s)

/-- `re.compile(r"[.](A|B)$").search(name)` -/
def reSearchDotAltEnd (alts : List Alt) (name : Str) : Bool := alts.any (·.endsMatch name)

/-- `re.sub(r"[.](A|B)$", repl, name)`: the first alternative (in order) that matches at the end is replaced, with its dot.
    (Python replaces the LEFTMOST match; the two agree whenever at most one alternative matches, or the matching ones
    have the same length.) -/
def reSubDotAltEnd (alts : List Alt) (repl name : Str) : Str :=
  match alts.find? (·.endsMatch name) with
  | some a => name.take (name.length - (a.len + 1)) ++ repl
  | none => name

/-- `re.sub(rf"[.]({suffix}|json)$", ".txt", name)` of `md5()` -/
def md5Lookup (storeSfx name : Str) : Str :=
  reSubDotAltEnd [.pat storeSfx, .lit sJson] ('.' :: sTxt) name

/-- does the drop key select the not-completed member whose file name is `name`
    (`Path(m.unique_id).name != unique_id`) -/
def dropMatch (key name : Str) : Bool := name == key

/-! ## state machine -/

inductive Mode | r | w | a
  deriving Repr, DecidableEq

inductive Err | ioError | fileNotFound | osError | integrity | operational
  deriving Repr, DecidableEq

/-- result of an operation: finished (returning a member id or `None`) or raised -/
inductive Res
  | done (member : Option Str)
  | err (e : Err)
  deriving Repr, DecidableEq

inductive Sub | root | nc | logs
  deriving Repr, DecidableEq

structure Cfg where
  /-- the constructor creates the sub-directories only for the writable modes (repair); the code
      as it is tests `mode is READONLY` on the raw argument, which is never true for `mode="r"` -/
  roOpenNoMkdir : Bool
  /-- `write_not_completed` / `write_log` create their directory only on a writable store (repair);
      the code as it is runs `mkdir` before the mode check raises -/
  roWriteNoMkdir : Bool
  /-- `_write` puts the md5 side file in place BEFORE the record (fixes/C19-datastore-atomic-record.patch);
      the code as it is writes the record first.  Only observable for identifiers with a directory
      part: md5-first fails before anything is written, record-first leaves a stray record. -/
  md5First : Bool
  deriving Repr, DecidableEq

/-- the tree as it is -/
def Cfg.asIs : Cfg := { roOpenNoMkdir := false, roWriteNoMkdir := false, md5First := false }
def Cfg.repaired : Cfg := { roOpenNoMkdir := true, roWriteNoMkdir := true, md5First := true }

structure Dir (D : Type) where
  mode : Mode
  sfx : Str
  /-- files directly under `source` -/
  root : KV D
  /-- `source/not_completed` exists -/
  ncDir : Bool
  nc : KV D
  /-- `source/logs` exists -/
  logsDir : Bool
  logs : KV D
  md5 : KV D
  /-- `_completed` (member ids = file names) -/
  cCache : List Str
  /-- `_not_completed` (file names; the member id is `not_completed/<name>`) -/
  ncCache : List Str

variable {D : Type}

/-- `DataStoreDirectory(new_dir, mode=w|a, suffix=sfx)` -/
def Dir.create (mode : Mode) (sfx : Str) : Dir D :=
  { mode, sfx, root := [], ncDir := true, nc := [], logsDir := true, logs := [], md5 := [], cCache := [], ncCache := [] }

/-- a new store object on the same directory, the mode given as a string (`mode="r"`), as the
    harness does.  `_source_check_create` compares the *raw* argument with the enum member
    (`mode is READONLY`), which is never true for a string, so (code as it is) the sub-directories
    are (re)created for every mode, read-only included. -/
def reopen (cfg : Cfg) (s : Dir D) (mode : Mode) : Dir D :=
  let mk := !(cfg.roOpenNoMkdir && mode == .r)
  { s with mode := mode, cCache := [], ncCache := [], ncDir := s.ncDir || mk, logsDir := s.logsDir || mk }

def globC (s : Dir D) : List Str := (keys s.root).filter (fun n => endsWith n ('.' :: s.sfx))
def globNc (s : Dir D) : List Str :=
  if s.ncDir then (keys s.nc).filter (fun n => endsWith n ('.' :: sJson)) else []

/-- the `not_completed` property: an empty cache is rebuilt from the directory listing -/
def populateNc (s : Dir D) : Dir D :=
  if s.ncCache.isEmpty then { s with ncCache := globNc s } else s

def populateC (s : Dir D) : Dir D :=
  if s.cCache.isEmpty then { s with cCache := globC s } else s

/-- the `members` property -/
def populate (s : Dir D) : Dir D := populateNc (populateC s)

/-- `DataStoreABC.__contains__` on the already transformed item (caches populated) -/
def contains (s : Dir D) (item : Str) : Bool :=
  s.cCache.contains item || s.ncCache.any (fun n => ncPrefix ++ n == item)

def writeFile (s : Dir D) (sub : Sub) (name : Str) (data : D) : Dir D :=
  match sub with
  | .root => { s with root := put s.root name data }
  | .nc => { s with nc := put s.nc name data }
  | .logs => { s with logs := put s.logs name data }

def sNotCompleted : Str := ['n','o','t','_','c','o','m','p','l','e','t','e','d']
def sMd5 : Str := ['m','d','5']

/-- `open(source / subdir / name, "w")` for a name with a directory part.  Only
    `write(unique_id="logs/x.<suffix>")` (resp. `not_completed/…`, `md5/…`) names an existing
    directory: the record lands there as a stray file.  Returns `none` when the directory does not
    exist (`FileNotFoundError`, nothing written). -/
def strayWrite (s : Dir D) (sub : Sub) (file : Str) (data : D) : Option (Dir D) :=
  if sub != .root then none else
  let dir := file.takeWhile (· != '/')
  let rest := (file.dropWhile (· != '/')).drop 1
  if rest.contains '/' || rest.isEmpty then none
  else if dir == sLogs && s.logsDir then some { s with logs := put s.logs rest data }
  else if dir == sNotCompleted && s.ncDir then some { s with nc := put s.nc rest data }
  else if dir == sMd5 then some { s with md5 := put s.md5 rest data }
  else none

/-- `_write` after the mode / existence checks -/
def writeBody (cfg : Cfg) (H : D → D) (s : Dir D) (sub : Sub) (n : Names) (data : D) : Dir D × Res :=
  -- a file name with a directory part: either `open` fails (no such directory), or the record is
  -- written into an existing sub-directory and the md5 file (`md5/<dir>/…`) cannot be created;
  -- md5-first order: the md5 file (same directory part) fails first, nothing is written
  if n.file.contains '/' then
    if cfg.md5First && sub != .logs then (s, .err .fileNotFound) else
    match strayWrite s sub n.file data with
    | some s1 => (s1, .err .fileNotFound)
    | none => (s, .err .fileNotFound)
  else
  let s1 := writeFile s sub n.file data
  if sub = .logs then (s1, .done none)
  else ({ s1 with md5 := put s1.md5 n.md5 (H data) }, .done (some n.file))

/-- `_write(subdir, unique_id, suffix, data)` -/
def writeCore (cfg : Cfg) (H : D → D) (s0 : Dir D) (sub : Sub) (uid suffix : Str) (data : D) : Dir D × Res :=
  if s0.mode = .r then (s0, .err .ioError) else
  let s := populate s0
  let n := resolve s.sfx suffix uid
  if contains s n.chk1 && s.mode = .a then (s, .err .ioError)
  else if suffix != sLog && contains s n.chk2 then (s, .done none)
  else writeBody cfg H s sub n data

/-- one iteration per snapshot member of `for m in list(self.not_completed)` -/
def dropLoop (key : Str) : Dir D → List Str → Dir D × Res
  | s, [] => (s, .done none)
  | s, m :: ms =>
    if !key.isEmpty && !dropMatch key m then dropLoop key s ms
    else if !has s.nc m then (s, .err .fileNotFound)
    else if !has s.md5 (dropMd5 m) then ({ s with nc := del s.nc m }, .err .fileNotFound)
    else dropLoop key
      { s with nc := del s.nc m, md5 := del s.md5 (dropMd5 m), ncCache := s.ncCache.erase m } ms

/-- what follows the loop of `drop_not_completed` -/
def dropFinish (key : Str) (s : Dir D) : Dir D × Res :=
  if !key.isEmpty then (s, .done none)
  else if !s.ncDir then (s, .err .fileNotFound)
  else if !s.nc.isEmpty then (s, .err .osError)
  else ({ s with ncDir := false, ncCache := [] }, .done none)

/-- `drop_not_completed(unique_id=uid)`; `uid = ""` drops all -/
def dropNc (s0 : Dir D) (uid : Str) : Dir D × Res :=
  if s0.mode = .r then (s0, .err .ioError) else
  let key := dropKey s0.sfx uid
  let s := populateNc s0
  match dropLoop key s s.ncCache with
  | (s1, .err e) => (s1, .err e)
  | (s1, .done _) => dropFinish key s1

/-- `write(unique_id, data)` -/
def write (cfg : Cfg) (H : D → D) (s : Dir D) (uid : Str) (data : D) : Dir D × Res :=
  match writeCore cfg H s .root uid s.sfx data with
  | (s1, .err e) => (s1, .err e)
  | (s1, .done m) =>
    match dropNc s1 uid with
    | (s2, .err e) => (s2, .err e)
    | (s2, .done _) =>
      match m with
      | some f => ({ s2 with cCache := s2.cCache ++ [f] }, .done (some f))
      | none => (s2, .done none)

/-- `write_not_completed(unique_id, data)`; code as it is: the `mkdir` precedes every check -/
def writeNc (cfg : Cfg) (H : D → D) (s : Dir D) (uid : Str) (data : D) : Dir D × Res :=
  let s0 := if cfg.roWriteNoMkdir && s.mode = .r then s else { s with ncDir := true }
  match writeCore cfg H s0 .nc uid sJson data with
  | (s1, .done (some f)) =>
    -- a record that is rewritten is already listed
    (if s1.ncCache.contains f then s1 else { s1 with ncCache := s1.ncCache ++ [f] }, .done (some (ncPrefix ++ f)))
  | r => r

/-- `write_log(unique_id, data)`; code as it is: the `mkdir` precedes every check -/
def writeLog (cfg : Cfg) (H : D → D) (s : Dir D) (uid : Str) (data : D) : Dir D × Res :=
  let s0 := if cfg.roWriteNoMkdir && s.mode = .r then s else { s with logsDir := true }
  writeCore cfg H s0 .logs uid sLog data

/-- operations of a history -/
inductive Op (D : Type)
  | write (uid : Str) (data : D)
  | writeNc (uid : Str) (data : D)
  | writeLog (uid : Str) (data : D)
  | drop (uid : Str)          -- `[]` = all
  | reopen (mode : Mode)
  | observe                   -- reading `completed` / `not_completed` (fills empty caches)
  | unlock                    -- SQLite store only (`unlock()`); nothing on a directory store

def step (cfg : Cfg) (H : D → D) (s : Dir D) : Op D → Dir D × Res
  | .write uid d => write cfg H s uid d
  | .writeNc uid d => writeNc cfg H s uid d
  | .writeLog uid d => writeLog cfg H s uid d
  | .drop uid => dropNc s uid
  | .reopen m => (reopen cfg s m, .done none)
  | .observe => (populate s, .done none)
  | .unlock => (s, .done none)

def run (cfg : Cfg) (H : D → D) (s : Dir D) : List (Op D) → Dir D
  | [] => s
  | op :: ops => run cfg H (step cfg H s op).1 ops

/-- what the property observes of one member: id, `read()`, `md5` (`none` = missing) -/
structure MObs (D : Type) where
  name : Str
  content : Option D
  md5 : Option D

/-- `[(m.unique_id, m.read(), ds.md5(m.unique_id)) for m in ds.completed]` (state already populated) -/
def obsCompleted (s : Dir D) : List (MObs D) :=
  s.cCache.map fun n => ⟨n, get s.root n, get s.md5 (md5Lookup s.sfx n)⟩

def obsNotCompleted (s : Dir D) : List (MObs D) :=
  s.ncCache.map fun n => ⟨ncPrefix ++ n, get s.nc n, get s.md5 (md5Lookup s.sfx n)⟩

/-- `[(m.unique_id, m.read()) for m in ds.logs]`: empty when `source/logs` does not exist -/
def obsLogs (s : Dir D) : KV D := if s.logsDir then s.logs else []

/-! ## `validate()` -/

/-- the four rows of `DataStoreABC.validate()` -/
structure Validate where
  correct : Nat
  incorrect : Nat
  missing : Nat
  hasLog : Bool
  deriving Repr, DecidableEq

/-- `md5 is not None and md5 != get_text_hexdigest(m.read())` (a member whose file is gone counts as wrong; the real
    `read()` raises there) -/
def badMd5 [DecidableEq D] (H : D → D) (m : MObs D) : Bool :=
  match m.md5, m.content with
  | some h, some c => h != H c
  | some _, none => true
  | none, _ => false

/-- `validate()` over `self.members` = completed + not completed (state already populated):
    `correct = len - missing - wrong`, `incorrect = len - correct - missing`, `Has log = len(self.logs) > 0` -/
def validateDir [DecidableEq D] (H : D → D) (s : Dir D) : Validate :=
  let ms := obsCompleted s ++ obsNotCompleted s
  let missing := ms.countP (fun m => m.md5.isNone)
  let wrong := ms.countP (badMd5 H)
  let correct := ms.length - missing - wrong
  { correct, incorrect := ms.length - correct - missing, missing, hasLog := !(obsLogs s).isEmpty }

end CogentModel.DataStore
