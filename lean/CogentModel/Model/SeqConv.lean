import CogentModel.Model.SeqWrap
/-
  DNA <-> RNA conversion of nucleic-acid `Sequence` objects, on top of `Model/SeqWrap.lean`.

  old style (`core/sequence.py`, `Sequence.to_moltype`, `to_rna = to_moltype("rna")`):
      if moltype is self.moltype: return self
      s = moltype.coerce_str(str(self));  sv = SeqView(seq=s);  new = moltype.make_seq(sv, …)
    `coerce_str` for RNA is `seq.replace("t","u").replace("T","U")`, for DNA the inverse.
  new style (`core/new_sequence.py`, `Sequence.to_moltype`):
      if moltype is self.moltype: return self
      seq = moltype.most_degen_alphabet().array_to_bytes(array(self)).decode()   # dna<->rna
      sv = SeqView(seq=seq, alphabet=…);  new = self.__class__(moltype=moltype, seq=sv, …)
    `array(self)` are the indices of `str(self)` (complemented when reversed) in the source
    alphabet, re-read in the target alphabet: a character-by-character substitution.

  In both the result is a *fresh forward view* over a new parent string = the displayed string
  mapped through a per-character conversion `conv` (old: t->u, T->U / u->t, U->T; new: the
  position-wise map between the two most-degenerate alphabets, i.e. T<->U).  The conversion table
  is a parameter (`toR`, `toD`), like the complement tables (`cd` for DNA, `cr` for RNA).
-/
namespace CogentModel.SeqConv
open CogentModel CogentModel.View CogentModel.SeqWrap

/-- a nucleic-acid sequence: the wrapper plus which moltype (DNA / RNA) it has -/
structure CSeq where
  q : Seq
  rna : Bool
  deriving DecidableEq, Repr

def ofString (t : List Char) (rna : Bool) : CSeq := { q := SeqWrap.ofString t true, rna := rna }

def compOf (cd cr : Char → Char) (rna : Bool) : Char → Char := if rna then cr else cd

/-- `str(seq)` with the complement table of the sequence's own moltype -/
def cstr (cd cr : Char → Char) (c : CSeq) : List Char := str (compOf cd cr c.rna) c.q

/-- `Sequence.__iter__`: `yield from iter(str(self))` -/
def iter (cd cr : Char → Char) (c : CSeq) : List Char := cstr cd cr c

/-- `Sequence.__len__` -/
def length (c : CSeq) : Int := SeqWrap.length c.q

/-- `to_moltype(target)`: same moltype -> `self`; otherwise a fresh forward view over the
converted displayed string -/
def convert (cd cr conv : Char → Char) (c : CSeq) (toRna : Bool) : CSeq :=
  if c.rna = toRna then c
  else { q := SeqWrap.ofString ((cstr cd cr c).map conv) true, rna := toRna }

inductive COp where
  | slice (a b c : Option Int)
  | index (i : Int)
  | rc
  | toRna
  | toDna
  deriving Repr

def relabel (c : CSeq) (r : Except Err Seq) : Except Err CSeq :=
  match r with
  | .ok q' => .ok { q := q', rna := c.rna }
  | .error e => .error e

def step1 (cd cr toR toD : Char → Char) (c : CSeq) : COp → Except Err CSeq
  | .slice a b s => relabel c (getitem c.q a b s)
  | .index i => relabel c (getitemI c.q i)
  | .rc => relabel c (rcE c.q)
  | .toRna => .ok (convert cd cr toR c true)
  | .toDna => .ok (convert cd cr toD c false)

def runOps (cd cr toR toD : Char → Char) : CSeq → List COp → Except Err CSeq
  | c, [] => .ok c
  | c, op :: ops => match step1 cd cr toR toD c op with
    | .ok c' => runOps cd cr toR toD c' ops
    | .error e => .error e

def trace (cd cr toR toD : Char → Char) : CSeq → List COp → List (Except Err CSeq)
  | _, [] => []
  | c, op :: ops => match step1 cd cr toR toD c op with
    | .ok c' => .ok c' :: trace cd cr toR toD c' ops
    | .error e => [.error e]

/-! the same chain on a plain string tagged with its moltype -/

def specStep (cd cr toR toD : Char → Char) (st : Bool × List Char) : COp → Option (Bool × List Char)
  | .slice a b s => some (st.1, specSlice (compOf cd cr st.1) true st.2 a b (s.getD 1))
  | .index i => (PySlice.index st.2 i).map fun ch => (st.1, [ch])
  | .rc => some (st.1, specRc (compOf cd cr st.1) st.2)
  | .toRna => some (if st.1 = true then st else (true, st.2.map toR))
  | .toDna => some (if st.1 = false then st else (false, st.2.map toD))

def specRun (cd cr toR toD : Char → Char) : Bool × List Char → List COp → Option (Bool × List Char)
  | st, [] => some st
  | st, op :: ops => (specStep cd cr toR toD st op).bind fun u => specRun cd cr toR toD u ops

end CogentModel.SeqConv
