import CogentModel.Model.Prune
/-!
  C11 — executable additions to the shared pruning model (`Model/Prune.lean`), import-free:

  * `rootedAt`: cogent3's `TreeNode.rooted_at` / `rooted_with_tip`, i.e. `unrooted_deepcopy` started at the
    new root (core/tree.py): a node reached from one of its children gets, as children, its other
    children in their order followed by its own parent (`_getNeighboursExcept`), and hangs below the
    edge of the child it was reached from ("edge params are stored by the child").  The node to root at
    is given by its path of child positions from the root.
  * `mapMats` / `permMat` / `permVec`: the same problem with the states renamed by `σ`.
  * `collapseAt`-style splice is a relation (Proofs/C11Invariance.lean), the executable part is `idMat`.
  * `unrootedM`: `TreeNode.unrooted()` for a root with fewer than three children: the first internal
    child is dissolved, its children take its place, every other child of the root gets the composed
    edge (`length += collapsed.length` is `P(collapsed) · P(sister)` for a time-homogeneous process).
-/
namespace CogentModel.Prune

namespace PTree
variable {R α : Type}
mutual
/-- apply `f` to the matrix of every node -/
def mapMats (f : Mat R → Mat R) : PTree R α → PTree R α
  | leaf P a => leaf (f P) a
  | node P cs => node (f P) (mapMatsL f cs)
def mapMatsL (f : Mat R → Mat R) : List (PTree R α) → List (PTree R α)
  | [] => []
  | c :: cs => mapMats f c :: mapMatsL f cs
end

def isLeaf : PTree R α → Bool
  | leaf _ _ => true
  | node _ _ => false
end PTree

/-- the matrix seen with the states renamed: state `i` of the new problem is state `σ i` of the old one -/
def permMat {R : Type} (σ : Nat → Nat) (P : Mat R) : Mat R := fun i j => P (σ i) (σ j)

/-- the identity matrix (what a zero-length edge of a continuous-time process has) -/
def idMat {R : Type} [Zero R] [One R] : Mat R := fun i j => if i = j then 1 else 0

/-! ## `rooted_at` -/

/-- one step of the way from the new root up to the old one: a node (`mat` = the matrix of the edge above
it), its children before and after the child the path goes through -/
structure Frame (R α : Type) where
  mat : Mat R
  before : List (PTree R α)
  after : List (PTree R α)

variable {R α : Type}

/-- the former parent as seen from a child that has become its parent: nothing above the old root, else the
parent's other children followed by *its* parent, below the edge `Pm` of the child we came from -/
def upTail (Pm : Mat R) : List (Frame R α) → List (PTree R α)
  | [] => []
  | f :: rest => [.node Pm (f.before ++ f.after ++ upTail f.mat rest)]

/-- put a subtree back into its context -/
def plug (x : PTree R α) : List (Frame R α) → PTree R α
  | [] => x
  | f :: rest => plug (.node f.mat (f.before ++ x :: f.after)) rest

def pick {β : Type} : Nat → List β → Option (List β × β × List β)
  | _, [] => none
  | 0, x :: xs => some ([], x, xs)
  | i + 1, x :: xs => (pick i xs).map fun r => (x :: r.1, r.2.1, r.2.2)

/-- walk down along child positions, remembering the context -/
def descend : List Nat → PTree R α → List (Frame R α) → Option (PTree R α × List (Frame R α))
  | [], t, fs => some (t, fs)
  | _ :: _, .leaf _ _, _ => none
  | i :: p, .node P cs, fs =>
    match pick i cs with
    | none => none
    | some (b, x, a) => descend p x (⟨P, b, a⟩ :: fs)

/-- `tree.rooted_at(name)` with `name` the node at `path`; `none` for a tip ("Can't use a tip as the root")
or a path that leaves the tree.  (The new root keeps its matrix: the root's matrix is never used.) -/
def rootedAt (path : List Nat) (t : PTree R α) : Option (PTree R α) :=
  match descend path t [] with
  | some (.node P cs, fs) => some (.node P (cs ++ upTail P fs))
  | _ => none

/-! ## `unrooted()` -/

/-- the edge of the first child that has children (the one `unrooted` dissolves) -/
def firstInternal : List (PTree R α) → Option (Mat R)
  | [] => none
  | .node P (_ :: _) :: _ => some P
  | _ :: cs => firstInternal cs

/-- the loop of `TreeNode.unrooted`: children are visited in order, the first internal one is replaced by its
children, every other one is a sister (copied, then adjusted by `f`) -/
def expandFirst (f : PTree R α → PTree R α) : List (PTree R α) → List (PTree R α)
  | [] => []
  | .node _ (x :: xs) :: cs => (x :: xs) ++ cs.map f
  | c :: cs => f c :: expandFirst f cs

/-- `TreeNode.unrooted()`; `comp Pc Ps` is the matrix of a sister edge lengthened by the collapsed edge
(`sister.length += collapsed.length`); a root with three or more children is left as it is -/
def unrootedM (comp : Mat R → Mat R → Mat R) : PTree R α → PTree R α
  | .leaf P a => .leaf P a
  | .node P0 cs =>
    if cs.length < 3 then
      match firstInternal cs with
      | none => .node P0 cs
      | some Pc => .node P0 (expandFirst (fun y => y.setMat (comp Pc y.mat)) cs)
    else .node P0 cs

/-! ## `StationaryQ.calcQ` (evolve/substitution_model.py) -/

/-- ```
Q = self.calc_exchangeability_matrix(word_probs, *params)      -- `Rm`
Q *= mprobs_matrix
row_totals = Q.sum(axis=1)
Q -= numpy.diag(row_totals)
Q *= 1.0 / (word_probs * row_totals).sum()
``` -/
def calcQ {K : Type} [Add K] [Mul K] [Sub K] [Div K] [Zero K] [One K] (m : Nat) (Rm M : Mat K) (w : Nat → K) : Mat K :=
  let Q0 : Mat K := fun i j => Rm i j * M i j
  let rowTotals : Nat → K := fun i => sumOver m (fun j => Q0 i j)
  let Q1 : Mat K := fun i j => Q0 i j - (if i = j then rowTotals i else 0)
  let scale : K := 1 / sumOver m (fun i => w i * rowTotals i)
  fun i j => Q1 i j * scale

/-- `Q^n` with the model's own matrix product -/
def matPow {K : Type} [Add K] [Mul K] [Zero K] [One K] (m : Nat) (Q : Mat K) : Nat → Mat K
  | 0 => idMat
  | n + 1 => matMul m Q (matPow m Q n)

/-- `Σ_{n<N} c n · Q^n` (a truncated power series of `Q`, e.g. the Taylor polynomial of `exp(tQ)` with `c n = tⁿ/n!`) -/
def matPoly {K : Type} [Add K] [Mul K] [Zero K] [One K] (m : Nat) (Q : Mat K) (c : Nat → K) : Nat → Mat K
  | 0 => fun _ _ => 0
  | N + 1 => fun i j => matPoly m Q c N i j + c N * matPow m Q N i j

end CogentModel.Prune
