/-
  C16 — hand model of the objective-wrapper stack of `cogent3.maths.optimisers.maximise`
  (`limited_use`, `bounded_function`, `bounds_exception_catching_function`, the first
  evaluation with its `ValueError` paths, the `finally: get_best()`), of the start-vector
  clamp in `recalculation/calculation.py::Calculator.optimise`, and of the nested-model
  parameter projection of `evolve/likelihood_function.py` (`_get_param_mapping`,
  `_ParamProjection._rate_same/_rate_not_same`, `update_scoped_rules`).

  The optimisers themselves (Powell, simulated annealing) are NOT modelled: they are an
  arbitrary adversary = any finite list of query points, which may stop anywhere.

  Import-free (compiled into the native driver `drv_c16`).
-/
namespace CogentModel.Optimiser

/-! ## 1. the wrapper stack -/

/-- what one call of the underlying objective (the `Calculator`) does -/
inductive Res (Y : Type) where
  | oob            -- raises ParameterOutOfBoundsError
  | arith          -- raises ArithmeticError
  | fatal          -- raises any other exception (propagates through every wrapper)
  | nan            -- returns NaN (compares False with everything)
  | val (y : Y)    -- returns a comparable value (finite or ±inf)
  deriving Repr, DecidableEq

/-- everything `maximise` is parameterised by.  `X` = parameter vectors, `Y` = objective values. -/
structure Cfg (X Y : Type) where
  f : X → Res Y
  /-- `numpy.all(lower <= x & x <= upper)` of `bounded_function` (constant `true` when `bounds is None`) -/
  inB : X → Bool
  /-- Python `a > b` on objective values -/
  gt : Y → Y → Bool
  /-- `numpy.isfinite` -/
  fin : Y → Bool
  /-- `-numpy.inf` -/
  negInf : Y
  /-- `max_evaluations` (`none` = `numpy.inf`) -/
  maxEvals : Option Nat

/-- the closure state of `limited_use` plus the log of points at which the underlying
objective was called (most recent first): `calls.head?` is the state the calculator is left in -/
structure St (X Y : Type) where
  evals : Nat
  bestF : Y
  bestX : Option X
  calls : List X

/-- outcome of one call through `bounded_function(limited_use(f))` -/
inductive Out (Y : Type) where
  | maxReached (n : Nat)   -- MaximumEvaluationsReached(evals)
  | oob | arith | fatal | nan
  | val (y : Y)
  deriving Repr, DecidableEq

/-- exceptions that leave the optimiser loop -/
inductive Stop where
  | maxEvals (n : Nat)
  | fatal
  deriving Repr, DecidableEq

def init (c : Cfg X Y) : St X Y := { evals := 0, bestF := c.negInf, bestX := none, calls := [] }

/-- `evals[0] >= max_evaluations` -/
def limitHit (m : Option Nat) (evals : Nat) : Bool :=
  match m with
  | none => false
  | some k => decide (k ≤ evals)

/-- `if fval > best_fval[0]: best_fval[0] = fval; best_x[0] = x.copy()` -/
def record (c : Cfg X Y) (s : St X Y) (x : X) (y : Y) : St X Y :=
  if c.gt y s.bestF then { s with bestF := y, bestX := some x } else s

/-- the state after `evals[0] += 1` and the call `f(x)` has been issued -/
def counted (s : St X Y) (x : X) : St X Y := { s with evals := s.evals + 1, calls := x :: s.calls }

/-- the part of `wrapped_f` after the limit test -/
def afterCall (c : Cfg X Y) (s1 : St X Y) (x : X) : Res Y → St X Y × Out Y
  | .val y => (record c s1 x y, .val y)
  | .oob => (s1, .oob)
  | .arith => (s1, .arith)
  | .fatal => (s1, .fatal)
  | .nan => (s1, .nan)

/-- `limited_use.wrapped_f` -/
def limitedCall (c : Cfg X Y) (s : St X Y) (x : X) : St X Y × Out Y :=
  if limitHit c.maxEvals s.evals then (s, .maxReached s.evals)
  else afterCall c (counted s x) x (c.f x)

/-- `bounded_function._wrapper`: out-of-bounds points never reach `limited_use` -/
def boundedCall (c : Cfg X Y) (s : St X Y) (x : X) : St X Y × Out Y :=
  if c.inB x then limitedCall c s x else (s, .oob)

/-- what `bounds_exception_catching_function` hands to the optimiser -/
inductive Seen (Y : Type) where
  | stop (e : Stop)
  | ret (y : Y)

def seen (c : Cfg X Y) : Out Y → Seen Y
  | .maxReached n => .stop (.maxEvals n)
  | .fatal => .stop .fatal
  | .oob => .ret c.negInf
  | .arith => .ret c.negInf
  | .nan => .ret c.negInf          -- "Non-finite f" warning, then ParameterOutOfBoundsError, caught
  | .val y => .ret (if c.fin y then y else c.negInf)   -- -inf stays, +inf becomes -inf

/-- result of letting an optimiser issue the queries `qs` (it may have wanted more; a
`MaximumEvaluationsReached`/other exception ends it) -/
structure Trace (X Y : Type) where
  st : St X Y
  shown : List Y          -- values returned to the optimiser, in order
  stop : Option Stop

def runQueries (c : Cfg X Y) : St X Y → List X → Trace X Y
  | s, [] => { st := s, shown := [], stop := none }
  | s, q :: qs =>
    match seen c (boundedCall c s q).2 with
    | .stop e => { st := (boundedCall c s q).1, shown := [], stop := some e }
    | .ret y =>
      let t := runQueries c (boundedCall c s q).1 qs
      { t with shown := y :: t.shown }

inductive Final (X Y : Type) where
  /-- "Initial parameter values must be valid / evaluate to a finite value"; `get_best` not called -/
  | valueError
  /-- the first evaluation raised `MaximumEvaluationsReached` (max_evaluations = 0) or another
  exception: propagates, `get_best` not called -/
  | raised (e : Stop)
  /-- `get_best()` ran: `(best_fval, best_x, evals)`; `exc` is the exception that then propagates -/
  | done (fval : Y) (x : X) (evals : Nat) (exc : Option Stop)
  /-- `get_best()` with `best_x = None` (unreachable, see `maximise_never_worse`) -/
  | noBest
  deriving Repr, DecidableEq

structure Run (X Y : Type) where
  st : St X Y
  shown : List Y
  final : Final X Y

/-- `get_best`: `f(best_x[0])` then return -/
def getBest (s : St X Y) (shown : List Y) (exc : Option Stop) : Run X Y :=
  match s.bestX with
  | some xb => { st := { s with calls := xb :: s.calls }, shown := shown,
                 final := .done s.bestF xb s.evals exc }
  | none => { st := s, shown := shown, final := .noBest }

/-- the `try: <optimisers> finally: get_best()` part -/
def optimiseFrom (c : Cfg X Y) (s1 : St X Y) (qs : List X) : Run X Y :=
  let t := runQueries c s1 qs
  getBest t.st t.shown t.stop

/-- `maximise` after the first evaluation `fval = f(x)` returned -/
def afterFirst (c : Cfg X Y) (s1 : St X Y) (qs : List X) : Out Y → Run X Y
  | .maxReached n => { st := s1, shown := [], final := .raised (.maxEvals n) }
  | .fatal => { st := s1, shown := [], final := .raised .fatal }
  | .oob => { st := s1, shown := [], final := .valueError }
  | .arith => { st := s1, shown := [], final := .valueError }
  | .nan => { st := s1, shown := [], final := .valueError }
  | .val y => if c.fin y then optimiseFrom c s1 qs else { st := s1, shown := [], final := .valueError }

/-- `maximise(f, xinit, bounds, max_evaluations=…)` against an adversary optimiser that issues `qs` -/
def maximise (c : Cfg X Y) (x0 : X) (qs : List X) : Run X Y :=
  afterFirst c (boundedCall c (init c) x0).1 qs (boundedCall c (init c) x0).2

/-! ## 2. `Calculator.optimise`: clamp of the start vector into the bounds

`if allclose(x[low > x], low[low > x]): x[low > x] = low[low > x]` then the same with `high`.
`close` abstracts `numpy.allclose` on one coordinate (the model is exact in `close`; for
`allclose` on an empty selection the answer is `True`, as `List.all` on `[]`). -/

structure Coord (R : Type) where
  x : R
  lo : R
  hi : R

def clampLow (lt close : R → R → Bool) (v : List (Coord R)) : List (Coord R) :=
  if v.all (fun c => !(lt c.x c.lo) || close c.x c.lo) then
    v.map (fun c => if lt c.x c.lo then { c with x := c.lo } else c)
  else v

def clampHigh (lt close : R → R → Bool) (v : List (Coord R)) : List (Coord R) :=
  if v.all (fun c => !(lt c.hi c.x) || close c.x c.hi) then
    v.map (fun c => if lt c.hi c.x then { c with x := c.hi } else c)
  else v

def clampStart (lt close : R → R → Bool) (v : List (Coord R)) : List (Coord R) :=
  clampHigh lt close (clampLow lt close v)

/-- `bounded_function`'s test on a coordinate vector: `lo <= x <= hi`, i.e. neither `x < lo` nor `hi < x` -/
def inBounds (lt : R → R → Bool) (v : List (Coord R)) : Bool :=
  v.all (fun c => !(lt c.x c.lo) && !(lt c.hi c.x))

/-! ## 3. nested-model parameter projection (`evolve/likelihood_function.py`)

A model's `get_param_matrix_coords(include_ref_cell=True)` is an association list
`name ↦ list of rate-matrix cells` (each list duplicate-free, in Python's set iteration order;
only `_rate_not_same` depends on the order).  `ref` is the key `"ref_cell"`. -/

abbrev Cell := Nat × Nat
abbrev Coords (N : Type) := List (N × List Cell)

inductive MapErr where
  | assertion   -- `assert len(rich) >= len(simple)`
  | tie         -- ValueError "... tied for matrix space"
  | noRef       -- IndexError: `list(rich_coords["ref_cell"])[0]` on an empty / missing reference cell
  deriving Repr, DecidableEq

/-- `rich_coords <= simple_coords` -/
def subset (a b : List Cell) : Bool := a.all (fun c => b.contains c)

/-- the simple parameters a rich parameter is `<=` of (the final `rich_to_simple[rich_param]`) -/
def counterparts (simple : Coords N) (rc : List Cell) : Coords N :=
  simple.filter (fun sp => subset rc sp.2)

/-- tie-break: the counterpart with the strictly smallest coordinate set; two smallest of equal
size ⇒ ValueError; no counterpart ⇒ the rich parameter is unmapped -/
def chosen (cs : Coords N) : Except MapErr (Option N) :=
  match cs with
  | [] => .ok none
  | [a] => .ok (some a.1)
  | a :: rest =>
    let m := rest.foldl (fun m sp => min m sp.2.length) a.2.length
    match (a :: rest).filter (fun sp => sp.2.length == m) with
    | [b] => .ok (some b.1)
    | _ => .error .tie

/-- for every rich parameter the simple parameter it takes its value from -/
def chosenAll (rich simple : Coords N) : Except MapErr (List (N × Option N)) :=
  rich.mapM (fun rp => (chosen (counterparts simple rp.2)).map (fun c => (rp.1, c)))

/-- the rich parameters assigned to simple parameter `sp` (`simple_to_rich[sp]`), in `rich` order -/
def mappedTo [BEq N] (ch : List (N × Option N)) (sp : N) : List N :=
  (ch.filter (fun rc => rc.2 == some sp)).map (·.1)

/-- `_get_param_mapping(rich, simple)`: `simple name ↦ rich names` -/
def paramMapping [BEq N] (rich simple : Coords N) : Except MapErr (List (N × List N)) :=
  if rich.length < simple.length then .error .assertion
  else (chosenAll rich simple).map (fun ch => simple.map (fun sp => (sp.1, mappedTo ch sp.1)))

def coordsOf [BEq N] (cs : Coords N) (n : N) : List Cell :=
  match cs.find? (fun p => p.1 == n) with
  | some p => p.2
  | none => []

/-- the rich names that `_rate_same/_rate_not_same` emit a term for: mapped to `sp`, not the
reference cell, and with a non-empty coordinate set (the `for i, j in coords` loop body runs) -/
def targets [BEq N] (ref : N) (rich : Coords N) (ch : List (N × Option N)) (sp : N) : List N :=
  (mappedTo ch sp).filter (fun rp => !(rp == ref) && !(coordsOf rich rp).isEmpty)

/-- `_ParamProjection.update_param_rules` with `same=True`: rules are `(par_name, mle)`;
`pass` marks `"mprobs"`/`"length"` rules, which are kept unchanged -/
def projectSame [BEq N] (ref : N) (pass : N → Bool) (rich : Coords N) (ch : List (N × Option N))
    (rules : List (N × V)) : List (N × V) :=
  rules.flatMap (fun r => if pass r.1 then [r] else (targets ref rich ch r.1).map (fun rp => (rp, r.2)))

/-- column index `j` of the LAST cell of a coordinate list (what the `for i, j in …` loop of
`_rate_not_same` leaves in `new_terms[rich_param]`) -/
def lastCol (cells : List Cell) : Option Nat := cells.getLast?.map (·.2)

/-- `update_param_rules` with `same=False`: a rule `("ref_cell", 1.0)` is appended, and every
term is `motif_probs[j] * mle / motif_probs[j_ref]` -/
def projectNotSame [BEq N] (mul div : V → V → V) (one : V) (pi : Nat → V) (ref : N) (pass : N → Bool)
    (rich : Coords N) (ch : List (N × Option N)) (rules : List (N × V)) : Except MapErr (List (N × V)) :=
  match (coordsOf rich ref).head? with
  | none => .error .noRef
  | some rc =>
    .ok ((rules ++ [(ref, one)]).flatMap (fun r =>
      if pass r.1 then [r]
      else (targets ref rich ch r.1).map (fun rp =>
        (rp, div (mul (pi ((lastCol (coordsOf rich rp)).getD 0)) r.2) (pi rc.2)))))

/-- entry of the exchangeability matrix at `cell` described by a rule list: the product of the
values of the rules whose parameter's coordinate set contains the cell (parameters without a rule,
and the reference cell, contribute the neutral factor: fresh likelihood functions start every
rate parameter at 1.0) -/
def cellRate [BEq N] (mul : V → V → V) (one : V) (cs : Coords N) (rules : List (N × V)) (cell : Cell) : V :=
  ((rules.filter (fun r => (coordsOf cs r.1).contains cell)).map (·.2)).foldr mul one

/-- all cells named by a coordinate family -/
def cellsOf (cs : Coords N) : List Cell := cs.flatMap (·.2)

/-- **the decidable nesting predicate** (same=True): the mapping exists, and for every simple
rate parameter `sp` (≠ reference cell) and every cell of either family, the number of rich
parameters that take their value from `sp` and cover the cell is 1 if `sp` covers the cell and 0
otherwise. -/
def nestedSame [BEq N] (ref : N) (rich simple : Coords N) : Bool :=
  if rich.length < simple.length then false else
  match chosenAll rich simple with
  | .error _ => false
  | .ok ch =>
    simple.all (fun sp => sp.1 == ref ||
      (cellsOf rich ++ cellsOf simple).all (fun cell =>
        ((targets ref rich ch sp.1).filter (fun rp => (coordsOf rich rp).contains cell)).length
          == (if (coordsOf simple sp.1).contains cell then 1 else 0)))

end CogentModel.Optimiser
