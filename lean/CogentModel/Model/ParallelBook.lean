/-
  C14 — the submission / collection bookkeeping of `cogent3.util.parallel` (import-free).

  * `as_completed` (`_as_completed_mproc`): one future per element (`to_do = [submit(f, e) for e in s]`),
    then `for fut in concurrent.futures.as_completed(to_do): yield fut.result()`.  The pool is NOT
    modelled: it is represented by `order`, the order in which the futures complete.  The pool
    assumption "every submitted future completes exactly once" is `order.Perm (List.range n)`.
    `chunksize` is ignored on this path (as coded).
  * the serial path of `_as_completed` (`map(app, mapped)`): input order.
  * `imap` / `map`: `executor.map(f, s, chunksize=c)` with `c = chunksize or get_default_chunksize`:
    consecutive chunks of `c` elements (the last one partial), one task per chunk, results chained in
    submission order.
-/
namespace CogentModel.ParallelBook

/-- `get_default_chunksize(s, max_workers)`: `divmod(len(s), max_workers*4)`, +1 if there is a remainder -/
def defaultChunksize (n maxWorkers : Nat) : Nat :=
  let q := n / (maxWorkers * 4)
  if n % (maxWorkers * 4) ≠ 0 then q + 1 else q

/-- consecutive chunks of `c` elements, the trailing one possibly shorter (`fuel` ≥ length suffices) -/
def chunksAux {α} (c : Nat) : Nat → List α → List (List α)
  | 0, _ => []
  | _, [] => []
  | fuel + 1, x :: xs => (x :: xs).take c :: chunksAux c fuel ((x :: xs).drop c)

def chunks {α} (c : Nat) (s : List α) : List (List α) := chunksAux c s.length s

/-- `imap`/`map`: each chunk is one task `[f(e) for e in chunk]`; results are chained in order -/
def imapResults {α β} (f : α → β) (s : List α) (c : Nat) : List β :=
  ((chunks c s).map (fun ch => ch.map f)).flatten

/-- the futures created by `to_do = [executor.submit(f, e) for e in s]`: index ↦ result -/
def submitAll {α β} (f : α → β) (s : List α) : List β := s.map f

/-- `as_completed`: results in the order the futures complete -/
def asCompleted {α β} (f : α → β) (s : List α) (order : List Nat) : List β :=
  order.filterMap (fun k => (submitAll f s)[k]?)

/-- the serial path -/
def serialResults {α β} (f : α → β) (s : List α) : List β := s.map f

/-- `_proxy_input`: falsy elements are dropped, every other one travels in a proxy whose source is the element itself -/
def proxyInput {α} (truthy : α → Bool) (dstore : List α) : List α := dstore.filter truthy

/-- `_as_completed` (what `list(app.as_completed(dstore, parallel=…))` yields): pairs (source of the proxy, value it carries);
    `_source_wrapped` keeps the proxy's source and replaces the object by `app obj` -/
def asCompletedApp {α β} (app : α → β) (truthy : α → Bool) (dstore : List α) (parallel : Bool) (order : List Nat) : List (α × β) :=
  if parallel then asCompleted (fun e => (e, app e)) (proxyInput truthy dstore) order
  else serialResults (fun e => (e, app e)) (proxyInput truthy dstore)

end CogentModel.ParallelBook
