/-
  C20 — argument resolution of `Table.sorted`, `Table.inner_join`, `Table.joined`
  (cogent3/util/table.py).

  Part 1 is the semantic domain into which `translator/c20_args2lean.py` translates the SOURCE TEXT of those
  methods' pure prefixes (generated file `Gen/C20Args.lean`): python values of a `columns=`-style argument and
  the list / set / truthiness primitives the code applies to them.
  Part 2 is the HAND model of the same decisions, written the way the docstrings describe them
  (normalise to lists of names, then decide).  `Proofs/TableArgs.lean` proves generated = hand for ALL arguments.

  Import-free (compiled into the native driver).

  Totalisation: where python would raise TypeError on a value the methods never produce at that point
  (iterating / `len` of None, a list holding a non-str) the primitives return the junk value stated below;
  the hand models never reach them and the equality theorems are for all arguments, so a code edit that made
  such a case reachable would change the generated definition and break the equality proof.
-/
namespace CogentModel.TableArgs

/-! ## part 1: the value domain of the generated code -/

/-- a `columns=` / `reverse=` / `columns_self=` argument: None, one name, a list or a tuple of names -/
inductive PV where
  | none
  | str (s : String)
  | list (l : List String)
  | tup (l : List String)
  deriving DecidableEq, Repr

namespace PV

def isNone : PV → Bool
  | .none => true
  | _ => false

def isStr : PV → Bool
  | .str _ => true
  | _ => false

/-- `bool(x)` -/
def truthy : PV → Bool
  | .none => false
  | .str s => s != ""
  | .list l => !l.isEmpty
  | .tup l => !l.isEmpty

/-- iteration (`for c in x`, `set(x)`, `list(x)`): a str iterates its characters; None: junk [] -/
def iter : PV → List String
  | .none => []
  | .str s => s.toList.map fun c => String.singleton c
  | .list l => l
  | .tup l => l

/-- `list(x)` -/
def toList (x : PV) : PV := .list x.iter

/-- `[x]` with `x` a str (a list holding a list / None is outside the domain: junk = the elements) -/
def single : PV → PV
  | .str s => .list [s]
  | x => .list x.iter

/-- `(x,)` with `x` a str -/
def singleTup : PV → PV
  | .str s => .tup [s]
  | x => .tup x.iter

/-- `[self.index_name]` (None: junk []) -/
def singleOpt : Option String → PV
  | some s => .list [s]
  | .none => .list []

/-- `c in x` (a str argument: junk = equality instead of the substring test) -/
def contains : PV → String → Bool
  | .none, _ => false
  | .str s, c => s == c
  | .list l, c => l.contains c
  | .tup l, c => l.contains c

/-- `x.append(c)` (only lists have it; others: unchanged) -/
def append : PV → String → PV
  | .list l, c => .list (l ++ [c])
  | x, _ => x

/-- `len(x)` (None: junk 0) -/
def len : PV → Nat
  | .none => 0
  | .str s => s.length
  | .list l => l.length
  | .tup l => l.length

/-- `a or b` -/
def or (a b : PV) : PV := if a.truthy then a else b

/-- `Columns._get_keys_(key)` on names: a str stays a str, a list / tuple becomes the list of its names (int
positions, slices, bool masks and arrays are outside this model; None never reaches it) -/
def getKeys : PV → PV
  | .str s => .str s
  | .list l => .list l
  | .tup l => .list l
  | .none => .none

end PV

/-- `bool(self.index_name)` -/
def optTruthy : Option String → Bool
  | some s => s != ""
  | none => false

/-- `set(a) & set(b)` as far as it is observed (emptiness, membership) -/
def setInter (a b : List String) : List String := a.filter (b.contains ·)

/-- a positional / keyword argument of a forwarded method call -/
inductive Arg where
  | pv (v : PV)
  | bool (b : Bool)
  | str (s : String)
  | other                -- the table `other`
  | kwargs               -- `**kwargs`
  deriving DecidableEq, Repr

/-- `return self.<name>(<pos…>, <kw>=…)` -/
structure MethodCall where
  name : String
  pos : List Arg
  kw : List (String × Arg)
  deriving DecidableEq, Repr

/-! ## part 2: the hand model -/

/-- an argument as an optional list of names (`None` → none, `'a'` → ['a']) -/
def PV.names? : PV → Option (List String)
  | .none => Option.none
  | .str s => some [s]
  | .list l => some l
  | .tup l => some l

/-- the loop `for c in reverse: if c in columns: continue; columns.append(c)` -/
def appendMissing (cols : List String) : List String → List String
  | [] => cols
  | c :: rest => appendMissing (if cols.contains c then cols else cols ++ [c]) rest

/-- `sorted(columns, reverse)`: the key columns in sort order and the reversed ones.
`reverse=None` is `[]`; only `reverse` given → that order; `columns=None` → all columns; reverse columns are
appended when NONE of them is among `columns`.  (`reverse=()` is not `[]` for the code: `() != []`, so with
`columns=None` the key list becomes empty — kept as the code has it.) -/
def sortArgs (header : List String) (columns reverse : PV) : List String × PV :=
  let reverse := if reverse = .none then .list [] else reverse
  let cols : List String :=
    match columns.names? with
    | some c => c
    | none => if reverse ≠ .list [] then (reverse.names?).getD [] else header
  let reverse := if reverse.isStr then reverse.single else reverse
  let cols := if reverse.truthy ∧ ¬ (cols.any (reverse.iter.contains ·)) then appendMissing cols reverse.iter else cols
  (cols, reverse)

/-- the key columns `inner_join` compares, as the docstring has it:
both given → as given (a single name is a one-element list); one given → the same labels for both tables;
none given → the shared names in `self`'s order (natural join, `use_index=False`) or the two index columns
(`use_index=True`, ValueError unless both tables have an index_name); RuntimeError if the dimensions differ.
Third component: `output_mask`, the columns of `other` that are not key columns.
Mirrored asymmetry of the code: `columns_self=[]` alone ends in `len(None)` (TypeError), `columns_other=[]` alone
gives the empty key for both tables. -/
def joinKeysH (selfCols otherCols : List String) (selfIndex otherIndex : Option String)
    (columnsSelf columnsOther : PV) (useIndex : Bool) : Except String (List String × List String × List String) :=
  let decided : Except String (List String × List String) :=
    match columnsSelf.names?, columnsOther.names? with
    | none, none =>
      if !useIndex then
        let shared := selfCols.filter (otherCols.contains ·)
        .ok (shared, shared)
      else match selfIndex, otherIndex with
        | some a, some b => if a != "" ∧ b != "" then .ok ([a], [b]) else .error "ValueError"
        | _, _ => .error "ValueError"
    | none, some o => .ok (o, o)
    | some s, none => if s = [] then .error "TypeError" else .ok (s, s)
    | some s, some o => .ok (s, o)
  match decided with
  | .error e => .error e
  | .ok (ks, ko) =>
    if ks.length ≠ ko.length then .error "RuntimeError"
    else .ok (ks, ko, otherCols.filter fun c => !ko.contains c)

/-- `joined(other, columns_self, columns_other, inner_join, col_prefix, **kwargs)` -/
def joinedCallH (columnsSelf columnsOther : PV) (innerJoin : Bool) (colPrefix : String) : Except String MethodCall :=
  if !innerJoin then
    if columnsSelf = .none ∧ columnsOther = .none then
      -- (col_prefix is NOT forwarded to cross_join: the columns of other get the default "right_")
      .ok { name := "cross_join", pos := [.other], kw := [("**", .kwargs)] }
    else .error "AssertionError"
  else
    .ok { name := "inner_join", pos := [],
          kw := [("other", .other), ("columns_self", .pv columnsSelf), ("columns_other", .pv columnsOther),
                 ("use_index", .bool false), ("col_prefix", .str colPrefix), ("**", .kwargs)] }

end CogentModel.TableArgs
