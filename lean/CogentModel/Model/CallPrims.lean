import CogentModel.Model.Composable
/-
  C14 — the semantic domain into which `translator/c14_call2lean.py` translates the SOURCE TEXT of
  `composable._call`, `_validate_data_type`, `_add` and `parallel.get_default_chunksize`
  (generated file: `Gen/C14Call.lean`).  Hand-written, import-free.

  Richer than `Model/Composable.lean`: python values include `None`, `True/False`, list/tuple/set
  data (typed by their first element; empty ⇒ "empty data"), `source_proxy` objects; message texts
  are kept as the literal pieces of the source (`Part`), the NotCompleted type as the literal
  string, so that an edit of any literal changes the generated definition.
-/
namespace CogentModel.CallPrims
open CogentModel.Composable

/-- a piece of a message text -/
inductive Part where
  | lit (s : String)        -- literal text of the source
  | cls (t : Nat)           -- `{class_name}` (class tag)
  | types (ts : List Nat)   -- `{', '.join(list(self._data_types))}`
  | tb (t : Int)            -- `traceback.format_exc()` of the exception with tag `t`
  | num (t : Int)           -- payload of a message made by a step's own `main`
  deriving DecidableEq, Repr

abbrev RMsg := List Part

/-- a NotCompleted: `type` is the literal string given to the constructor -/
structure RNC where
  type : String
  origin : Nat
  msg : RMsg
  source : Option Id
  deriving DecidableEq, Repr

/-- python values `_call` can meet -/
inductive PV where
  | none
  | bool (b : Bool)
  | nc (n : RNC)
  | obj (v : V)                              -- any other object: class tag `v.ty`, source `v.src`
  | seq (cls : Nat) (items : List V)         -- a list / tuple / set (class tag `cls`) of objects
  | proxy (o : PV) (src : Option Id)         -- `source_proxy` around `o`
  deriving DecidableEq, Repr

/-- class tags of the names that occur in the source text (`clsTag "list"` …); any other name is 999 -/
def clsTag (s : String) : Nat :=
  if s == "NotCompleted" then 0 else if s == "str" then 1
  else if s == "list" then 4 else if s == "tuple" then 5 else if s == "set" then 6
  else if s == "NoneType" then 7 else if s == "bool" then 8 else if s == "source_proxy" then 9 else 999

/-- tags of the type-hint names that switch the type check off; any other name is 998 -/
def tyTag (s : String) : Nat :=
  if s == "SerialisableType" then 100 else if s == "IdentifierType" then 101 else 998

namespace PV

def isNone : PV → Bool
  | .none => true
  | _ => false

def isNC : PV → Bool
  | .nc _ => true
  | _ => false

def isProxy : PV → Bool
  | .proxy _ _ => true
  | _ => false

/-- `isinstance(x, (list, set, tuple))`: the tuple of classes is read from the source (`_builtin_seqs`) -/
def isSeqOf (classes : List Nat) : PV → Bool
  | .seq c _ => classes.contains c
  | _ => false

/-- `bool(x)`: NotCompleted is `int` 0, None is falsy, a container by its length, a proxy by its object -/
def truthy : PV → Bool
  | .none => false
  | .bool b => b
  | .nc _ => false
  | .obj _ => true
  | .seq _ items => !items.isEmpty
  | .proxy o _ => truthy o

/-- `get_data_source(x)` -/
def source : PV → Option Id
  | .none => Option.none
  | .bool _ => Option.none
  | .nc n => n.source
  | .obj v => v.src
  | .seq _ _ => Option.none
  | .proxy _ s => s

/-- `x.__class__.__name__` -/
def className : PV → Nat
  | .none => clsTag "NoneType"
  | .bool _ => clsTag "bool"
  | .nc _ => clsTag "NotCompleted"
  | .obj v => v.ty
  | .seq c _ => c
  | .proxy _ _ => clsTag "source_proxy"

/-- `x.obj` of a proxy -/
def proxyObj : PV → PV
  | .proxy o _ => o
  | x => x

def len : PV → Nat
  | .seq _ items => items.length
  | _ => 0

/-- `next(iter(x))` -/
def first : PV → PV
  | .seq _ (v :: _) => .obj v
  | x => x

end PV

/-- `NotCompleted(type, origin, message, source=…)` -/
def mkNC (type : String) (origin : Nat) (msg : RMsg) (source : Option Id) : PV :=
  .nc ⟨type, origin, msg, source⟩

/-- set intersection `a & b` -/
def inter (a b : List Nat) : List Nat := a.filter (fun x => b.contains x)

/-- what `main` does: returns any python value, or raises an `Exception` with tag `t` -/
inductive ROut where
  | ret (v : PV)
  | raise (t : Int)

structure RStep where
  name : Nat
  kind : Kind
  skipNC : Bool
  /-- `_data_types` / `_return_types` as class tags (`tyTag "SerialisableType"` = 100, `IdentifierType` = 101) -/
  dataTypes : List Nat
  returnTypes : List Nat
  main : PV → ROut

/-- `self.input(val)`; `self.input` is `None` for an unconnected app (absent for a loader) -/
def applyInput (input : Option (PV → PV)) (v : PV) : PV :=
  match input with
  | some f => f v
  | none => v

/-! ### `_add` -/

inductive AppType where
  | loader | writer | generic | nonComposable
  deriving DecidableEq, Repr

/-- what `_add` looks at in an operand -/
structure AppSig where
  appType : Option AppType      -- `getattr(x, "app_type", None)`
  hasInput : Bool               -- `x.input is not None`
  dataTypes : List Nat
  returnTypes : List Nat

/-- `x.input` does not exist on a loader (`define_app` sets `input = None` only `if app_type is not LOADER`):
    evaluating it raises AttributeError -/
def AppSig.inputAttrMissing (x : AppSig) : Bool := x.appType == some .loader

inductive AddResult where
  | connected                         -- `other.input = self; return other`
  | raised (exc : String) (k : Nat)   -- the k-th `raise` of the function (source order), exception class
  | fellThrough                       -- the function ended without connecting (never in the current source)
  deriving DecidableEq, Repr

end CogentModel.CallPrims
