/-
  C15 — the numpy / list primitives that `translator/c15_tree2lean.py` maps the array statements of
  cogent3/phylo/nj.py and cogent3/cluster/UPGMA.py onto.  ONE primitive per numpy operation.

  A 2-D float array is its entry function `Nat → Nat → Rat`, a 1-D array is `Nat → Rat`; the side `n` of the (square)
  array is an explicit argument wherever numpy needs the shape (sums, ravel, slicing).  Indices are naturals inside the
  array (negative / out-of-range indexing is not modelled).  Import-free apart from the hand models.
-/
import CogentModel.Model.UPGMA
namespace CogentModel.TreeNp
open CogentModel.NJ (sumTo T)

abbrev Vec := Nat → Rat
abbrev Arr := Nat → Nat → Rat

/-- `m[i] = v` / `m[i, :] = v` -/
def setRow (m : Arr) (i : Nat) (v : Vec) : Arr := fun a b => if a = i then v b else m a b
/-- `m[:, i] = v` -/
def setCol (m : Arr) (i : Nat) (v : Vec) : Arr := fun a b => if b = i then v a else m a b
/-- `m[i, j] = c` -/
def setAt (m : Arr) (i j : Nat) (c : Rat) : Arr := fun a b => if a = i ∧ b = j then c else m a b
/-- `m[diag([True] * len(m))] = c` -/
def setDiag (m : Arr) (c : Rat) : Arr := fun a b => if a = b then c else m a b
/-- `m[i]` / `m[i, :]` -/
def row (m : Arr) (i : Nat) : Vec := fun b => m i b
/-- `m[:, i]` -/
def col (m : Arr) (i : Nat) : Vec := fun a => m a i
/-- a scalar broadcast to a row / column -/
def constV (c : Rat) : Vec := fun _ => c
/-- `numpy.sum(m, axis=0)` of an n×n array -/
def sumAxis0 (n : Nat) (m : Arr) : Vec := fun b => sumTo n fun k => m k b
/-- `numpy.sum(m)` of an n×n array -/
def sumAll (n : Nat) (m : Arr) : Rat := sumTo n (sumAxis0 n m)
/-- builtin `sum(v)` of a length-n vector -/
def vsum (n : Nat) (v : Vec) : Rat := sumTo n v
/-- `m[0:k, 0:k]` (reading outside the slice gives the default 0 of `NJ.get`) -/
def slice0 (m : Arr) (k : Nat) : Arr := fun a b => if a < k ∧ b < k then m a b else 0
/-- `numpy.add.outer(u, v)` -/
def addOuter (u v : Vec) : Arr := fun a b => u a + v b
/-- builtin `max(a, b)`: `b` if `b > a` else `a` -/
def pymax (a b : Rat) : Rat := if a < b then b else a
/-- `average(take(m, (i, j), 0), 0)` -/
def avgTake0 (m : Arr) (s : Nat × Nat) : Vec := fun b => (m s.1 b + m s.2 b) / 2
/-- `argmin(ravel(m))` of an n×n array: row-major flattening, the FIRST minimum -/
def argminRavel (n : Nat) (m : Arr) : Nat :=
  (List.range (n * n)).foldl
    (fun (best : Nat) idx => if m (idx / n) (idx % n) < m (best / n) (best % n) then idx else best) 0
/-- builtin `divmod` on naturals -/
def pydivmod (a b : Nat) : Nat × Nat := (a / b, a % b)

/-- `xs[j] = v` on a Python list -/
def lset {α : Type} (xs : List α) (i : Nat) (v : α) : List α := xs.set i v
/-- `xs.pop()` (the popped value is not used) -/
def lpop {α : Type} (xs : List α) : List α := xs.dropLast

/-- a PhyloNode as far as `condense_node_order` reads / writes it: `name` (tips only), `children`, `length`, `TipLength` -/
inductive PN where
  | mk (name : Nat) (children : List PN) (length : Rat) (tipLength : Rat)
  deriving Inhabited

def PN.children : PN → List PN | .mk _ c _ _ => c
def PN.length : PN → Rat | .mk _ _ l _ => l
def PN.tipLength : PN → Rat | .mk _ _ _ t => t
def PN.name : PN → Nat | .mk n _ _ _ => n
def PN.withLength : PN → Rat → PN | .mk n c _ t, l => .mk n c l t
def PN.withTipLength : PN → Rat → PN | .mk n c l _, t => .mk n c l t
/-- `numpy.eye(n)` -/
def eye : Arr := fun a b => if a = b then 1 else 0
/-- `PhyloNode(name)` -/
def PN.leaf (name : Nat) : PN := .mk name [] 0 0
/-- `PhyloNode()` -/
def PN.new : PN := .mk 0 [] 0 0
/-- `p.children.append(c)` -/
def PN.append : PN → PN → PN | .mk n cs l t, c => .mk n (cs ++ [c]) l t

end CogentModel.TreeNp
