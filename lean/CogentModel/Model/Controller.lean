/-
  C07 — model of `recalculation.scope.ParameterController`'s dirty-set propagation:
  `_changed`, `_update_suspended`, `updates_postponed()` (a context manager that stores the
  previous flag in its frame — modelled by a stack; its `try: yield / finally:` restores the flag
  and propagates on EVERY exit path, so a block left by an exception behaves like a normal exit), `_updateIntermediateValues` (one pass over
  the definitions in topological order, each updated definition marks its clients) and
  `assign_all` (store the setting, mark the definition, propagate unless suspended).

  A definition is a leaf (its value is its setting) or derived (a function of the values of
  lower-ranked definitions).  Import-free.
-/
namespace CogentModel.Ctl

inductive Defn (V : Type) where
  | leaf
  | derived (args : List Nat) (fn : List V → V)

def Defn.args {V : Type} : Defn V → List Nat
  | .derived a _ => a
  | .leaf => []

variable {V : Type} [Inhabited V]

abbrev Graph (V : Type) := List (Defn V)

def defn (g : Graph V) (k : Nat) : Defn V := g.getD k .leaf

/-- `defn.clients` -/
def clients (g : Graph V) (k : Nat) : List Nat :=
  (List.range g.length).filter (fun j => (defn g j).args.contains k)

structure St (V : Type) where
  values : Nat → V          -- defn.values
  setting : Nat → V         -- the assigned settings of leaf definitions
  changed : List Nat        -- self._changed
  suspended : Bool          -- self._update_suspended
  stack : List Bool         -- the `old` flags held by the active `updates_postponed` frames

def upd {α : Type} (f : Nat → α) (i : Nat) (v : α) : Nat → α := fun j => if j = i then v else f j

/-- `defn.update()` -/
def updateOne (g : Graph V) (s : St V) (k : Nat) : St V :=
  match defn g k with
  | .leaf => { s with values := upd s.values k (s.setting k) }
  | .derived args f => { s with values := upd s.values k (f (args.map s.values)) }

/-- the `for defn in self.defns:` loop of `_updateIntermediateValues` -/
def updateLoop (g : Graph V) : List Nat → St V → St V
  | [], s => s
  | k :: ks, s =>
    if s.changed.contains k then
      let s1 := updateOne g s k
      updateLoop g ks { s1 with changed := s1.changed ++ clients g k }
    else updateLoop g ks s

def updateIntermediate (g : Graph V) (s : St V) : St V :=
  if s.suspended then s
  else { updateLoop g (List.range g.length) s with changed := [] }

inductive Op (V : Type) where
  | assign (k : Nat) (v : V)     -- assign_all on leaf k, then update_intermediate_values([defn])
  | enter                        -- `with updates_postponed():`
  | exit                         -- normal end of the block
  | xexit                        -- the block is left by an exception (the `finally:` clause runs)

def step (g : Graph V) (s : St V) : Op V → St V
  | .assign k v =>
    updateIntermediate g { s with setting := upd s.setting k v, changed := s.changed ++ [k] }
  | .enter => { s with stack := s.suspended :: s.stack, suspended := true }
  | .exit =>
    match s.stack with
    | [] => s
    | old :: rest => updateIntermediate g { s with suspended := old, stack := rest }
  | .xexit =>
    -- `finally: self._update_suspended = old; self._updateIntermediateValues()`
    match s.stack with
    | [] => s
    | old :: rest => updateIntermediate g { s with suspended := old, stack := rest }

def run (g : Graph V) : St V → List (Op V) → St V
  | s, [] => s
  | s, o :: os => run g (step g s o) os

/-- construction: all values computed once (`update_intermediate_values(self.defns)`) -/
def init0 (g : Graph V) (setting : Nat → V) : St V :=
  { values := fun _ => default, setting := setting, changed := List.range g.length,
    suspended := false, stack := [] }

def init (g : Graph V) (setting : Nat → V) : St V := updateIntermediate g (init0 g setting)

end CogentModel.Ctl
