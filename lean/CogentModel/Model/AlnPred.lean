import CogentModel.Model.Aln
/-
  Hand-written mirror of the PREDICATE side of `filtered()` / `no_degenerates()` / `omit_gap_pos()`
  (`cogent3/core/alignment.py`: `AllowedCharacters`, `GapsOk._get_gap_frac / gap_frac_ok / gap_run_ok`,
  `Alignment.filtered` — motif grouping by `get_in_motif_size`, `zip(*seqs)`, the `kept` toggle producing
  `gv`, the `drop_remainder` refusal) and of `AlignmentI.sliding_windows` (window bounds).
  In `Model/Aln.lean` the per-column verdict of the predicate is an INPUT (`AOp.filterMask`); here it is
  computed from the rows the alignment displays.  Import-free, executable.
-/
namespace CogentModel.Aln
open CogentModel.IndelMap

/-! ### motif columns -/

/-- number of positions of `zip(*[seq.get_in_motif_size(ml) for seq in rows])`: the shortest row decides
(`0` without rows) -/
def numMotifs (ml : Nat) (rows : List (List Char)) : Nat :=
  match rows.map (fun s => s.length / ml) with
  | [] => 0
  | x :: xs => xs.foldl min x

/-- the verdicts `predicate(column)` for the first `k` motif columns; a column is the tuple of the rows'
motifs (`ml` consecutive characters) -/
def verdicts (pred : List (List Char) → Bool) (ml : Nat) : Nat → List (List Char) → List Bool
  | 0, _ => []
  | k + 1, rows => pred (rows.map (·.take ml)) :: verdicts pred ml k (rows.map (·.drop ml))

/-- `Alignment.filtered`: the `kept` toggle over the motif positions; `gv` holds `position * ml` at every
change and `len(positions) * ml` at the end when still keeping; returned as the pairs `(gv[2i], gv[2i+1])`.
`start` = first column of the block being extended (`kept` = `start.isSome`) -/
def motifRuns (ml : Nat) (pos : Nat) (start : Option Int) : List Bool → List (Int × Int)
  | [] => match start with | some s => [(s, ((pos * ml : Nat) : Int))] | none => []
  | true :: r => motifRuns ml (pos + 1) (some (start.getD ((pos * ml : Nat) : Int))) r
  | false :: r => (match start with | some s => [(s, ((pos * ml : Nat) : Int))] | none => []) ++ motifRuns ml (pos + 1) none r

/-- the SPEC of motif-wise filtering on one plain string: the kept motifs joined -/
def keepMotifs (ml : Nat) : List Bool → List Char → List Char
  | [], _ => []
  | v :: vs, s => (if v then s.take ml else []) ++ keepMotifs ml vs (s.drop ml)

/-! ### the predicates -/

/-- `AllowedCharacters(chars)`: `set("".join(column)) <= set(chars)` -/
def allowedChars (chars : List Char) (col : List (List Char)) : Bool :=
  col.all fun m => m.all fun c => chars.contains c

/-- IEEE-754 binary64 quotient `k / d` of two naturals (round to nearest, ties to even) as an exact rational;
what Python's `num_gap / length` computes (no overflow / subnormals for counts) -/
def f64div (k d : Nat) : Rat :=
  if k = 0 ∨ d = 0 then 0
  else
    let s := 54 + Nat.log2 d - Nat.log2 k
    let t := Nat.log2 k - (54 + Nat.log2 d)
    let N := k * 2 ^ s
    let D := d * 2 ^ t
    let q := N / D
    let sticky : Bool := N % D != 0
    let drop := Nat.log2 q + 1 - 53
    let m := q / 2 ^ drop
    let low := q % 2 ^ drop
    let half := 2 ^ (drop - 1)
    let up : Bool := decide (low > half) || (low == half && (sticky || m % 2 == 1))
    let m' := if up then m + 1 else m
    ((m' * 2 ^ drop * 2 ^ t : Nat) : Rat) / ((2 ^ s : Nat) : Rat)

/-- number of gap characters in a column (`Counter` of the joined motifs, summed over `gap_chars`) -/
def gapCount (gaps : List Char) (col : List (List Char)) : Nat :=
  (col.map fun m => (m.filter fun c => gaps.contains c).length).sum

/-- `GapsOk(gaps, allowed_frac, motif_length).gap_frac_ok(column)`:
`num_gap / (len(column) * motif_length) <= allowed_frac` in float arithmetic -/
def gapsOk (gaps : List Char) (frac : Rat) (ml : Nat) (col : List (List Char)) : Bool :=
  decide (f64div (gapCount gaps col) (col.length * ml) ≤ frac)

/-- `GapsOk(..., negate=True)`: `>=` -/
def gapsNotOk (gaps : List Char) (frac : Rat) (ml : Nat) (col : List (List Char)) : Bool :=
  decide (f64div (gapCount gaps col) (col.length * ml) ≥ frac)

/-- `GapsOk(..., gap_run=True, allowed_run).gap_run_ok(seq)`: no run of gaps longer than `allowed` -/
def gapRunOk (gaps : List Char) (allowed : Nat) : Nat → List Char → Bool
  | _, [] => true
  | run, c :: r =>
    if gaps.contains c then (if run + 1 > allowed then false else gapRunOk gaps allowed (run + 1) r)
    else gapRunOk gaps allowed 0 r

/-! ### histories with the predicate evaluated by the model -/

/-- `Alignment.seq_len` = `max(map(len, seqs))` (0 without rows) -/
def seqLenA (a : AlnA) : Int := a.foldl (fun m p => max m (len p.2.map)) 0
def seqLenD (d : AlnD) : Int := d.foldl (fun m p => max m (p.2.length : Int)) 0

/-- operations of a history: those of `AOp`, plus `filtered(predicate, motif_length, drop_remainder)` with the
predicate evaluated on the motif columns of the current alignment -/
inductive AOp2 where
  | base (op : AOp)
  | filtered (pred : List (List Char) → Bool) (ml : Nat) (drop : Bool)

/-- `no_degenerates(motif_length, allow_gap)`: `chars` = the moltype's non-degenerate characters (+ gap) -/
def AOp2.noDegenerates (chars : List Char) (ml : Nat) : AOp2 := .filtered (allowedChars chars) ml true
/-- `omit_gap_pos(allowed_gap_frac, motif_length)`: `gaps` = `moltype.gaps` -/
def AOp2.omitGapPos (gaps : List Char) (frac : Rat) (ml : Nat) : AOp2 := .filtered (gapsOk gaps frac ml) ml true

/-- one operation on the annotatable class -/
def stepA2 (dna : Bool) (a : AlnA) : AOp2 → Except Err (AlnA × Bool)
  | .base op => stepA dna a op
  | .filtered pred ml drop =>
    if ml = 0 then .error .assertionError          -- ZeroDivisionError in Python; not generated
    else if Int.fmod (seqLenA a) (ml : Int) ≠ 0 ∧ drop = false then .error .valueError
    else
      let rows := a.map fun p => gapped p.2
      match motifRuns ml 0 none (verdicts pred ml (numMotifs ml rows) rows) with
      | [] => .error .notImplemented               -- `return None`
      | locs => (mapRows (fun r => rowKeep r locs) a).map (·, dna)

/-- the same on the plain gapped strings (the spec; what the dense class must hold) -/
def stepD2 (dna : Bool) (d : AlnD) : AOp2 → Option (Except Err (AlnD × Bool))
  | .base op => stepD dna d op
  | .filtered pred ml drop =>
    if ml = 0 then some (.error .assertionError)
    else if Int.fmod (seqLenD d) (ml : Int) ≠ 0 ∧ drop = false then some (.error .valueError)
    else
      let rows := d.map (·.2)
      let vs := verdicts pred ml (numMotifs ml rows) rows
      if vs.all (! ·) then some (.error .notImplemented)
      else some (.ok (d.map fun p => (p.1, keepMotifs ml vs p.2), dna))

def runA2 (dna : Bool) (a : AlnA) : List AOp2 → Except Err (AlnA × Bool)
  | [] => .ok (a, dna)
  | op :: ops => match stepA2 dna a op with
    | .ok (a', dna') => runA2 dna' a' ops
    | .error e => .error e

def runD2 (dna : Bool) (d : AlnD) : List AOp2 → Option (Except Err (AlnD × Bool))
  | [] => some (.ok (d, dna))
  | op :: ops => match stepD2 dna d op with
    | some (.ok (d', dna')) => runD2 dna' d' ops
    | some (.error e) => some (.error e)
    | none => none

/-! ### `sliding_windows(window, step, start, end)` -/

/-- the `(pos, pos + window)` bounds of the alignments `sliding_windows` yields, for an alignment of length
`n` (`step ≥ 1`; `range` with step 0 raises) -/
def windowBounds (n window step : Int) (start stop : Option Int) : List (Int × Int) :=
  let s := start.getD 0
  let e := min (n - window + 1) (stop.getD (n - window + 1))
  if s < e ∧ n - e ≥ window - 1 then (PySlice.rangeList s e step).map fun p => (p, p + window) else []

end CogentModel.Aln
