import CogentModel.Model.Optimiser
import CogentModel.Model.ScopedRules
/-
  C16 — `_ParamProjection.update_param_rules` (evolve/likelihood_function.py l.202-227) on rules
  that CARRY THEIR SCOPE, and the pipeline of `initialise_from_nested`:
  `update_scoped_rules(my_rules, update_param_rules(nested_rules))`.

  A parameter rule is the dict `{par_name, edges | edge, is_constant, init, value}`;
  `rule_dict = rule.copy()` (l.223) means every emitted rule keeps the scope, the `is_constant`
  flag and the (now stale) `"value"` entry of the nested rule it came from; only `par_name` and
  `"init"` are overwritten.  Import-free.
-/
namespace CogentModel.ScopedProj
open CogentModel.Optimiser CogentModel.ScopedRules

structure PRule (S V : Type) where
  par : S
  /-- `rule.get("edges", rule.get("edge"))`, as in `ScopedRules.Rule` -/
  edges : Option (List S)
  single : Bool
  /-- `rule.get("is_constant", False)` -/
  isConst : Bool
  /-- `rule["init"]` if the key is present -/
  init : Option V
  /-- `rule["value"]` if the key is present -/
  value : Option V
  deriving Repr, DecidableEq

inductive PErr where
  | keyError      -- `rule[par_val_key]` on a rule without that key
  | noRef         -- IndexError of `_set_ref_val` (empty / missing rich reference cell)
  deriving Repr, DecidableEq

variable {S V : Type} [DecidableEq S]

/-- l.214-219: `par_val_key = "value" if rule.get("is_constant") else "init"`; `mle = rule[par_val_key]` -/
def mleOf (r : PRule S V) : Option V := if r.isConst then r.value else r.init

/-- the rule applies to edge `e` (no scope = every edge) -/
def coversP (r : PRule S V) (e : S) : Bool :=
  match r.edges with
  | none => true
  | some es => es.contains e

/-- one iteration of the loop of `update_param_rules`, `same=True` (`_rate_same`) -/
def emitSame (ref : S) (pass : S → Bool) (rich : Coords S) (ch : List (S × Option S))
    (r : PRule S V) : Except PErr (List (PRule S V)) :=
  if pass r.par then .ok [r]
  else match mleOf r with
    | none => .error .keyError
    | some v => .ok ((targets ref rich ch r.par).map (fun rp => { r with par := rp, init := some v }))

/-- one iteration, `same=False` (`_rate_not_same`): `motif_probs[j] * mle / ref_val` -/
def emitNotSame (mul div : V → V → V) (pi : Nat → V) (refCol : Nat) (ref : S) (pass : S → Bool)
    (rich : Coords S) (ch : List (S × Option S)) (r : PRule S V) : Except PErr (List (PRule S V)) :=
  if pass r.par then .ok [r]
  else match mleOf r with
    | none => .error .keyError
    | some v => .ok ((targets ref rich ch r.par).map (fun rp =>
        { r with par := rp,
                 init := some (div (mul (pi ((lastCol (coordsOf rich rp)).getD 0)) v) (pi refCol)) }))

/-- the `for rule in rules` loop; the first exception aborts -/
def emitAll (emit : PRule S V → Except PErr (List (PRule S V))) : List (PRule S V) → Except PErr (List (PRule S V))
  | [] => .ok []
  | r :: rs =>
    match emit r with
    | .error e => .error e
    | .ok a =>
      match emitAll emit rs with
      | .error e => .error e
      | .ok b => .ok (a ++ b)

/-- `update_param_rules(rules)` of a `_ParamProjection(same=True)` -/
def updateParamRulesSame (ref : S) (pass : S → Bool) (rich : Coords S) (ch : List (S × Option S))
    (rules : List (PRule S V)) : Except PErr (List (PRule S V)) :=
  emitAll (emitSame ref pass rich ch) rules

/-- `update_param_rules(rules)` of a `_ParamProjection(same=False)`: the rule
`dict(par_name="ref_cell", init=1.0, edges=None)` is appended first; `ref_val` is the motif
probability of the column of the first cell of the rich reference cell (fixed in `__init__`) -/
def updateParamRulesNotSame (mul div : V → V → V) (one : V) (pi : Nat → V) (ref : S) (pass : S → Bool)
    (rich : Coords S) (ch : List (S × Option S)) (rules : List (PRule S V)) : Except PErr (List (PRule S V)) :=
  match (coordsOf rich ref).head? with
  | none => .error .noRef
  | some rc =>
    emitAll (emitNotSame mul div pi rc.2 ref pass rich ch)
      (rules ++ [{ par := ref, edges := none, single := false, isConst := false, init := some one, value := none }])

/-- how `update_scoped_rules` reads a (projected) rule: scope as is, value
`null.get("init", null.get("value"))` (`update_rule_value`, `extend_rule_value`) -/
def toRule (r : PRule S V) : Rule S (Option V) :=
  { par := r.par, edges := r.edges, single := r.single, val := r.init <|> r.value }

/-- `(par_name, mle)` of the NESTED rate rules that apply to edge `e` — what the nested model's
rate matrix on that edge is built from -/
def nestedPairs (pass : S → Bool) (rules : List (PRule S V)) (e : S) : List (S × V) :=
  (rules.filter (fun r => coversP r e && !(pass r.par))).filterMap (fun r => (mleOf r).map (fun v => (r.par, v)))

/-- `(par_name, init)` of the PROJECTED rate rules that apply to edge `e` (`"init"` is what
`update_rule_value` copies into the rich likelihood function) -/
def projectedPairs (pass : S → Bool) (rules : List (PRule S V)) (e : S) : List (S × V) :=
  (rules.filter (fun r => coversP r e && !(pass r.par))).filterMap (fun r => r.init.map (fun v => (r.par, v)))

/-- exchangeability of `cell` ON EDGE `e`: product over the rate rules whose scope contains `e`
and whose parameter's coordinate set contains the cell -/
def edgeRate (mul : V → V → V) (one : V) (cs : Coords S) (pairs : List (S × V)) (cell : Cell) : V :=
  cellRate mul one cs pairs cell

/-- **executable well-formedness of a nested rule list**: every rate rule has the entry
`update_param_rules` reads (`"value"` if constant, else `"init"`), and on every edge of `edgeNames`
each rate parameter is given by AT MOST one rule (so the product over the rules of an edge is the
product over the parameters of their value on that edge) -/
def onePerEdgeB (pass : S → Bool) (rules : List (PRule S V)) (edgeNames : List S) : Bool :=
  rules.all (fun r => pass r.par || (mleOf r).isSome) &&
  edgeNames.all (fun e =>
    let names := (rules.filter (fun r => coversP r e && !(pass r.par))).map (·.par)
    names.all (fun n => names.count n == 1))

/-- the rule list `initialise_from_nested` finally applies (same=True):
`update_scoped_rules(my_rules, param_proj.update_param_rules(nested_rules))` -/
def initialiseRulesSame (chars : S → List S) (ref : S) (pass : S → Bool) (rich : Coords S)
    (ch : List (S × Option S)) (my : List (Rule S (Option V))) (nested : List (PRule S V)) :
    Except PErr (Except ScopedRules.Err (List (Rule S (Option V)))) :=
  match updateParamRulesSame ref pass rich ch nested with
  | .error e => .error e
  | .ok proj => .ok (updateScoped chars my (proj.map toRule))

end CogentModel.ScopedProj
