import CogentModel.Model.Clustal
/-
  C06 — the Python `str` / `list` primitives the TRANSLATED functions of Gen/C06Str.lean are written in
  (translator/c06_str2lean.py emits calls of exactly these).  Strings are `List Char`.  Import free.
-/
namespace CogentModel.PyStr
open CogentModel.SeqFormats

/-- truth value of a string: `bool(s)` -/
def truthy (s : Str) : Bool := !s.isEmpty
/-- `s.isspace()`: non-empty and white space only -/
def isspace (s : Str) : Bool := !s.isEmpty && s.all isSpaceStr
/-- `s.startswith(p)` -/
def startswith (s p : Str) : Bool := p.isPrefixOf s
/-- `s[a:b]` for `0 ≤ a`, `0 ≤ b` -/
def slice {α} (s : List α) (a b : Nat) : List α := (s.take b).drop a
/-- `s[0]` as a one-character string (`IndexError` on the empty string is not modelled: `""`) -/
def at0 (s : Str) : Str := s.take 1
/-- `l[-1]` of a list of strings (`IndexError` on the empty list is not modelled: `""`) -/
def lastD (l : List Str) : Str := (l.getLast?).getD []
/-- `s.replace(c, "")` for a one-character `c` -/
def removeChar (c : Char) (s : Str) : Str := s.filter (· ≠ c)
/-- `"".join(l)` -/
def joinEmpty (l : List Str) : Str := l.flatten
/-- `s[0] in t` (`IndexError` on the empty string is not modelled: false) -/
def headIn (s t : Str) : Bool :=
  match s with
  | [] => false
  | c :: _ => t.contains c
/-- a generator that yields `r` and then behaves like `k`: `list(...)` is `r :: rest`, or the first error -/
def ycons (r : Rec) (k : Except Err (List Rec)) : Except Err (List Rec) := k.map (r :: ·)
/-- `list(map(int, l))`: the values, or the first `ValueError` (`int` = the model's `pyInt`) -/
def mapInt : List Str → Except Err (List Int)
  | [] => .ok []
  | t :: ts =>
    match pyInt t with
    | .error e => .error e
    | .ok v => (mapInt ts).map (v :: ·)
/-- `l[0]` of a list of strings (`IndexError` on the empty list is not modelled: `""`) -/
def headD (l : List Str) : Str := (l.head?).getD []
/-- `l[-2:]` -/
def lastTwo {α} (l : List α) : List α := l.drop (l.length - 2)
/-- `s.lower()` on ASCII -/
def lower (s : Str) : Str := s.map (fun c => if 65 ≤ c.toNat ∧ c.toNat ≤ 90 then Char.ofNat (c.toNat + 32) else c)
/-- `re.compile(r"^\.").sub("", s)`: one leading period is removed -/
def woutPeriod (s : Str) : Str :=
  match s with
  | '.' :: r => r
  | r => r

end CogentModel.PyStr
