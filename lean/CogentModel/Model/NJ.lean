/-
  C15 (part 2) — model of cogent3.phylo.nj (`PartialTree.join`, the join-score matrix,
  `asScoreTreeTuple`, `gnj(keep=1)` = `nj`) on exact rationals.

  Matrices are `List (List Rat)`; every array assignment of the Python is written as the
  entry formula of the resulting array (`tab n f`), so that `get (tab n f) a b = f a b`
  is the only bridge the proofs need.  Import-free.
-/
namespace CogentModel.NJ

abbrev Mat := List (List Rat)

def get (d : Mat) (i j : Nat) : Rat := (d.getD i []).getD j 0

def tab (n : Nat) (f : Nat → Nat → Rat) : Mat :=
  (List.range n).map fun i => (List.range n).map fun j => f i j

/-- `Σ_{k<n} f k` -/
def sumTo : Nat → (Nat → Rat) → Rat
  | 0, _ => 0
  | n + 1, f => sumTo n f + f n

/-- `numpy.sum(d, axis=0)[i]` for an L×L array -/
def colSum (d : Mat) (L i : Nat) : Rat := sumTo L fun k => get d k i

/-- `max(0.0, x)` -/
def clamp0 (x : Rat) : Rat := if 0 < x then x else 0

/-- LightweightTreeTip / binary LightweightTreeNode (lengths already passed through `max(0.0, ·)`,
which `convert` applies once more, idempotently) -/
inductive T where
  | tip (name : Nat)
  | bin (l1 : Rat) (t1 : T) (l2 : Rat) (t2 : T)
  deriving Repr, Inhabited, DecidableEq

/-- PartialTree (d, nodes, score); `L = len(nodes)` -/
structure PT where
  L : Nat
  d : Mat
  nodes : List T
  score : Rat
  deriving Repr

/-- `ij_dist_diff = (r[i] - r[j]) / (L - 2.0)` -/
def distDiff (d : Mat) (L i j : Nat) : Rat := (colSum d L i - colSum d L j) / ((L : Rat) - 2)

/-- `left_length`, after `max(0.0, ·)` -/
def leftLen (d : Mat) (L i j : Nat) : Rat := clamp0 ((1 / 2) * (get d i j + distDiff d L i j))
/-- `right_length`, after `max(0.0, ·)` -/
def rightLen (d : Mat) (L i j : Nat) : Rat := clamp0 ((1 / 2) * (get d i j - distDiff d L i j))

/-- `new_dists = 0.5 * (d[i] + d[j] - d[i, j])` -/
def newDist (d : Mat) (i j y : Nat) : Rat := (1 / 2) * (get d i y + get d j y - get d i j)

/-- the array after `d[:, i] = new_dists; d[i, :] = new_dists; d[i, i] = 0.0` -/
def base (d : Mat) (i j x y : Nat) : Rat :=
  if x = i ∧ y = i then 0
  else if x = i then newDist d i j y
  else if y = i then newDist d i j x
  else get d x y

/-- where entry `a` of the shortened arrays comes from: `x[j] = x[L-1]; x.pop()` -/
def src (L j a : Nat) : Nat := if a = j then L - 1 else a

/-- the distance array returned by `join` -/
def joinMat (d : Mat) (L i j : Nat) : Mat :=
  tab (L - 1) fun a b => base d i j (src L j a) (src L j b)

/-- `nodes[i] = new_node; nodes[j] = nodes[L-1]; nodes.pop()` -/
def joinNodes (nodes : List T) (L i j : Nat) (new : T) : List T :=
  (List.range (L - 1)).map fun a => if src L j a = i then new else nodes.getD (src L j a) default

/-- `PartialTree.join(i, j)` -/
def join (pt : PT) (i j : Nat) : PT :=
  let new := T.bin (leftLen pt.d pt.L i j) (pt.nodes.getD i default) (rightLen pt.d pt.L i j) (pt.nodes.getD j default)
  { L := pt.L - 1, d := joinMat pt.d pt.L i j, nodes := joinNodes pt.nodes pt.L i j new,
    score := pt.score + get pt.d i j }

/-- entry (a,b) of `get_dist_saved_join_score_matrix()`, `r` = the column sums -/
def scoreAt (d : Mat) (L : Nat) (r : Nat → Rat) (score : Rat) (a b : Nat) : Rat :=
  (get d a b - (r a + r b) / ((L : Rat) - 2)) / 2 + sumTo L r / ((L : Rat) - 2) / 2 + score

/-- first flat index `idx = a*L + b` with `a ≠ b` carrying the smallest value
(what `for index in numpy.argsort(scores.flat)` yields first, ties idealised as "first") -/
def argminOff (L : Nat) (f : Nat → Nat → Rat) : Nat × Nat :=
  ((List.range (L * L)).foldl
    (fun (best : Option (Nat × Nat)) idx =>
      let a := idx / L
      let b := idx % L
      if a = b then best
      else match best with
        | none => some (a, b)
        | some (x, y) => if f a b < f x y then some (a, b) else best)
    none).getD (0, 1)

/-- the pair joined by `gnj(keep=1)` -/
def pickPair (pt : PT) : Nat × Nat :=
  let rl := (List.range pt.L).map (colSum pt.d pt.L)
  let r := fun a => rl.getD a 0
  let sc := tab pt.L (scoreAt pt.d pt.L r pt.score)
  argminOff pt.L (get sc)

/-- `for L in range(len(names), 3, -1)`: join the selected pair while more than 3 nodes remain -/
def njLoop (sel : PT → Nat × Nat) : Nat → PT → PT
  | 0, pt => pt
  | fuel + 1, pt => if pt.L ≤ 3 then pt else njLoop sel fuel (join pt (sel pt).1 (sel pt).2)

/-- the joins performed, in order (for the harness) -/
def njTrace (sel : PT → Nat × Nat) : Nat → PT → List (Nat × Nat)
  | 0, _ => []
  | fuel + 1, pt => if pt.L ≤ 3 then [] else sel pt :: njTrace sel fuel (join pt (sel pt).1 (sel pt).2)

/-- `lengths = numpy.sum(self.d, axis=0) - numpy.sum(self.d) / 4` (three nodes) -/
def finalLen (d : Mat) (a : Nat) : Rat := colSum d 3 a - sumTo 3 (colSum d 3) / 4

/-- the root built by `asScoreTreeTuple` / the two-taxon shortcut: (length, subtree) children -/
abbrev Root := List (Rat × T)

def finish (pt : PT) : Root :=
  (List.range 3).map fun a => (clamp0 (finalLen pt.d a), pt.nodes.getD a default)

def star (n : Nat) (d : Mat) : PT :=
  { L := n, d := d, nodes := (List.range n).map T.tip, score := 0 }

/-- `gnj(dists, keep=1)` for `n ≥ 2` names, `d` = `distance_dict_to_2D(dists)` -/
def nj (n : Nat) (d : Mat) : Root :=
  if n = 2 then
    -- `dist = d.max() / 2`
    let m := [get d 0 0, get d 0 1, get d 1 0, get d 1 1].foldl (fun a b => if a < b then b else a) (get d 0 0)
    [(clamp0 (m / 2), T.tip 0), (clamp0 (m / 2), T.tip 1)]
  else finish (njLoop pickPair n (star n d))

/-! ### reading a tree (used by the theorems and by the driver's canonical output) -/

/-- (tip, distance from the root of this subtree) -/
def T.depths : T → List (Nat × Rat)
  | .tip x => [(x, 0)]
  | .bin l1 t1 l2 t2 => (t1.depths.map fun p => (p.1, p.2 + l1)) ++ (t2.depths.map fun p => (p.1, p.2 + l2))

def T.tips (t : T) : List Nat := t.depths.map (·.1)

/-! ### a computable certificate (evaluated by the driver on every instance) -/

/-- decidable form of "`(i, j)` is a cherry of `d`": the pendant lengths are the unclamped NJ branch
lengths, the parent's distances are `new_dists`, and all equations of a cherry hold exactly -/
def cherryB (d : Mat) (L i j : Nat) : Bool :=
  decide (i ≠ j) && decide (i < L) && decide (j < L) &&
  decide (0 ≤ (1 / 2) * (get d i j + distDiff d L i j)) && decide (0 ≤ (1 / 2) * (get d i j - distDiff d L i j)) &&
  (List.range L).all fun k => (decide (k = i) || decide (k = j)) ||
    (decide (get d i k = (1 / 2) * (get d i j + distDiff d L i j) + newDist d i j k) &&
     decide (get d j k = (1 / 2) * (get d i j - distDiff d L i j) + newDist d i j k))

/-- every pair selected by the loop is a cherry of the current matrix -/
def njCheck (sel : PT → Nat × Nat) : Nat → PT → Bool
  | 0, pt => decide (pt.L ≤ 3)
  | fuel + 1, pt =>
    if pt.L ≤ 3 then true
    else cherryB pt.d pt.L (sel pt).1 (sel pt).2 && njCheck sel fuel (join pt (sel pt).1 (sel pt).2)

/-- triangle inequality on the last three nodes -/
def tri3B (d : Mat) : Bool :=
  decide (get d 1 2 ≤ get d 0 1 + get d 0 2) && decide (get d 0 2 ≤ get d 0 1 + get d 1 2) &&
  decide (get d 0 1 ≤ get d 0 2 + get d 1 2)

/-- the whole certificate for `nj n d` -/
def njCertified (n : Nat) (d : Mat) : Bool :=
  njCheck pickPair n (star n d) && tri3B (njLoop pickPair n (star n d)).d

end CogentModel.NJ
