/-
  C10 — hand-written mirror of the rich dict of a tree (`core/tree.py TreeNode.to_rich_dict` l.758,
  `util/deserialise.py deserialise_tree` l.293, `core/tree.py TreeBuilder._unique_name / create_edge` l.2208-2249,
  `cogent3.make_tree` l.733 "if not tree.name_loaded: tree.name = 'root'").

  to_rich_dict:   newick  = get_newick(with_node_names=True, escape_name=False)   -- topology + EVERY node name,
                                                                                   -- except the root's, printed as ""
                  edge_attributes[edge.name] = edge.params   for edge in get_edge_vector()   (postorder, root last;
                                                                                   plain dict assignment: later wins)
  deserialise:    make_tree(newick): nodes are created children-first (postorder); every name goes through
                  `_unique_name` ("" -> "edge"; a name already used gets ".<count>" appended, recursively);
                  a root whose name was not loaded is renamed "root";
                  then  edge.params.update(edge_attributes.get(edge.name, {}))   for every edge.

  ABSTRACTION. The newick TEXT is not modelled (tokens, quoting: that is the parser's property); what it carries is:
  the topology and the printed names.  Both the export and the import walk the tree in POSTORDER, so a tree is
  represented by its postorder list of node records with their arity (number of children) — the topology is the
  arity sequence and is carried unchanged.  `params` is split into `length` (always present in a PhyloNode's params)
  and the remaining items; values are opaque (`V`).  A freshly parsed node has `length = None` and no other item,
  and `dict.update` onto that gives exactly the looked-up attributes.

  Import-free.
-/
namespace CogentModel.TreeRich

structure NodeRec (V : Type) where
  name : String
  length : Option V
  params : List (String × V)
  arity : Nat
  deriving DecidableEq, Repr

/-- python `d[k] = v` on an insertion-ordered dict -/
def dictSet {β} : List (String × β) → String → β → List (String × β)
  | [], k, v => [(k, v)]
  | (k', v') :: d, k, v => if k' = k then (k', v) :: d else (k', v') :: dictSet d k v

/-- python `d.get(k)` -/
def dictGet {β} : List (String × β) → String → Option β
  | [], _ => none
  | (k', v') :: d, k => if k' = k then some v' else dictGet d k

abbrev Attr (V : Type) := Option V × List (String × V)

/-- `attr[edge.name] = edge.params.copy()` over `get_edge_vector(include_root=True)` -/
def edgeAttributes {V} (t : List (NodeRec V)) : List (String × Attr V) :=
  t.foldl (fun d n => dictSet d n.name (n.length, n.params)) []

/-- names as printed by `get_newick(with_node_names=True)`: the root (last in postorder) prints "" -/
def printedNames {V} : List (NodeRec V) → List String
  | [] => []
  | [_] => [""]
  | n :: m :: t => n.name :: printedNames (m :: t)

/-- the rich dict: printed names + arities (the newick), and the attribute dict -/
structure TreeRich (V : Type) where
  names : List String
  arities : List Nat
  attrs : List (String × Attr V)
  deriving Repr

def toRich {V} (t : List (NodeRec V)) : TreeRich V :=
  { names := printedNames t, arities := t.map (·.arity), attrs := edgeAttributes t }

/-- `TreeBuilder._used_names` : name -> count; starts as `{"edge": -1}` -/
abbrev Used := List (String × Int)

/-- `TreeBuilder._unique_name` (the recursion of the code is bounded by `fuel`) -/
def uniqueName : Nat → Used → String → String × Used
  | 0, used, name => (name, used)
  | fuel + 1, used, name =>
    let name := if name = "" then "edge" else name
    match dictGet used name with
    | some c =>
      let used := dictSet used name (c + 1)
      uniqueName fuel used (name ++ "." ++ toString (c + 1))
    | none => (name, dictSet used name 1)

/-- names given to the nodes by the parser, in creation (post) order; `isRoot` marks the last node:
a root that printed no name is not `name_loaded` and is renamed "root" by `make_tree` -/
def parseNames : Used → List String → List String
  | _, [] => []
  | used, [r] => if r = "" then ["root"] else [(uniqueName (used.length + 2) used r).1]
  | used, n :: m :: t =>
    let r := uniqueName (used.length + 2) used n
    r.1 :: parseNames r.2 (m :: t)

/-- `edge.params.update(edge_attr.get(edge.name, {}))` on a freshly parsed node -/
def rebuild {V} (attrs : List (String × Attr V)) (name : String) (arity : Nat) : NodeRec V :=
  match dictGet attrs name with
  | some a => { name := name, length := a.1, params := a.2, arity := arity }
  | none => { name := name, length := none, params := [], arity := arity }

def zipRebuild {V} (attrs : List (String × Attr V)) : List String → List Nat → List (NodeRec V)
  | n :: ns, a :: as => rebuild attrs n a :: zipRebuild attrs ns as
  | _, _ => []

def fromRich {V} (r : TreeRich V) : List (NodeRec V) :=
  zipRebuild r.attrs (parseNames [("edge", -1)] r.names) r.arities

/-- `deserialise_object(t.to_rich_dict())` -/
def roundtrip {V} (t : List (NodeRec V)) : List (NodeRec V) := fromRich (toRich t)

def names {V} (t : List (NodeRec V)) : List String := t.map (·.name)

/-- the documented representation assumption of `TreeNode` ("name: label for the node, assumed to be unique"),
with the two reserved spellings of the builder ("" and "edge"), and a root called "root"
(what `make_tree` calls every root that carries no label of its own) -/
def WF {V} (t : List (NodeRec V)) : Prop :=
  (names t).Nodup ∧ (∀ n ∈ names t, n ≠ "" ∧ n ≠ "edge") ∧ (names t).getLast? = some "root"

end CogentModel.TreeRich
