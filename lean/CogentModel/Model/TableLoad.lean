import CogentModel.Model.Csv
/-
  C20 — the ROW LOGIC of `parse/table.py::load_delimited` (what happens to the records the csv reader yields:
  title line, `limit`, header line, legend line).

  Part 1: the value domain / primitives into which `translator/c20_load2lean.py` translates the SOURCE TEXT of
  `load_delimited` (generated file `Gen/C20Load.lean`).  The csv reader is the list of records it still has to
  yield (`Csv.csvRead` is the model of how the text becomes that list); `next(reader)`, `rows.pop(0)`,
  `rows.pop(-1)` return the value together with the rest of the list.
  Part 2: the HAND model `loadRowsH`, written from the docstring (title = first record, at most `limit` data rows,
  header = first remaining record, legend = last remaining record).  `Proofs/TableLoad.lean` proves
  generated = hand for ALL record lists and ALL arguments.

  Import-free apart from `Model/Csv.lean` (compiled into the native driver).
-/
namespace CogentModel.TableLoad
open CogentModel.Csv

/-! ## part 1: primitives of the generated code -/

/-- `next(reader)`: the next record and the reader afterwards; an exhausted reader raises StopIteration -/
def pyNext {α} : List α → Except String (α × List α)
  | [] => .error "StopIteration"
  | a :: l => .ok (a, l)

/-- `rows.pop(0)` -/
def popFirst {α} : List α → Except String (α × List α)
  | [] => .error "IndexError"
  | a :: l => .ok (a, l)

/-- `rows.pop(-1)` -/
def popLast {α} : List α → Except String (α × List α)
  | [] => .error "IndexError"
  | a :: l => .ok ((a :: l).getLast (by simp), (a :: l).dropLast)

/-- `"".join(record)` -/
def joinEmpty (r : Row) : Str := r.flatten

/-- `limit += k` (`limit` an `int | None`; None + int is a TypeError) -/
def optAdd : Option Int → Int → Except String (Option Int)
  | none, _ => .error "TypeError"
  | some l, k => .ok (some (l + k))

/-- `n >= limit` in a position guarded by `limit is not None` (None: junk false) -/
def geOpt (n : Int) : Option Int → Bool
  | none => false
  | some l => decide (n ≥ l)

/-- `n > limit`, `n <= limit`, `n < limit`, `n == limit` in a guarded position (None: junk false) -/
def gtOpt (n : Int) : Option Int → Bool
  | none => false
  | some l => decide (n > l)
def leOpt (n : Int) : Option Int → Bool
  | none => false
  | some l => decide (n ≤ l)
def ltOpt (n : Int) : Option Int → Bool
  | none => false
  | some l => decide (n < l)
def eqOpt (n : Int) : Option Int → Bool
  | none => false
  | some l => decide (n = l)

/-- what `load_delimited` returns: header (None when `header=False`), rows, title, legend -/
abbrev Loaded := Option Row × List Row × Str × Str

/-! ## part 2: the hand model -/

/-- the number of records the reading loop keeps: all without a limit, otherwise `limit` data rows plus the
header line — but never fewer than one record, because the loop tests the limit AFTER it has appended -/
def keepCount (header : Bool) : Option Int → Option Nat
  | none => none
  | some l => some (max 1 (if header then l + 1 else l)).toNat

def takeOpt {α} (l : List α) : Option Nat → List α
  | none => l
  | some n => l.take n

/-- `load_delimited(header, with_title, with_legend, limit)` on the records of the file -/
def loadRowsH (recs : List Row) (header withTitle withLegend : Bool) (limit : Option Int) :
    Except String Loaded :=
  if withTitle && recs.isEmpty then .error "StopIteration" else
  let title : Str := if withTitle then (recs.headD []).flatten else []
  let recs := if withTitle then recs.tail else recs
  let kept := takeOpt recs (keepCount header limit)
  if header && kept.isEmpty then .error "IndexError" else
  let hdr : Option Row := if header then kept.head? else none
  let rows := if header then kept.tail else kept
  if withLegend && rows.isEmpty then .error "IndexError" else
  .ok (hdr, if withLegend then rows.dropLast else rows, title,
       if withLegend then (rows.getLastD []).flatten else [])

end CogentModel.TableLoad
